"""C09 — operator <-> matrix conversions agree with the operator's definition."""
import copy
from fractions import Fraction

from .. import common
from ..common import rat, unrat

PROP = "C09"
RULE = ("seeded random Pauli sums (Y-heavy, gapped supports, constants, zero and duplicate terms, complex "
        "coefficients k/8+(l/8)i, shuffled dict order, explicit identity letters; flavours: Z-only / X-only / Y-only / "
        "full-width / palindromic terms, all coefficients equal, unit coefficients, int / numpy-scalar / -0.0 coefficients, "
        "coefficients scaled by 2^12 or 2^-10, magnitudes spanning 2^-20..2^16 inside one operator, TYPE LADDER: the same exact value spelled as numpy complex64 / clongdouble / float32 / float16 / "
        "longdouble / int8 / int16 / int32 / int64 / uint8 / uint16 / bool_, Python bool, fractions.Fraction, sympy Integer / Rational / Float / a+b*I "
        "(each only where the type carries the value exactly and the unchanged library accepts it for that API), as initial "
        "coefficient, as sibling 'other type', as assigned coefficient in a session, on wide / huge registers and in sums of 64+ terms; "
        "matrices for get_pauliop_from_matrix as ndarray / row arrays / lists / tuples of those dtypes, the operator's matrix of "
        "those dtypes for hermitian_conjugated / is_hermitian (dense and sparse), state vectors of those dtypes for Wavefunction(...) "
        "and expectation(matrix, state) (vector, column, density matrix); imaginary parts of "
        "relative size 1e-6, sums of 64-71 terms) at widths width..width+2 (a few at 6-7 qubits; n also as numpy integer) "
        "for get_sparse_operator / hermitian_conjugated+is_hermitian (operator, dense and sparse matrix inputs) / "
        "reverse_qubit_order / get_expectation_value + expectation (vector, column vector, LinearOperator, csc and csr "
        "density matrix; dyadic, real, uniform, Pythagorean and 1/sqrt2 states), random Gaussian-rational 2^n x 2^n "
        "matrices (n<=3, a few n=4, one n=5 in the thorough tier; dense, real, int, sparse, hermitian, diagonal, single "
        "Pauli string, single entry, antisymmetric, permutation, zero, identity, complex symmetric, nearly symmetric / "
        "Hermitian / real (part of relative size 1e-6), scaled, spanning magnitudes; given as lists, tuples, ndarray, list of "
        "row arrays) for get_pauliop_from_matrix, a malformed stream (n < width, non-square, non power of two); SESSIONS: "
        "multi-step histories of these calls on the SAME long-lived operators / wavefunctions / matrices (twin calls differing "
        "in one argument, sibling operators differing in one component incl. hash twins (coefficient + 2^-22, -1 vs -2), "
        "equal-but-not-identical, term-sharing and empty operators, edits of coefficient / terms / amplitudes / matrix entries "
        "between calls, results overwritten in place and asked again, objects replaced in place, rejected calls, CHAINS: "
        "the operator or matrix one call returned is the argument of the next), every step judged against the current "
        "value of the objects; WIDE: registers of 9-14 qubits with multi-digit qubit indices whose set order differs from "
        "numeric order (Z1*Z8), all four operator APIs; HUGE: 20-257 qubits for the term-level functions, the sentences "
        "evaluated on sampled rows; exact (dyadic) cases are judged with a tolerance that shrinks with the smallest "
        "magnitude present; non-trivial: some term has a Y and a gap in its support, or n > width; for matrices: size >= 4 "
        "and not symmetric; sessions: >= 2 calls; wide/huge: always; distinct = distinct canonical JSON of the case")
TRUSTED = [
    "numpy / fractions / sympy scalar types carry the dyadic values k/8 * 2^j used on the type ladder exactly (checked per value by "
    "_ladder_value: the spelling is only used when converting back gives the same double); complex(x) reads any of them back",
    "scipy.sparse.kron is the Kronecker product (a scalar first factor acts as a 1x1 matrix) and stores no explicit zeros",
    "csc.tocoo().data lists the stored values column by column; csc.nonzero() lists (row, col) in row-major order",
    "coo_matrix((v,(r,c))).tocsc() sums duplicate positions; .toarray() densifies",
    "numpy.dot / sparse @ vector are the exact sum of products up to double rounding (exact on the dyadic inputs)",
    "f'{complex}' followed by complex(str) round-trips a double coefficient (get_pauliop_from_coeffs_and_labels)",
    "library tolerances np.isclose(x,0)/np.allclose/round(x*1e6) enter the model as the predicates Tol.negl/close/hashEq; "
    "the theorems are for tolerances that only identify equal numbers (exact arithmetic); in doubles a term of "
    "modulus <= 1e-8 is dropped by simplify and coefficients closer than allclose's tolerance are identified",
    "CPython set lookup = equal hash then ==; 64-bit hash collisions of distinct (rounded coefficient, frozenset) ignored",
    "float arithmetic is exact on the dyadic inputs compared exactly with the model; other inputs use 1e-9",
    "the model is a pure function of the arguments: in a session each call is answered by the model from the CURRENT value "
    "of the objects (the harness's own book-keeping of the edits it made through public attributes: PauliTerm.coefficient, "
    "PauliSum.terms, Wavefunction.__setitem__, entries of the caller's matrix)",
]
ASSUMPTIONS = [
    "NUMBER TYPES (established on the unchanged library, harness/props/c09.py LADDER_*): a coefficient may be any Python int / float / "
    "complex / bool, any numpy scalar (complex64 / complex128 / clongdouble / float16 / float32 / float64 / longdouble / (u)int8..64 / bool_), "
    "a fractions.Fraction or a sympy number; get_sparse_operator / get_expectation_value are only defined for the types scipy.sparse "
    "accepts (it rejects float16 and dtype object -- Fraction, sympy -- with a ValueError naming the dtype: not generated); "
    "is_hermitian(operator) is `operator == hermitian_conjugated(operator)` and the library's == of operators RAISES (TypeError / "
    "OverflowError from PauliTerm.__hash__ / np.allclose) for sums with a numpy.complex64 / clongdouble / float16 coefficient and for "
    "any operator with a Fraction / sympy coefficient: there the Hermiticity test gives no answer and only hermitian_conjugated is "
    "judged (a returned answer is judged for every type); matrices: sympy entries are outside get_pauliop_from_matrix's domain "
    "(coefficients are laundered through str()), dense float16 / bool matrices outside is_hermitian's (FINDING is-hermitian-float16-matrix; "
    "numpy refuses `-` on booleans)",
    "PauliTerm._ops is a dict: qubit indices of one term are distinct (Term.WF in the theorems)",
    "dec2bin(number, length) is only called with number < 2**length (true at every call site)",
    "the wavefunction has 2**n amplitudes (enforced by the Wavefunction constructor)",
    "an operator / wavefunction / matrix denotes what its public attributes currently say (PauliTerm.coefficient and "
    "PauliSum.terms are public, assignable attributes; Wavefunction supports norm-preserving item assignment)",
]

TOL = 1e-9
LETTERS = "XYZ"
SINGLE_KINDS = ("sparse", "hc", "from_matrix", "reverse", "expect")


# --------------------------------------------------------------------------- building real objects
def _mods():
    common.use_repo()
    from orquestra.quantum.operators import PauliSum, PauliTerm
    from orquestra.quantum.operators._openfermion_utils.sparse_tools import get_sparse_operator
    from orquestra.quantum.operators._openfermion_utils.operator_utils import hermitian_conjugated, is_hermitian
    from orquestra.quantum.operators import _utils as U
    from orquestra.quantum.wavefunction import Wavefunction
    return PauliSum, PauliTerm, get_sparse_operator, hermitian_conjugated, is_hermitian, U, Wavefunction


# --------------------------------------------------------------------------- the type ladder of a number
# The property quantifies over COEFFICIENTS (complex numbers), not over the Python class that carries one: the same value
# k/8 + (l/8) i spelled as numpy.complex64 / clongdouble / float32 / float16 / longdouble / int8..int64 / uint8 / uint16 / bool_,
# as a Python bool, a fractions.Fraction or a sympy number (Integer, Rational, Float, a + b*I) denotes the same operator.  A tag
# is only honoured where the type carries the value EXACTLY (otherwise the spelling falls back to a Python complex), so the
# exact model still answers every case.  (harness/ladder.py: the tags and their constructors, shared with C03.)
from ..ladder import (LADDER_ALL, LADDER_CPLX, LADDER_INT, LADDER_OBJ, LADDER_REAL, NP_NAMES as _NP_NAMES,  # noqa: E402,F401
                      ladder_pick as _ladder_pick, ladder_value as _ladder_value, tclass as _tclass, typed_array as _typed_array)

# accepted by get_sparse_operator / get_expectation_value (scipy.sparse rejects float16 and dtype object with a ValueError)
LADDER_SPARSE = tuple(t for t in LADDER_ALL if t not in LADDER_OBJ and t != "f16")
# long-lived, edited operators (sessions): without the unsigned types -- numpy itself refuses `uint8 + negative Python int`
# (OverflowError) when like terms are added, so an unsigned coefficient is only generated where the generator controls its like terms
LADDER_SESSION = tuple(t for t in LADDER_SPARSE if t not in ("u8", "u16"))
# dtypes of a caller's matrix (get_pauliop_from_matrix; hermitian_conjugated / is_hermitian on a matrix) and of a state vector
LADDER_MATRIX = ("c64", "clg", "f32", "f16", "flg", "i8", "i16", "i32", "u8", "nb", "pb", "fr")
LADDER_HC_MATRIX = ("c64", "clg", "f32", "flg", "i8", "i16", "i32", "u8", "nb")
LADDER_STATE = ("c64", "clg", "f32", "f16", "flg", "i8", "i32", "u8", "nb", "list")
# how the IMPLEMENTATION's object spells a coefficient (read by run_impl): classes on which the unchanged library's `==` of
# operators (hence is_hermitian) raises instead of answering -- PauliTerm.__hash__ calls round() on the coefficient unless it is an
# instance of `complex` (TypeError for numpy.complex64 / clongdouble, OverflowError for float16 * 1e6), np.allclose raises TypeError
# on Fraction / sympy objects
HERM_UNDEFINED_SUM = ("np:complex64", "np:complex256", "np:float16", "fraction", "sympy")
HERM_UNDEFINED_TERM = ("fraction", "sympy")


def _coef(t):
    ty = t.get("t", "c")
    if ty in LADDER_ALL:
        v = _ladder_value(ty, unrat(t["c"][0]), unrat(t["c"][1]))
        if v is not None:
            return v
    re, im = float(unrat(t["c"][0])), float(unrat(t["c"][1]))
    if ty == "i" and im == 0 and re == int(re):
        return int(re)
    if ty == "f" and im == 0:
        return re
    if ty == "nf" and im == 0:
        import numpy as np
        return np.float64(re)
    if ty == "nc":
        import numpy as np
        return np.complex128(complex(re, im))
    if ty == "ni" and im == 0 and re == int(re):
        import numpy as np
        return np.int64(int(re))
    if ty == "cz" and im == 0:
        return complex(re, -0.0)
    return complex(re, im)


def _term(t):
    PauliTerm = _mods()[1]
    d = {int(q): p for q, p in t["ops"]}
    for q in t.get("pad_I", []):  # explicit identity letters: legal, no operation, do not count for the width
        d.setdefault(int(q), "I")
    return PauliTerm(d, _coef(t))


def _op(c):
    PauliSum = _mods()[0]
    if c.get("as_term"):
        return _term(c["sum"][0])
    return PauliSum([_term(t) for t in c["sum"]])


def _cz(x):
    z = complex(x)
    return [rat(Fraction(z.real)), rat(Fraction(z.imag))]


def _canon_term(t):
    return {"ops": sorted([[int(q), str(p)] for q, p in t.operations]), "c": _cz(t.coefficient)}


def _canon_sum(op):
    return [_canon_term(t) for t in op.terms]


def _canon_spec(t):
    """what _canon_term reads from an untouched term built from the spec t"""
    return {"ops": sorted([[int(q), str(p)] for q, p in t["ops"]]),
            "c": [rat(Fraction(float(unrat(t["c"][0])))), rat(Fraction(float(unrat(t["c"][1]))))]}


def _amp_complex(a):
    if len(a) == 2:
        return complex(float(unrat(a[0])), float(unrat(a[1])))
    return common.cyc_to_complex(a)


def _psi_complex(psi):
    return [_amp_complex(a) for a in psi]


def _phase(a, u):
    """amplitude (Gaussian pair or Cyc8 4-list) times the unit u in {'-1','i','-i'}, exactly"""
    neg = lambda x: rat(-unrat(x))  # noqa: E731
    if len(a) == 2:
        re, im = a
        return {"-1": [neg(re), neg(im)], "i": [neg(im), re], "-i": [im, neg(re)]}[u]
    p, q, r, s = a  # p + q z + r z^2 + s z^3, i = z^2, z^4 = -1
    return {"-1": [neg(p), neg(q), neg(r), neg(s)], "i": [neg(r), neg(s), p, q], "-i": [r, s, neg(p), neg(q)]}[u]


_UNITS = {"-1": -1, "i": 1j, "-i": -1j}


def _entry_scalar(e):
    return complex(float(unrat(e[0])), float(unrat(e[1])))


def _matrix_tags(m, allowed=LADDER_MATRIX):
    """the ladder dtypes that carry every entry of the matrix spec m exactly"""
    return [t for t in allowed if all(_ladder_value(t, unrat(e[0]), unrat(e[1])) is not None for row in m for e in row)]


def _build_matrix(m, form="list", mutable=False, dt=None):
    """the caller's matrix object handed to get_pauliop_from_matrix (dt: a ladder dtype carrying every entry exactly: the
    matrix as an ndarray / rows of that dtype, or as lists / tuples of scalars of that type)"""
    import numpy as np
    if dt is not None and m and m[0]:
        typed = [[_ladder_value(dt, unrat(e[0]), unrat(e[1])) for e in row] for row in m]
        if all(v is not None for row in typed for v in row):
            npdt = object if dt == "fr" else getattr(np, _NP_NAMES[dt])
            if form == "ndarray":
                return np.array(typed, dtype=npdt)
            if form == "rows":
                return [np.array(r, dtype=npdt) for r in typed]
            if form == "tuple" and not mutable:
                return tuple(tuple(r) for r in typed)
            return typed
    rows = [[_entry_scalar(e) for e in row] for row in m]
    if not mutable and all(unrat(e[1]) == 0 for row in m for e in row):
        if all(unrat(e[0]).denominator == 1 for row in m for e in row):
            rows = [[int(unrat(e[0])) for e in row] for row in m]
        else:
            rows = [[float(unrat(e[0])) for e in row] for row in m]
    if form == "ndarray":
        return np.array(rows, dtype=complex) if mutable else np.array(rows)
    if form == "rows":
        return [np.array(r, dtype=complex) if mutable else np.array(r) for r in rows]
    if form == "tuple" and not mutable:
        return tuple(tuple(r) for r in rows)
    return rows


# --------------------------------------------------------------------------- reference (oracle only)
def _width(terms):
    return max([q + 1 for t in terms for q, _ in t["ops"]], default=0)


_P2 = {"I": ((1, 0), (0, 1)), "X": ((0, 1), (1, 0)), "Y": ((0, -1j), (1j, 0)), "Z": ((1, 0), (0, -1))}


def _ref_matrix(terms, n):
    """Tensor-product definition, qubit 0 the leftmost factor, by explicit index arithmetic:
    entry (r, c) = coeff * prod_q sigma_q[bit_q(r)][bit_q(c)], bit_q = bit (n-1-q) of the index."""
    import numpy as np
    d = 2 ** n
    a = np.zeros((d, d), dtype=complex)
    for t in terms:
        coeff = complex(float(unrat(t["c"][0])), float(unrat(t["c"][1])))
        letters = ["I"] * n
        for q, p in t["ops"]:
            letters[q] = p
        for r in range(d):
            # the single non-zero column of row r
            c = r
            v = coeff
            for q in range(n):
                br = (r >> (n - 1 - q)) & 1
                if letters[q] in "XY":
                    c ^= 1 << (n - 1 - q)
                    bc = 1 - br
                else:
                    bc = br
                v = v * _P2[letters[q]][br][bc]
            a[r][c] += v
    return a


def _ref_entries(terms, n):
    """the same definition as a dictionary (row, column) -> value (identity factors contribute 1): wide registers"""
    ent = {}
    for t in terms:
        coeff = complex(float(unrat(t["c"][0])), float(unrat(t["c"][1])))
        ops = [(n - 1 - q, p) for q, p in t["ops"]]
        flip = 0
        for sh, p in ops:
            if p in "XY":
                flip |= 1 << sh
        for r in range(2 ** n):
            v = coeff
            for sh, p in ops:
                br = (r >> sh) & 1
                v = v * _P2[p][br][1 - br if p in "XY" else br]
            key = (r, r ^ flip)
            ent[key] = ent.get(key, 0) + v
    return ent


def _ref_row(terms, n, r):
    """row r of the same definition on a register of any size: {column: value} (one entry per term)"""
    row = {}
    for t in terms:
        v = complex(float(unrat(t["c"][0])), float(unrat(t["c"][1])))
        col = r
        for q, p in t["ops"]:
            sh = n - 1 - q
            br = (r >> sh) & 1
            if p in "XY":
                col ^= 1 << sh
                v = v * _P2[p][br][1 - br]
            else:
                v = v * _P2[p][br][br]
        row[col] = row.get(col, 0) + v
    return row


def _row_diff(a, b):
    return max([abs(a.get(k, 0) - b.get(k, 0)) for k in set(a) | set(b)], default=0.0)


def _mags(terms):
    """the non-zero real and imaginary parts of the coefficients"""
    return [abs(float(unrat(x))) for t in terms for x in t["c"] if unrat(x) != 0]


def _tol(c, mags, base):
    """exact cases are computed without rounding by the library and by the reference (dyadic inputs): the tolerance
    shrinks with the smallest magnitude present, so a tiny legitimate contribution cannot hide; otherwise relative"""
    if c.get("exact", True):
        return base * min([1.0] + list(mags))
    return base * max([1.0] + list(mags))


def _herm_ambiguous(terms):
    """some coefficient has an imaginary part inside the library's comparison tolerances (allclose 1e-8 + 1e-5|c|,
    hash rounding 1e-6): whether c and conj(c) are identified is the library's documented tolerance, not judged"""
    for t in terms:
        re, im = abs(float(unrat(t["c"][0]))), abs(float(unrat(t["c"][1])))
        if 0 < im <= 1e-4 * max(1.0, re):
            return True
    return False


def _ent_diff(a, b):
    return max([abs(a.get(k, 0) - b.get(k, 0)) for k in set(a) | set(b)], default=0.0)


def _bitrev(i, n):
    return int(format(i, f"0{n}b")[::-1], 2) if n else 0


def _mat_of(rows):
    import numpy as np
    return np.array([[complex(float(unrat(e[0])), float(unrat(e[1]))) for e in row] for row in rows], dtype=complex)


def _maxdiff(a, b):
    import numpy as np
    if a.shape != b.shape:
        return float("inf")
    return float(np.max(np.abs(a - b))) if a.size else 0.0


def _is_simplified(terms):
    keys = [tuple(sorted(map(tuple, t["ops"]))) for t in terms]
    if len(set(keys)) != len(keys):
        return False
    return all(abs(complex(float(unrat(t["c"][0])), float(unrat(t["c"][1])))) > 1e-3 for t in terms)


# --------------------------------------------------------------------------- generators
FLAVOURS = ["ising", "x", "y", "full", "int", "np", "scaled", "uniform", "pal", "span", "tinyim", "unit", "ladder", "ladder", "ladder"]
EXACT_ONLY = ("scaled", "span", "tinyim")


def _pick_flavour(rng, exact=True):
    if rng.random() < 0.55:
        return None
    f = rng.choice(FLAVOURS)
    return None if (f in EXACT_ONLY and not exact) else f


def _gen_coeff(rng, exact, flavour=None, ladder=None):
    """ladder: the tags of the type ladder this coefficient may be spelled with (always under the flavour "ladder", else now and
    then; only where the type carries the value exactly)"""
    c, ty = _gen_coeff_plain(rng, exact, flavour)
    if ladder and exact and (flavour == "ladder" or rng.random() < 0.1):
        tag = _ladder_pick(rng, c, ladder)
        if tag is not None:
            ty = tag
    return c, ty


def _gen_coeff_plain(rng, exact, flavour=None):
    if flavour == "unit":
        re, im = rng.choice([(1, 0), (1, 0), (-1, 0), (0, 1)])
        return [re, im], ("c" if im else rng.choice(["f", "i", "c"]))
    if flavour == "int":
        re, im = Fraction(rng.randrange(-3, 4)), Fraction(0)
        if re == 0 and rng.random() < 0.8:
            re = Fraction(2)
        return [rat(re), rat(im)], "i"
    if flavour == "ladder" and exact and rng.random() < 0.4:
        # integers (every integer type of the ladder) and 0 / 1 (the two boolean types)
        re, im = Fraction(rng.choice([0, 1, 1, 1]) if rng.random() < 0.3 else rng.randrange(-3, 8)), Fraction(0)
        return [rat(re), rat(im)], rng.choice(["i", "f", "c"])
    if exact:
        re, im = Fraction(rng.randrange(-16, 17), 8), Fraction(rng.randrange(-16, 17), 8)
    else:
        re, im = Fraction(rng.randrange(-30, 31), rng.choice([3, 5, 10, 7])), Fraction(rng.randrange(-30, 31), rng.choice([3, 5, 10]))
    mode = rng.random()
    if mode < 0.35:
        im = Fraction(0)
    elif mode < 0.45:
        re = Fraction(0)
    if mode > 0.97:
        re = im = Fraction(0)
    if re == 0 and im == 0 and rng.random() < 0.6:
        re = Fraction(1)
    ty = "c"
    if flavour == "tinyim" and exact:
        # an imaginary part far below 1e-5 |real| that is nevertheless part of the operator
        re = re if re != 0 else Fraction(2)
        im = Fraction(rng.choice([-3, -1, 1, 2, 5]), 2 ** 20)
    if flavour == "np":
        ty = ("ni" if re.denominator == 1 and rng.random() < 0.4 else "nf") if im == 0 and rng.random() < 0.6 else "nc"
    elif im == 0:
        ty = rng.choice(["c", "f", "f", "i" if re.denominator == 1 else "f", "cz"])
    return [rat(re), rat(im)], ty


def _gen_term(rng, maxq, exact, flavour=None, ladder=None):
    letters = {"ising": "Z", "x": "X", "y": "Y"}.get(flavour, "XYYZ")
    if maxq == 0 or (flavour != "full" and rng.random() < 0.12):
        ops = []
    elif flavour == "full":
        qs = list(range(maxq))
        rng.shuffle(qs)
        ops = [[q, rng.choice(letters)] for q in qs]
    else:
        k = rng.choice([1, 1, 2, 2, 3, 4])
        qs = rng.sample(range(maxq), min(k, maxq))
        ops = [[q, rng.choice(letters)] for q in qs]  # Y-heavy, arbitrary dict order
    if flavour == "pal" and maxq > 0:
        # invariant under q -> maxq-1-q: "already reversed" shapes
        ops = []
        for q in range((maxq + 1) // 2):
            if rng.random() < 0.6:
                p = rng.choice("XYYZ")
                ops += [[q, p]] + ([[maxq - 1 - q, p]] if maxq - 1 - q != q else [])
        rng.shuffle(ops)
    c, ty = _gen_coeff(rng, exact, flavour, ladder)
    t = {"ops": ops, "c": c, "t": ty}
    if rng.random() < 0.05:
        free = [q for q in range(maxq + 3) if q not in [o[0] for o in ops]]
        t["pad_I"] = rng.sample(free, min(len(free), rng.choice([1, 2])))
    return t


def _narrow_ok(c):
    """the value sits on the grid on which sums of like terms stay exact in every narrow type (multiples of 1/8, modulus <= 16)"""
    re, im = unrat(c[0]), unrat(c[1])
    return (8 * re).denominator == 1 and (8 * im).denominator == 1 and abs(re) <= 16 and abs(im) <= 16


def _fix_narrow(terms):
    """numpy adds a Python number to a float32 / complex64 / float16 scalar IN THE NARROW TYPE: next to a coefficient off the 1/8-grid
    (scaled, spanning magnitudes, a 2^-20 imaginary part, a hash twin) a narrow spelling would lose bits in the like-term sums, so
    the narrow floating rungs are respelled in extended precision (same value, 64-bit mantissa) in such an operator"""
    if any(not _narrow_ok(t["c"]) for t in terms):
        for t in terms:
            if t.get("t") in ("c64", "f32", "f16"):
                t["t"] = "clg" if t["t"] == "c64" else "flg"
    return terms


def _fix_unsigned(terms):
    """numpy refuses `uint + negative Python int` (OverflowError): next to an unsigned coefficient a negative Python int is
    spelled as a float"""
    if any(t.get("t") in ("u8", "u16") for t in terms):
        for t in terms:
            if t.get("t") == "i" and unrat(t["c"][0]) < 0:
                t["t"] = "f"
    return terms


def _scale(terms, k):
    f = Fraction(2) ** k
    for t in terms:
        t["c"] = [rat(unrat(t["c"][0]) * f), rat(unrat(t["c"][1]) * f)]
    return terms


def _gen_sum(rng, maxq, exact, hermitian=None, flavour=None, nt=None, ladder=None):
    r = rng.random()
    if r < 0.06 and nt is None:
        return []
    exact_count = nt is not None
    if nt is None:
        nt = rng.randrange(64, 72) if flavour == "long" else rng.choice([1, 1, 2, 3, 4, 6])
    # one sum draws its spellings from ONE family: numpy scalars + Python bool, or the exact-object numbers (Fraction, sympy) next to
    # plain Python numbers -- sympy refuses to add a numpy scalar or a bool (sympify of their repr fails), Fraction + longdouble raises
    lad = tuple(t for t in (ladder or ()) if t not in LADDER_OBJ)
    symfam = flavour == "ladder" and any(t in LADDER_OBJ for t in (ladder or ())) and rng.random() < 0.5
    if symfam:
        lad = LADDER_OBJ
    terms = [_gen_term(rng, maxq, exact, flavour, lad) for _ in range(nt)]
    if flavour == "uniform" and terms:
        for t in terms:
            t["c"], t["t"] = list(terms[0]["c"]), terms[0]["t"]
    if flavour == "span" and exact:
        for t in terms:  # magnitudes spanning eleven decades inside one operator
            _scale([t], rng.choice([-20, 0, 16]))
    if rng.random() < 0.25 and terms and not exact_count:
        # duplicate support (non-simplified sum); sometimes cancelling
        t = dict(rng.choice(terms))
        t = {"ops": list(reversed(t["ops"])), "c": list(t["c"]), "t": "c"}
        if rng.random() < 0.4:
            t["c"] = [rat(-unrat(t["c"][0])), rat(-unrat(t["c"][1]))]
        terms.insert(rng.randrange(len(terms) + 1), t)
    if hermitian:
        for t in terms:
            t["c"] = [t["c"][0], 0]
            if unrat(t["c"][0]) == 0:
                t["c"] = [1, 0]
    if flavour == "scaled" and exact:
        _scale(terms, rng.choice([12, -10]))
    return _fix_narrow(_fix_unsigned(terms))


def _dedupe_keys(terms):
    """make the supports pairwise distinct and the coefficients non-zero (a simplified sum)"""
    seen, out = set(), []
    for t in terms:
        key = tuple(sorted(map(tuple, t["ops"])))
        if key in seen or (unrat(t["c"][0]) == 0 and unrat(t["c"][1]) == 0):
            continue
        seen.add(key)
        out.append(t)
    return out


MATRIX_STYLES = ["dense", "dense", "real", "int", "sparse", "hermitian", "diag", "pauli", "single", "antisym", "perm", "scaled",
                 "zero", "identity", "csym", "nearsym", "nearherm", "nearreal", "span"]


def _gen_matrix(rng, n, exact, style):
    d = 2 ** n
    den = 8 if exact else rng.choice([3, 5, 10])
    zero = [0, 0]

    def e():
        return [rat(Fraction(rng.randrange(-16, 17), den)), rat(Fraction(rng.randrange(-16, 17), den))]

    def nz():
        x = e()
        return x if x != zero else [1, "-1/2"]

    if style == "dense":
        return [[e() for _ in range(d)] for _ in range(d)]
    if style == "real":
        return [[[rat(Fraction(rng.randrange(-16, 17), den)), 0] for _ in range(d)] for _ in range(d)]
    if style == "int":
        return [[[rng.randrange(-3, 4), 0] for _ in range(d)] for _ in range(d)]
    if style == "sparse":
        return [[e() if rng.random() < 0.25 else [0, 0] for _ in range(d)] for _ in range(d)]
    if style == "hermitian":
        m = [[e() for _ in range(d)] for _ in range(d)]
        for i in range(d):
            m[i][i] = [m[i][i][0], 0]
            for j in range(i):
                m[i][j] = [m[j][i][0], rat(-unrat(m[j][i][1]))]
        return m
    if style == "diag":
        return [[e() if i == j else [0, 0] for j in range(d)] for i in range(d)]
    if style == "single":
        i, j = rng.randrange(d), rng.randrange(d)
        return [[nz() if (a, b) == (i, j) else [0, 0] for b in range(d)] for a in range(d)]
    if style == "antisym":
        m = [[e() for _ in range(d)] for _ in range(d)]
        for i in range(d):
            m[i][i] = [0, 0]
            for j in range(i):
                m[i][j] = [rat(-unrat(m[j][i][0])), rat(-unrat(m[j][i][1]))]
        return m
    if style == "perm":
        p = list(range(d))
        rng.shuffle(p)
        return [[[1, 0] if p[i] == j else [0, 0] for j in range(d)] for i in range(d)]
    if style == "pauli":
        t = {"ops": [[q, rng.choice("XYZ")] for q in range(n) if rng.random() < 0.7], "c": nz()}
        return [[_cz(x) for x in row] for row in _ref_matrix([t], n)]
    if style == "zero":
        return [[[0, 0] for _ in range(d)] for _ in range(d)]
    if style == "identity":
        c = nz()
        return [[list(c) if i == j else [0, 0] for j in range(d)] for i in range(d)]
    if style in ("csym", "nearsym", "nearherm", "nearreal"):
        # complex symmetric (not Hermitian); real symmetric / Hermitian / real up to a part of relative size ~1e-6 that
        # is nevertheless part of the matrix
        m = [[e() for _ in range(d)] for _ in range(d)]
        eps = Fraction(1, 2 ** 20)
        for i in range(d):
            for j in range(d):
                re, im = unrat(m[min(i, j)][max(i, j)][0]), unrat(m[min(i, j)][max(i, j)][1])
                if style == "csym":
                    x = (re, im)
                elif style == "nearsym":
                    x = (re + (eps if i > j else 0), 0)
                elif style == "nearherm":
                    x = (re, (im if i < j else -im if i > j else 0) + (eps if i >= j else 0))
                else:
                    x = (unrat(m[i][j][0]), eps * rng.choice([-1, 1, 3]))
                if i >= j or style == "nearreal":
                    m[i][j] = [rat(x[0]), rat(x[1])]
        if style != "nearreal":
            for i in range(d):
                for j in range(i + 1, d):
                    if style == "csym":
                        m[i][j] = list(m[j][i])
                    elif style == "nearsym":
                        m[i][j] = [rat(unrat(m[j][i][0]) - eps), 0]
                    else:
                        m[i][j] = [m[j][i][0], rat(-(unrat(m[j][i][1]) - eps))]
        return m
    if style == "span":
        return [[[rat(Fraction(rng.randrange(-16, 17), 8) * Fraction(2) ** rng.choice([-16, 0, 12])),
                  rat(Fraction(rng.randrange(-16, 17), 8) * Fraction(2) ** rng.choice([-16, 0, 12]))]
                 for _ in range(d)] for _ in range(d)]
    if style == "scaled":
        f = Fraction(2) ** rng.choice([12, -10])
        return [[[rat(Fraction(rng.randrange(-16, 17), 8) * f), rat(Fraction(rng.randrange(-16, 17), 8) * f)]
                 for _ in range(d)] for _ in range(d)]
    raise AssertionError(style)


def _split_unit(rng, slots):
    """exponents a_i with sum 4^-a_i = 1, at most `slots` of them (dyadic normalised amplitudes 2^-a_i)"""
    parts = [0]
    while True:
        cand = [i for i in range(len(parts))]
        if len(parts) + 3 > slots or rng.random() < 0.3:
            break
        i = rng.choice(cand)
        a = parts.pop(i)
        parts += [a + 1] * 4
    return parts


def _gen_psi(rng, n, mode):
    d = 2 ** n
    units = [(1, 0), (-1, 0), (0, 1), (0, -1)]
    if mode == "dyadic":
        parts = _split_unit(rng, d)
        pos = rng.sample(range(d), len(parts))
        psi = [[0, 0] for _ in range(d)]
        for p, a in zip(pos, parts):
            u = rng.choice(units)
            psi[p] = [rat(Fraction(u[0], 2 ** a)), rat(Fraction(u[1], 2 ** a))]
        return psi
    if mode == "basis":
        # one computational basis state: carried by every dtype of the ladder, the integer and boolean ones included
        p = rng.randrange(d)
        return [[1 if i == p else 0, 0] for i in range(d)]
    if mode == "real":
        psi = _gen_psi(rng, n, "dyadic")
        return [[rat(abs(unrat(a[0])) + abs(unrat(a[1]))), 0] for a in psi]
    if mode == "uniform":
        # all amplitudes equal: 2^(-n/2)
        if n % 2 == 0:
            return [[rat(Fraction(1, 2 ** (n // 2))), 0] for _ in range(d)]
        h = Fraction(1, 2 ** ((n - 1) // 2 + 1))
        return [[0, rat(h), 0, rat(-h)] for _ in range(d)]
    if mode == "pyth":
        # rational points: (3/5, 4/5), (5/13, 12/13), (8/17, 15/17) spread over two basis states
        a, b, c = rng.choice([(3, 4, 5), (5, 12, 13), (8, 15, 17), (7, 24, 25)])
        psi = [[0, 0] for _ in range(d)]
        if d == 1:
            psi[0] = [0, 1]
            return psi
        i, j = rng.sample(range(d), 2)
        u, v = rng.choice(units), rng.choice(units)
        psi[i] = [rat(Fraction(u[0] * a, c)), rat(Fraction(u[1] * a, c))]
        psi[j] = [rat(Fraction(v[0] * b, c)), rat(Fraction(v[1] * b, c))]
        return psi
    # "sqrt2": amplitudes ±(1/sqrt2), ±i/sqrt2 (Cyc8 [a,b,c,d] = b*zeta + d*zeta^3, 1/sqrt2 = (zeta - zeta^3)/2)
    psi = [[0, 0, 0, 0] for _ in range(d)]
    if d == 1:
        return [[1, 0, 0, 0]]
    i, j = rng.sample(range(d), 2)
    h = Fraction(1, 2)
    forms = [[0, rat(h), 0, rat(-h)], [0, rat(-h), 0, rat(h)], [0, rat(h), 0, rat(h)], [0, rat(-h), 0, rat(-h)]]
    psi[i] = rng.choice(forms)
    psi[j] = rng.choice(forms)
    return psi


# --------------------------------------------------------------------------- sessions (histories on long-lived objects)
# A session case:  pool  = term specs (each becomes ONE PauliTerm object),
#                  ops   = [{"terms": [pool indices], "as_term": bool}]  (a PauliSum built from those very term objects, or
#                          the pool term itself) -> operators may share term objects,
#                  psis  = wavefunctions, mats = [{"m": rows, "form": ...}] caller-owned matrices,
#                  steps = calls  {"do": "sparse"|"reverse", "op", "n"} {"do": "hc", "op"} {"do": "expect", "op", "psi", "rev"}
#                                 {"do": "from_matrix", "mat"}
#                          edits  {"do": "set_coeff", "op", "term", "c", "t"}   op.terms[term].coefficient = c
#                                 {"do": "set_terms", "op", "terms": [pool indices]}   op.terms = [those term objects]
#                                 {"do": "replace", "op", "sum": [...], "as_term"}    slot rebound to a brand-new operator
#                                 {"do": "phase", "psi", "idx", "u"}                  wf[idx] = wf[idx] * u, |u| = 1
#                                 {"do": "set_mat", "mat", "i", "j", "v"}             M[i][j] = v
#                                 {"do": "poison", "step"}   the object RETURNED by that step is overwritten in place
#                          chains {"do": "adopt", "step", "which": "hc"|"once"|"twice"|"sum"}  the operator RETURNED by that step
#                                         becomes a new operator slot (its value: what that step reported, itself checked)
#                                 {"do": "expect_of", "step", "psi", "route"}  expectation(matrix returned by that
#                                         get_sparse_operator step, amplitudes of psi) as vector / column / density matrix
class _Sess:
    def __init__(self, exact=True):
        self.c = {"kind": "session", "exact": exact, "pool": [], "ops": [], "psis": [], "mats": [], "steps": []}

    def term(self, spec):
        self.c["pool"].append(spec)
        return len(self.c["pool"]) - 1

    def op(self, idxs, as_term=False):
        o = {"terms": list(idxs)}
        if as_term:
            o["as_term"] = True
        self.c["ops"].append(o)
        return len(self.c["ops"]) - 1

    def sum(self, terms):
        return self.op([self.term(t) for t in terms])

    def psi(self, p):
        self.c["psis"].append(p)
        return len(self.c["psis"]) - 1

    def mat(self, m, form="list"):
        self.c["mats"].append({"m": m, "form": form})
        return len(self.c["mats"]) - 1

    def step(self, **kw):
        self.c["steps"].append(kw)
        return len(self.c["steps"]) - 1

    def case(self):
        return self.c


def _other_coeff(rng, c):
    re, im = unrat(c[0]), unrat(c[1])
    m = rng.choice(["re", "im", "conj", "neg", "swap"])
    if m == "re":
        re += Fraction(rng.choice([-3, -1, 1, 2]), 8)
    elif m == "im":
        im += Fraction(rng.choice([-3, -1, 1, 2]), 8)
    elif m == "conj" and im != 0:
        im = -im
    elif m == "neg" and (re, im) != (0, 0):
        re, im = -re, -im
    elif m == "swap" and re != im:
        re, im = im, re
    else:
        re += Fraction(1, 4)
    return [rat(re), rat(im)]


def _sibling_sum(rng, s, n):
    """a sum that differs from s in exactly one component"""
    s2 = copy.deepcopy(s)
    m = rng.choice(["coeff", "coeff", "letter", "qubit", "order", "drop", "dup", "type", "type", "hashtwin", "neg12"])
    t = rng.choice(s2)
    if m == "letter" and t["ops"]:
        o = rng.choice(t["ops"])
        o[1] = rng.choice([p for p in "XYZ" if p != o[1]])
    elif m == "qubit" and t["ops"] and len(t["ops"]) < n:
        o = rng.choice(t["ops"])
        o[0] = rng.choice([q for q in range(n) if q not in [x[0] for x in t["ops"]]])
    elif m == "order" and (len(s2) > 1 or len(t["ops"]) > 1):
        s2.reverse()
        for x in s2:
            x["ops"].reverse()
    elif m == "drop" and len(s2) > 1:
        s2.remove(t)
    elif m == "dup":
        s2.append({"ops": list(reversed(copy.deepcopy(t["ops"]))), "c": _other_coeff(rng, t["c"]), "t": "c"})
    elif m == "hashtwin":
        # equal under PauliTerm.__eq__ (allclose) with equal __hash__ (rounded at 1e-6), yet a different operator
        t["c"] = [rat(unrat(t["c"][0]) + Fraction(1, 2 ** 22)), t["c"][1]]
    elif m == "neg12" and unrat(t["c"][1]) == 0:
        # hash(-1) == hash(-2) for ints and floats
        t["c"] = [-2 if unrat(t["c"][0]) == -1 else -1, 0]
    elif m == "type":
        # the same number carried by another type (Python / numpy double precision, or a rung of the type ladder)
        plain = ["c", "f", "nf", "nc"] if unrat(t["c"][1]) == 0 else ["c", "nc"]
        fits = [x for x in LADDER_SESSION if _ladder_value(x, unrat(t["c"][0]), unrat(t["c"][1])) is not None]
        pool = (fits if fits and rng.random() < 0.6 else plain)
        t["t"] = rng.choice([x for x in pool if x != t.get("t", "c")] or plain)
    else:
        t["c"] = _other_coeff(rng, t["c"])
        t["t"] = "c"
    return _fix_narrow(s2)


def _gen_session(rng, tier):
    big = tier == "thorough"
    exact = rng.random() < 0.9
    n = rng.randrange(1, (4 if big else 3) + 1)
    base = []
    herm = rng.random() < 0.3                               # real coefficients: "already Hermitian" shapes
    r0 = rng.random()
    fl = "pal" if r0 < 0.15 else "unit" if r0 < 0.27 else _pick_flavour(rng, exact)
    while not base:
        base = _gen_sum(rng, n, exact, hermitian=herm, flavour=fl, ladder=LADDER_SESSION)
        if rng.random() < 0.5 or fl == "pal":
            base = _dedupe_keys(base)
    base = base[:4]
    wide_only = tuple(t for t in LADDER_SESSION if t not in ("c64", "f32", "f16"))
    lad0 = LADDER_SESSION if all(_narrow_ok(t["c"]) for t in base) else wide_only   # see _fix_narrow
    B = _Sess(exact)
    idx = [B.term(t) for t in base]
    B.op(idx)
    B.sum(_sibling_sum(rng, base, n))                       # one component different, distinct objects
    if rng.random() < 0.5:
        B.sum(copy.deepcopy(base))                          # equal but not identical
    if rng.random() < 0.6:                                  # shares term objects with operator 0
        share = [k for k in idx if rng.random() < 0.7] or idx[:1]
        extra = [B.term(_gen_term(rng, n, exact, ladder=lad0))] if rng.random() < 0.5 else []
        B.op(share + extra)
    if rng.random() < 0.6:                                  # a PauliTerm that IS one of the terms of operator 0
        B.op([rng.choice(idx)], as_term=True)
    if rng.random() < 0.15:                                 # hash(-1) == hash(-2)
        B.c["pool"][idx[0]]["c"], B.c["pool"][idx[0]]["t"] = [-1, 0], rng.choice(["i", "f"])
        tw = copy.deepcopy([B.c["pool"][k] for k in idx])
        tw[0]["c"] = [-2, 0]
        B.sum(tw)
    spare = [B.term(_gen_term(rng, n, exact, ladder=lad0)) for _ in range(2)]
    sums = [i for i, o in enumerate(B.c["ops"]) if not o.get("as_term")]
    editable = list(range(len(B.c["ops"])))
    if rng.random() < 0.25:
        B.op([])                                            # the empty sum (never edited)
    state = {"nops": len(B.c["ops"])}
    no_poison = set()
    # later edits: narrow spellings only if every coefficient of the session sits on the 1/8-grid (see _fix_narrow)
    state["lad"] = LADDER_SESSION if all(_narrow_ok(t["c"]) for t in B.c["pool"]) else wide_only
    mode = "dyadic" if exact else rng.choice(["dyadic", "pyth", "sqrt2"])
    p0 = _gen_psi(rng, n, mode)
    B.psi(p0)
    B.psi(_gen_psi(rng, n, mode))
    B.psi(copy.deepcopy(p0))
    B.psi(_gen_psi(rng, n + 1, mode))
    if n > 1 and rng.random() < 0.3:
        B.psi(_gen_psi(rng, n - 1, mode))                   # narrower than some operators: rejected calls
    psi_n = [len(p).bit_length() - 1 for p in B.c["psis"]]
    if rng.random() < 0.35:
        B.c["amp_dt"] = rng.choice(["c64", "c64", "clg"])   # expectation(matrix, amplitudes as an array of that dtype) where it fits
    ns = [None, None, n, n, n + 1, n + 2] + ([n - 1] if rng.random() < 0.4 else [])
    weights = rng.choice([["expect"] * 4 + ["sparse", "reverse", "hc"], ["sparse"] * 4 + ["expect", "reverse", "hc"],
                          ["reverse"] * 4 + ["expect", "sparse", "hc"], ["hc"] * 4 + ["expect", "sparse", "reverse"],
                          ["expect", "sparse", "reverse", "hc"]])

    def fresh():
        api = rng.choice(weights)
        st = {"do": api, "op": rng.choice([0, 0, 0] + list(range(state["nops"])))}
        if api in ("sparse", "reverse"):
            st["n"] = rng.choice(ns)
        if api == "expect":
            st["psi"] = rng.choice([0, 0, 1, 2, 3] + list(range(len(psi_n))))
            st["rev"] = rng.random() < 0.5
        return st

    def twin(st):
        tw = dict(st)
        comp = rng.choice({"expect": ["rev", "rev", "psi", "op"], "sparse": ["n", "n", "op"], "reverse": ["n", "n", "op"],
                           "hc": ["op"]}[st["do"]])
        if comp == "rev":
            tw["rev"] = not st["rev"]
        elif comp == "psi":
            same = [j for j, w in enumerate(psi_n) if w == psi_n[st["psi"]] and j != st["psi"]]
            tw["psi"] = rng.choice(same or [j for j in range(len(psi_n)) if j != st["psi"]])
        elif comp == "n":
            tw["n"] = rng.choice([x for x in ns if x != st.get("n")])
        else:
            tw["op"] = rng.choice([i for i in range(state["nops"]) if i != st["op"]])
        return tw

    if rng.random() < 0.5:
        # "nothing to do" shapes (already Hermitian, invariant under the reversal, ...): is the caller handed its own
        # operator back?  call, overwrite the result, call again
        probes = [{"do": "hc", "op": 0}, {"do": "reverse", "op": 0, "n": n}, {"do": "reverse", "op": 0, "n": None},
                  {"do": "sparse", "op": 0, "n": n}]
        for st in rng.sample(probes, 2):
            k = B.step(**st)
            B.step(do="poison", step=k)
            B.step(**st)
    last, last_i = None, None
    for _ in range(rng.randrange(5, 14 if big else 10)):
        r = rng.random()
        again = True
        if last is None or r >= 0.88:
            last = fresh()
            last_i = B.step(**last)
            again = False
        elif r >= 0.84:
            # chain: the operator a call returned is used as an operator itself
            src = {"do": rng.choice(["hc", "reverse"]), "op": rng.randrange(state["nops"])}
            if src["do"] == "reverse":
                src["n"] = rng.choice([None, n, n + 1])
            k = B.step(**src)
            no_poison.add(k)
            which = "hc" if src["do"] == "hc" else rng.choice(["once", "twice"])
            B.step(do="adopt", step=k, which=which)
            state["nops"] += 1
            last = fresh()
            last["op"] = state["nops"] - 1
            last_i = B.step(**last)
            again = False
            if rng.random() < 0.6:
                # the derived operator must not follow (or lead back to) its source: edit the source, ask again
                if src["op"] in editable:
                    cc, tt = _gen_coeff(rng, exact, "ladder" if rng.random() < 0.3 else None, state["lad"])
                    B.step(do="set_coeff", op=src["op"], term=0, c=cc, t=tt if tt in LADDER_ALL else "c")
                B.step(do="hc", op=state["nops"] - 1)
                B.step(do=src["do"], op=src["op"], **({"n": src["n"]} if "n" in src else {}))
                again = True
        elif r >= 0.80:
            # expectation(matrix, state) on the very matrix an earlier conversion returned
            j = rng.choice([0, 1, 2, 3])
            k = B.step(do="sparse", op=rng.randrange(state["nops"]), n=psi_n[j])
            no_poison.add(k)
            same = [x for x, w in enumerate(psi_n) if w == psi_n[j]]
            j2 = rng.choice([x for x in same if x != j] or [j])
            route = rng.choice(["vector", "column", "density"])  # one route, the state changed and changed back
            for x in (j, j2, j):
                B.step(do="expect_of", step=k, psi=x, route=route)
            B.step(do="expect_of", step=k, psi=j2, route=rng.choice(["vector", "column", "density"]))
            again = False
        elif r < 0.40:
            B.step(**twin(last))
            again = rng.random() < 0.6
        elif r < 0.54 and last["do"] != "expect" and last_i not in no_poison:
            B.step(do="poison", step=last_i)
        elif r < 0.64:
            i = rng.choice([last["op"], last["op"], rng.choice(editable)])
            i = i if i in editable else editable[0]
            # position in the operator's term list: only ops whose terms were never re-assigned are edited by position 0
            cc, tt = _gen_coeff(rng, exact, "ladder" if rng.random() < 0.35 else None, state["lad"])
            B.step(do="set_coeff", op=i, term=0, c=cc, t=tt if tt in LADDER_ALL else rng.choice(["c", "c", "f", "nc"]))
        elif r < 0.71:
            if last["do"] != "expect":                      # an evaluation before the edit, the same one after it
                last = {"do": "expect", "op": last["op"], "psi": rng.choice([0, 1, 3]), "rev": rng.random() < 0.5}
                B.step(**last)
            j = last["psi"]
            nzs = [i for i, a in enumerate(B.c["psis"][j]) if any(unrat(x) != 0 for x in a)]
            B.step(do="phase", psi=j, idx=rng.choice(nzs), u=rng.choice(["-1", "i", "-i"]))
        elif r < 0.76 and sums:
            i = last["op"] if last["op"] in sums else rng.choice(sums)
            pool = idx + spare
            k = rng.randrange(1, min(4, len(pool)) + 1)
            B.step(do="set_terms", op=i, terms=rng.sample(pool, k))
        elif r < 0.80:
            i = rng.choice([last["op"], rng.choice(editable)])
            i = i if i in editable else editable[0]
            new = _sibling_sum(rng, base, n) if rng.random() < 0.6 else (_gen_sum(rng, n, exact, ladder=state["lad"]) or copy.deepcopy(base))
            if not all(_narrow_ok(t["c"]) for t in new):
                state["lad"] = wide_only
            if B.c["ops"][i].get("as_term"):
                B.step(do="replace", op=i, sum=new[:1], as_term=True)
            else:
                B.step(do="replace", op=i, sum=new)
        if again:
            last_i = B.step(**last)
    for i in range(state["nops"]):                          # closing sweep: every operator still denotes what it says
        B.step(do="sparse", op=i, n=None)
    return B.case()


def _gen_matrix_session(rng, tier):
    big = tier == "thorough"
    n = rng.choice([1, 1, 2, 2, 3] if big else [1, 1, 2, 2])
    d = 2 ** n
    B = _Sess(True)
    style = rng.choice(MATRIX_STYLES)
    m0 = _gen_matrix(rng, n, True, style)
    forms = ["list", "ndarray", "rows"]
    B.mat(m0, rng.choice(forms))
    B.mat(copy.deepcopy(m0), rng.choice(forms))             # equal, not identical
    if rng.random() < 0.5:
        # the caller's matrices are single / extended precision complex arrays (or lists of such scalars); the edits k/8 fit
        for k in (0, 1):
            if rng.random() < 0.7 and "c64" in _matrix_tags(m0, ("c64",)):
                B.c["mats"][k]["dt"] = rng.choice(["c64", "c64", "clg"])
    m2 = copy.deepcopy(m0)
    i, j = rng.randrange(d), rng.randrange(d)
    m2[i][j] = [rat(unrat(m2[i][j][0]) + Fraction(1, 2)), rat(unrat(m2[i][j][1]) - Fraction(3, 8))]
    B.mat(m2, rng.choice(forms))                            # one entry different
    B.mat([[[rat(unrat(e[0])), rat(-unrat(e[1]))] for e in row] for row in m0], rng.choice(forms))  # conjugate
    B.mat(_gen_matrix(rng, rng.choice([x for x in (1, 2, 3) if x != n][:2]), True, rng.choice(MATRIX_STYLES)), rng.choice(forms))
    last = B.step(do="from_matrix", mat=0)
    for _ in range(rng.randrange(4, 9)):
        r = rng.random()
        if r < 0.35:
            B.step(do="from_matrix", mat=rng.randrange(1, 5))
        elif r < 0.55:
            B.step(do="poison", step=last)
        elif r < 0.85:
            B.step(do="set_mat", mat=0, i=rng.randrange(d), j=rng.randrange(d),
                   v=[rat(Fraction(rng.randrange(-16, 17), 8)), rat(Fraction(rng.randrange(-16, 17), 8))])
        last = B.step(do="from_matrix", mat=0)
    # "expanding ... and converting back reproduces the matrix" with the library's own conversion, and the other
    # operator APIs on the operator the expansion returned
    B.step(do="adopt", step=last, which="sum")
    B.step(do="sparse", op=0, n=n)
    B.step(do="sparse", op=0, n=rng.choice([None, n + 1]))
    B.step(do=rng.choice(["hc", "reverse"]), op=0, n=n)
    B.psi(_gen_psi(rng, n, "dyadic"))
    B.step(do="expect", op=0, psi=0, rev=rng.random() < 0.5)
    return B.case()


def _adversarial_pair(rng, n):
    """two qubit indices whose order in a Python set of ints is the reverse of their numeric order: b >= 8 lands in an
    earlier slot of the 8-slot table than a < 8 (Z1*Z8, Z3*Z9, ...)"""
    while True:
        b = rng.randrange(8, n)
        lows = [a for a in range(8) if a % 8 > b % 8]
        if lows:
            return rng.choice(lows), b


def _wide_terms(rng, n, maxterms=3, ladder=None):
    terms = []
    fl = "ladder" if rng.random() < 0.3 else None
    lad = tuple(t for t in (ladder or ()) if t not in LADDER_OBJ)
    if fl and any(t in LADDER_OBJ for t in (ladder or ())) and rng.random() < 0.35:
        lad = LADDER_OBJ                                     # one family of spellings per operator (see _gen_sum)
    ladder = lad
    for _ in range(rng.choice([1, 2, 2, 3][:maxterms + 1])):
        if n > 8 and rng.random() < 0.6:
            a, b = _adversarial_pair(rng, n)
            qs = [a, b] + ([rng.choice([q for q in range(n) if q not in (a, b)])] if rng.random() < 0.3 else [])
        else:
            qs = set()
            while len(qs) < rng.choice([1, 2, 2, 3]):
                qs.add(rng.randrange(n))
            qs = list(qs)
        rng.shuffle(qs)
        same = rng.random() < 0.4                            # Z1*Z8-like: the same letter on every qubit
        letter = rng.choice("XYZ")
        c, ty = _gen_coeff(rng, True, fl, ladder)
        terms.append({"ops": [[q, letter if same else rng.choice("XYYZ")] for q in qs], "c": c, "t": ty})
    if rng.random() < 0.3:
        terms.append({"ops": [], "c": ["3/8", "-1/4"], "t": "c"})
    return _fix_narrow(_fix_unsigned(terms))


def _gen_wide(rng, tier, api=None):
    """registers of 9-14 qubits (multi-digit indices, set order != numeric order); the matrices are handled as
    dictionaries of their non-zero entries"""
    big = tier == "thorough"
    n = rng.choice([9, 9, 10, 10, 11, 12, 13] + ([14] if big else []))
    api = api or rng.choice(["sparse", "reverse", "hc", "expect"])
    terms = _wide_terms(rng, n, ladder=LADDER_SPARSE if api in ("sparse", "expect") else LADDER_ALL)
    if api == "hc" and rng.random() < 0.7:
        terms = _dedupe_keys(terms)
        if rng.random() < 0.5:
            for t in terms:
                t["c"] = [t["c"][0] if unrat(t["c"][0]) != 0 else 1, 0]
    c = {"kind": "wide", "api": api, "sum": terms, "exact": True}
    if len(terms) == 1 and rng.random() < 0.5:
        c["as_term"] = True
    if api in ("sparse", "reverse"):
        c["n"] = rng.choice([None, n, n])
    if api == "expect":
        rev = rng.random() < 0.5
        p0 = rng.randrange(2 ** n)
        pos = [p0]
        for t in terms:
            flip = 0
            for q, p in t["ops"]:
                if p in "XY":
                    flip |= 1 << (q if rev else n - 1 - q)
            if p0 ^ flip not in pos and len(pos) < 4:
                pos.append(p0 ^ flip)
        amps = {1: [(1, 1)], 2: [(3, 5), (4, 5)], 3: [(2, 3), (2, 3), (1, 3)], 4: [(1, 2)] * 4}[len(pos)]
        units = [(1, 0), (-1, 0), (0, 1), (0, -1)]
        psi = []
        for p, (a, b) in zip(pos, amps):
            u = rng.choice(units)
            psi.append([p, [rat(Fraction(u[0] * a, b)), rat(Fraction(u[1] * a, b))]])
        c.update({"n": n, "psi": psi, "rev": rev, "exact": len(pos) in (1, 4)})
    return c


def _gen_huge(rng, tier):
    """registers far beyond what a matrix can hold (20 .. 100 qubits): the term-level functions; the property sentence is
    evaluated on sampled rows of the 2^n-dimensional matrices"""
    n = rng.choice([20, 33, 63, 64, 65, 100, 130, 257])
    api = rng.choice(["reverse", "hc"])
    terms = _wide_terms(rng, n, ladder=LADDER_ALL)
    if api == "hc" and rng.random() < 0.7:
        terms = _dedupe_keys(terms)
        if rng.random() < 0.5:
            for t in terms:
                t["c"] = [t["c"][0] if unrat(t["c"][0]) != 0 else 1, 0]
    c = {"kind": "huge", "api": api, "sum": terms, "exact": True, "rows": [rng.randrange(2 ** n) for _ in range(6)]}
    if len(terms) == 1 and api == "hc" and rng.random() < 0.5:
        c["as_term"] = True
    if api == "reverse":
        c["n"] = rng.choice([None, n, n])
    return c


def _T(ops, re=1, im=0, ty="c"):
    return {"ops": ops, "c": [re, im], "t": ty}


def _corpus_sessions():
    out = []
    # the same operator and state, the reversal flag flipped and flipped back (C09_r2m2)
    B = _Sess()
    B.sum([_T([[0, "X"]], 1, 0, "f"), _T([[1, "Z"]], 2, 0, "f")])
    B.psi([["1/2", 0], ["1/2", 0], [0, "1/2"], ["-1/2", 0]])
    for rev in (True, False, True):
        B.step(do="expect", op=0, psi=0, rev=rev)
    out.append(B.case())
    # sibling operators (one coefficient / one letter / PauliTerm vs sum of it) through every API
    B = _Sess()
    a = B.sum([_T([[0, "X"], [2, "Z"]], 1, 0, "f"), _T([[1, "Y"]], 0, "1/2")])
    b = B.sum([_T([[0, "X"], [2, "Z"]], 1, 0, "f"), _T([[1, "Y"]], 0, "-1/2")])
    c = B.sum([_T([[0, "X"], [2, "Y"]], 1, 0, "f"), _T([[1, "Y"]], 0, "1/2")])
    B.psi([["1/2", 0], [0, 0], [0, "1/2"], [0, 0], [0, 0], ["-1/2", 0], [0, 0], ["1/2", 0]])
    for api in ("sparse", "hc", "reverse", "expect"):
        for o in (a, b, c, a):
            st = {"do": api, "op": o}
            if api in ("sparse", "reverse"):
                st["n"] = 3
            if api == "expect":
                st.update(psi=0, rev=False)
            B.step(**st)
    out.append(B.case())
    # one operator, several states / widths, the coefficient edited in between
    B = _Sess()
    B.sum([_T([[1, "Y"], [0, "Z"]], "1/2", 1)])
    B.psi([["1/2", 0], [0, "1/2"], ["-1/2", 0], ["1/2", 0]])
    B.psi([[0, 0], [1, 0], [0, 0], [0, 0]])
    B.psi([[0, 0]] * 5 + [[0, 1]] + [[0, 0]] * 2)
    for j in (0, 1, 0, 2):
        B.step(do="expect", op=0, psi=j, rev=False)
    B.step(do="set_coeff", op=0, term=0, c=[2, "-1/2"], t="c")
    B.step(do="expect", op=0, psi=0, rev=False)
    B.step(do="phase", psi=0, idx=1, u="i")
    B.step(do="expect", op=0, psi=0, rev=False)
    out.append(B.case())
    # get_sparse_operator: widths interleaved, a rejected call, the returned matrix overwritten, the operator edited
    B = _Sess()
    B.sum([_T([[2, "X"], [0, "Y"]], 1, 2), _T([], "-3/2", 0, "f")])
    for nn in (3, 4, None, 2, 3):
        B.step(do="sparse", op=0, n=nn)
    B.step(do="poison", step=4)
    B.step(do="sparse", op=0, n=3)
    B.step(do="set_coeff", op=0, term=1, c=[0, 1], t="c")
    B.step(do="sparse", op=0, n=3)
    out.append(B.case())
    # hermitian_conjugated / is_hermitian: result overwritten, Hermiticity toggled by an edit, shared term objects
    B = _Sess()
    t0, t1 = B.term(_T([[0, "Z"]], 2, 0, "f")), B.term(_T([[1, "X"]], 1, 0, "f"))
    B.op([t0, t1])
    B.op([t0])
    B.op([t0], as_term=True)
    B.step(do="hc", op=0)
    B.step(do="poison", step=0)
    B.step(do="hc", op=0)
    B.step(do="hc", op=2)
    B.step(do="poison", step=3)
    B.step(do="set_coeff", op=0, term=0, c=[2, 1], t="c")
    for o in (0, 1, 2):
        B.step(do="hc", op=o)
    B.step(do="sparse", op=1, n=2)
    out.append(B.case())
    # reverse_qubit_order: widths interleaved on one object, result overwritten
    B = _Sess()
    B.sum([_T([[0, "X"]], 2, 0, "f"), _T([[2, "Z"]], 3, 0, "f")])
    for nn in (None, 4, 3, None):
        B.step(do="reverse", op=0, n=nn)
    B.step(do="poison", step=3)
    B.step(do="reverse", op=0, n=None)
    B.step(do="expect", op=0, psi=B.psi([[0, 0], ["1/2", 0], [0, 0], [0, "1/2"], ["1/2", 0], [0, 0], [0, 0], ["1/2", 0]]), rev=True)
    B.step(do="sparse", op=0, n=None)
    out.append(B.case())
    # unit coefficients, single strings: every result overwritten, then asked again from an equal operator
    B = _Sess()
    t = B.term(_T([[0, "X"], [1, "Z"]], 1, 0, "f"))
    B.op([t], as_term=True)
    B.op([t])
    B.sum([_T([[1, "Z"], [0, "X"]], 1, 0, "i")])
    for st in ({"do": "sparse", "n": 2}, {"do": "sparse", "n": None}, {"do": "hc"}, {"do": "reverse", "n": 2}):
        for o in (0, 1):
            k = B.step(op=o, **st)
            B.step(do="poison", step=k)
            B.step(op=2, **st)
            B.step(op=o, **st)
    out.append(B.case())
    # chains: the operator returned by one call is the argument of the next; expectation on a returned matrix
    B = _Sess()
    B.sum([_T([[0, "Y"], [1, "Z"]], 1, "1/2"), _T([[1, "X"]], 2, 0, "f")])
    B.psi([["1/2", 0], [0, "1/2"], ["-1/2", 0], ["1/2", 0]])
    B.step(do="hc", op=0)
    B.step(do="adopt", step=0, which="hc")
    B.step(do="hc", op=1)
    B.step(do="sparse", op=1, n=2)
    B.step(do="expect_of", step=3, psi=0, route="density")
    B.step(do="expect_of", step=3, psi=0, route="column")
    p1 = B.psi([[0, 0], ["1/2", 0], [0, "-1/2"], [0, 0]][:1] + [[0, 1], [0, 0], [0, 0]])
    for route in ("vector", "column", "density"):
        for x in (0, p1, 0):
            B.step(do="expect_of", step=3, psi=x, route=route)
    B.step(do="reverse", op=1, n=3)
    B.step(do="adopt", step=6, which="once")
    B.step(do="sparse", op=2, n=None)
    B.step(do="hc", op=2)
    B.step(do="expect", op=1, psi=0, rev=True)
    B.step(do="set_coeff", op=0, term=0, c=[3, "-1/4"], t="c")   # the source edited: derived operators must not follow
    B.step(do="hc", op=1)
    B.step(do="sparse", op=2, n=None)
    B.step(do="reverse", op=2, n=3)
    B.step(do="hc", op=0)
    out.append(B.case())
    # get_pauliop_from_matrix: the caller's matrix edited in place between calls, equal copies, conjugate
    B = _Sess()
    m = [[[1, 0], [0, 1]], [[2, "-1/2"], [3, 0]]]
    B.mat(copy.deepcopy(m), "ndarray")
    B.mat(copy.deepcopy(m), "list")
    B.step(do="from_matrix", mat=0)
    B.step(do="poison", step=0)
    B.step(do="from_matrix", mat=1)
    B.step(do="set_mat", mat=0, i=0, j=1, v=[0, -1])
    B.step(do="from_matrix", mat=0)
    B.step(do="from_matrix", mat=1)
    out.append(B.case())
    return out


def corpus():
    return [
        # F2 (fixed 67d2fe1): the empty sum is the zero operator
        {"kind": "sparse", "sum": [], "n": 2, "exact": True},
        {"kind": "sparse", "sum": [], "n": 0, "exact": True},
        # the COO assembly pairs column-major data with row-major positions: only right because of the symmetric pattern
        {"kind": "sparse", "sum": [{"ops": [[0, "Y"]], "c": [1, 0], "t": "f"}], "n": 1, "exact": True},
        {"kind": "sparse", "sum": [{"ops": [[2, "X"], [0, "Y"]], "c": [1, 2], "t": "c"}], "n": 4, "exact": True},
        {"kind": "sparse", "sum": [{"ops": [[1, "Y"]], "c": [0, "1/2"], "t": "c"}], "n": None, "as_term": True, "exact": True},
        {"kind": "sparse", "sum": [{"ops": [], "c": [3, 0], "t": "i"}], "n": 0, "exact": True},
        {"kind": "sparse", "sum": [{"ops": [], "c": ["-3/2", 1], "t": "c"}, {"ops": [[1, "Z"]], "c": [0, 0], "t": "f"}], "n": 3, "exact": True},
        {"kind": "sparse", "sum": [{"ops": [[1, "Z"]], "c": [1, 0], "t": "f"}], "n": 1, "exact": True},  # n < width
        {"kind": "hc", "sum": [{"ops": [[0, "X"]], "c": [0, 1], "t": "c"}, {"ops": [[0, "X"]], "c": [2, 0], "t": "f"}], "exact": True},
        {"kind": "hc", "sum": [{"ops": [[0, "Y"], [2, "Y"]], "c": ["1/2", 0], "t": "f"}, {"ops": [], "c": [1, 0], "t": "i"}], "exact": True},
        {"kind": "hc", "sum": [{"ops": [[1, "Y"]], "c": [1, 1], "t": "c"}], "as_term": True, "exact": True},
        {"kind": "hc", "sum": [{"ops": [], "c": [0, 1], "t": "c"}], "as_term": True, "exact": True},
        {"kind": "hc", "sum": [{"ops": [], "c": ["1/2", -2], "t": "c"}], "exact": True},
        {"kind": "from_matrix", "m": [[[1, 0], [0, 1]], [[2, 0], [3, 0]]], "exact": True},
        {"kind": "from_matrix", "m": [[[1, 0], [0, 1]], [[2, 0], [3, 0]]], "form": "ndarray", "exact": True},
        {"kind": "from_matrix", "m": [[[5, "-1/2"]]], "exact": True},
        {"kind": "from_matrix", "m": [[[0, 0]] * 3] * 3, "exact": True},
        {"kind": "from_matrix", "m": [[[0, 0]] * 4] * 2, "exact": True},
        {"kind": "reverse", "sum": [{"ops": [[0, "X"], [2, "Z"]], "c": [0, 1], "t": "c"}], "n": 4, "exact": True},
        {"kind": "reverse", "sum": [{"ops": [[0, "X"]], "c": [1, 0], "t": "f"}, {"ops": [[1, "Y"]], "c": [1, 0], "t": "f"}], "n": None, "exact": True},
        {"kind": "expect", "sum": [{"ops": [[0, "Y"]], "c": [1, 0], "t": "f"}], "psi": [[0, "1/2", 0, "-1/2"], [0, "1/2", 0, "1/2"]], "rev": False, "exact": False},
        {"kind": "expect", "sum": [{"ops": [[0, "Z"], [1, "X"]], "c": [1, 0], "t": "f"}], "psi": [["1/2", 0], ["1/2", 0], [0, "1/2"], [0, "-1/2"]], "rev": True, "exact": True},
        # Z-only operator with a complex coefficient and a constant (diagonal fast paths)
        {"kind": "expect", "sum": [{"ops": [[0, "Z"], [1, "Z"]], "c": [1, "1/2"], "t": "c"}, {"ops": [], "c": [0, 2], "t": "c"}],
         "psi": [["1/2", 0], ["1/2", 0], [0, "1/2"], [0, "-1/2"]], "rev": True, "exact": True},
        # multi-digit qubit indices
        {"kind": "wide", "api": "sparse", "sum": [{"ops": [[10, "Y"], [2, "X"]], "c": [1, "1/2"], "t": "c"}], "n": None, "exact": True},
        {"kind": "wide", "api": "reverse", "sum": [{"ops": [[10, "Y"], [2, "X"]], "c": [1, "1/2"], "t": "c"},
                                                   {"ops": [[9, "Z"]], "c": [2, 0], "t": "f"}], "n": 12, "exact": True},
        {"kind": "wide", "api": "expect", "sum": [{"ops": [[10, "Z"], [2, "X"]], "c": [1, 0], "t": "f"}], "n": 11,
         "psi": [[5, [0, "3/5"]], [5 ^ (1 << 8), ["4/5", 0]]], "rev": False, "exact": False},
        # set order of the qubit indices differs from numeric order (8 before 1, 9 before 3)
        {"kind": "wide", "api": "sparse", "sum": [{"ops": [[1, "Z"], [8, "Z"]], "c": [1, 0], "t": "f"}], "n": None, "as_term": True, "exact": True},
        {"kind": "wide", "api": "sparse", "sum": [{"ops": [[3, "X"], [9, "Y"]], "c": [0, "1/2"], "t": "c"}], "n": 10, "exact": True},
        {"kind": "wide", "api": "expect", "sum": [{"ops": [[1, "Z"], [8, "X"]], "c": [2, 0], "t": "f"}], "n": 9,
         "psi": [[3, ["1/2", 0]], [2, [0, "1/2"]], [131, ["1/2", 0]], [130, ["-1/2", 0]]], "rev": False, "exact": True},
        {"kind": "wide", "api": "reverse", "sum": [{"ops": [[1, "Y"], [8, "Z"]], "c": [1, 1], "t": "c"}], "n": None, "exact": True},
        {"kind": "wide", "api": "hc", "sum": [{"ops": [[3, "Y"], [9, "X"]], "c": [1, 1], "t": "c"}], "as_term": True, "exact": True},
        {"kind": "huge", "api": "reverse", "sum": [{"ops": [[1, "Y"], [64, "Z"]], "c": [1, 1], "t": "c"}, {"ops": [[70, "X"]], "c": [2, 0], "t": "f"}],
         "n": 100, "rows": [0, 1, 2 ** 64 + 5, 2 ** 99 + 2 ** 35 + 2 ** 29], "exact": True},
        {"kind": "huge", "api": "hc", "sum": [{"ops": [[1, "Y"], [64, "Z"]], "c": [1, 1], "t": "c"}], "rows": [0, 2 ** 63, 2 ** 64 + 1], "exact": True},
        # magnitudes: a tiny legitimate term next to a huge one; an imaginary part far below 1e-5 |real|
        {"kind": "sparse", "sum": [{"ops": [[0, "X"]], "c": [65536, 0], "t": "f"}, {"ops": [[1, "Z"]], "c": ["1/8388608", 0], "t": "f"}], "n": 2, "exact": True},
        {"kind": "expect", "sum": [{"ops": [[0, "Z"]], "c": [4, "1/1048576"], "t": "c"}], "psi": [["1/2", 0], ["1/2", 0], [0, "1/2"], [0, "-1/2"]], "rev": False, "exact": True},
        {"kind": "hc", "sum": [{"ops": [[0, "Z"]], "c": [4, "1/1048576"], "t": "c"}], "exact": True},
        {"kind": "from_matrix", "m": [[[1, 0], [2, 0]], [["2097153/1048576", 0], [3, 0]]], "exact": True},
        {"kind": "from_matrix", "m": [[[0, 1], [2, 1]], [[2, 1], [3, 0]]], "form": "tuple", "exact": True},
        {"kind": "from_matrix", "m": [[[0, 0]] * 4] * 4, "form": "ndarray", "exact": True},
        # explicit identity letters do not count for the width
        {"kind": "sparse", "sum": [{"ops": [[0, "Y"]], "c": [1, 1], "t": "c", "pad_I": [3]}], "n": None, "as_term": True, "exact": True},
        {"kind": "reverse", "sum": [{"ops": [[0, "Y"]], "c": [1, 1], "t": "c", "pad_I": [3]}, {"ops": [[1, "Z"]], "c": [2, 0], "t": "ni"}], "n": None, "exact": True},
        # the NUMBER TYPE of a coefficient / matrix entry / amplitude: complex-valued types that are not subclasses of `complex`
        # (numpy.complex64, seeded change C09_r8: conjugation skipped unless isinstance(coefficient, complex)), narrow reals, ints, exact objects
        {"kind": "hc", "sum": [{"ops": [[1, "Y"]], "c": [1, 2], "t": "c64"}], "as_term": True, "exact": True},
        {"kind": "hc", "sum": [{"ops": [[0, "Y"], [2, "X"]], "c": ["3/2", "1/4"], "t": "c64"}, {"ops": [[1, "Z"]], "c": ["-3/8", -1], "t": "sI"},
                               {"ops": [], "c": [2, 0], "t": "i8"}], "exact": True, "mdt": "c64"},
        {"kind": "expect", "sum": [{"ops": [[0, "Y"], [1, "X"]], "c": ["3/2", "1/2"], "t": "c64"}, {"ops": [[1, "Z"]], "c": ["-1/4", 0], "t": "f32"},
                                   {"ops": [], "c": [1, 0], "t": "nb"}],
         "psi": [["1/2", 0], [0, "1/2"], ["-1/2", 0], ["1/2", 0]], "rev": True, "exact": True, "psi_dt": "c64"},
        {"kind": "from_matrix", "m": [[[1, "1/2"], [2, 0]], [["1/2", -1], [-3, 0]]], "form": "ndarray", "dt": "c64", "exact": True},
    ] + _corpus_sessions()


def generate(rng, tier):
    big = tier == "thorough"
    cases = []
    maxw = 4 if big else 3

    # ---- get_sparse_operator
    for _ in range(1200 if big else 110):
        exact = rng.random() < 0.85
        w = rng.randrange(0, maxw + 1)
        s = _gen_sum(rng, w, exact, flavour=_pick_flavour(rng, exact), ladder=LADDER_SPARSE)
        width = _width(s)
        r = rng.random()
        if r < 0.12:
            n = None
        elif r < 0.2 and width > 0:
            n = width - 1  # malformed: ValueError
        else:
            n = width + rng.choice([0, 0, 1, 1, 2])
        c = {"kind": "sparse", "sum": s, "n": n, "exact": exact}
        if len(s) == 1 and rng.random() < 0.5:
            c["as_term"] = True
        if n is not None and rng.random() < 0.1:
            c["n_np"] = True                                   # the width given as a numpy integer
        cases.append(c)
    # exhaustive small scope: every single term on <= 2 (quick) / 3 (thorough) qubits at width..width+1
    lim = 3 if big else 2
    import itertools
    for letters in itertools.product("IXYZ", repeat=lim):
        ops = [[q, p] for q, p in enumerate(letters) if p != "I"]
        for extra in (0, 1):
            cases.append({"kind": "sparse", "sum": [{"ops": list(reversed(ops)), "c": ["1/2", "-3/8"], "t": ("c", "c64", "c", "clg")[(len(cases) + extra) % 4]}],
                          "n": _width([{"ops": ops}]) + extra, "exact": True})
    # a few registers of 6-7 qubits
    for _ in range(12 if big else 3):
        w = rng.choice([5, 6, 7])
        s = _gen_sum(rng, w, True, flavour=_pick_flavour(rng), ladder=LADDER_SPARSE) or [_gen_term(rng, w, True)]
        cases.append({"kind": "sparse", "sum": s[:4], "n": rng.choice([None, max(_width(s[:4]), 6), 7]), "exact": True})

    # ---- hermitian_conjugated / is_hermitian
    for _ in range(1200 if big else 110):
        exact = rng.random() < 0.85
        herm = rng.random() < 0.4
        s = _gen_sum(rng, rng.randrange(0, maxw + 1), exact, hermitian=herm, flavour=_pick_flavour(rng, exact), ladder=LADDER_ALL)
        if rng.random() < 0.6:
            s = _dedupe_keys(s)
        c = {"kind": "hc", "sum": s, "exact": exact}
        if len(s) == 1 and rng.random() < 0.5:
            c["as_term"] = True
        if exact and rng.random() < 0.5:
            # the operator's own matrix also as an array / sparse matrix of a ladder dtype (where that dtype carries it exactly)
            c["mdt"] = rng.choice(LADDER_HC_MATRIX)
        cases.append(c)

    # ---- get_pauliop_from_matrix
    for _ in range(500 if big else 60):
        exact = rng.random() < 0.85
        n = rng.choice([0, 1, 1, 2, 2, 2, 2, 3, 3, 1, 2, 3, 1, 2])
        style = rng.choice(MATRIX_STYLES)
        if style in ("scaled", "span", "nearsym", "nearherm", "nearreal"):
            exact = True
        if style == "span":
            n = min(n, 2)
        c = {"kind": "from_matrix", "m": _gen_matrix(rng, n, exact, style), "exact": exact,
             "form": rng.choice(["list", "list", "ndarray", "rows", "tuple"])}
        if exact and rng.random() < 0.45:
            tags = _matrix_tags(c["m"])
            if tags:
                c["dt"] = rng.choice(tags)
        cases.append(c)
    for _ in range(8 if big else 2):
        cases.append({"kind": "from_matrix", "m": _gen_matrix(rng, 4, True, rng.choice(["dense", "sparse", "hermitian", "pauli"])),
                      "exact": True, "form": rng.choice(["list", "ndarray"]), "dt": rng.choice([None, "c64", "clg"])})
    if big:
        cases.append({"kind": "from_matrix", "m": _gen_matrix(rng, 5, True, "sparse"), "exact": True, "form": "ndarray"})
    for _ in range(150 if big else 12):
        # matrices of known Pauli sums (few non-zero components)
        n = rng.choice([1, 2, 3])
        s = _dedupe_keys(_gen_sum(rng, n, True))
        a = _ref_matrix(s, n)
        c = {"kind": "from_matrix", "m": [[_cz(x) for x in row] for row in a], "exact": True, "form": rng.choice(["list", "ndarray", "rows"])}
        tags = _matrix_tags(c["m"])
        if tags and rng.random() < 0.5:
            c["dt"] = rng.choice(tags)
        cases.append(c)
    for shape in ([(2, 4), (4, 2), (3, 3), (6, 6), (1, 2), (5, 5), (2, 3)] if big else [(2, 4), (3, 3), (6, 6), (4, 2)]):
        cases.append({"kind": "from_matrix", "m": [[[rng.randrange(-2, 3), 0] for _ in range(shape[1])] for _ in range(shape[0])],
                      "exact": True})

    # ---- reverse_qubit_order
    for _ in range(1000 if big else 90):
        exact = rng.random() < 0.85
        s = _gen_sum(rng, rng.randrange(0, maxw + 1), exact, flavour=_pick_flavour(rng, exact), ladder=LADDER_ALL)
        if rng.random() < 0.5:
            s = _dedupe_keys(s)
        width = _width(s)
        r = rng.random()
        if r < 0.15:
            n = None
        elif r < 0.22 and width > 0:
            n = width - 1
        else:
            n = width + rng.choice([0, 0, 1, 2])
        c = {"kind": "reverse", "sum": s, "n": n, "exact": exact}
        if n is not None and rng.random() < 0.1:
            c["n_np"] = True
        if len(s) == 1 and rng.random() < 0.3:
            c["as_term"] = True
        cases.append(c)

    # ---- get_expectation_value / expectation
    for _ in range(1000 if big else 100):
        n = rng.randrange(0, (5 if big else 4) + 1)
        mode = rng.choice(["dyadic", "dyadic", "dyadic", "pyth", "sqrt2", "real", "uniform", "basis"])
        exact = (mode in ("dyadic", "real", "basis") or (mode == "uniform" and n % 2 == 0)) and rng.random() < 0.9
        malformed = rng.random() < 0.07
        s = _gen_sum(rng, min(n + (1 if malformed else 0), maxw + 1), exact, flavour=_pick_flavour(rng, exact), ladder=LADDER_SPARSE)
        c = {"kind": "expect", "sum": s, "psi": _gen_psi(rng, n, mode), "rev": rng.random() < 0.5, "exact": exact}
        if len(s) == 1 and rng.random() < 0.3:
            c["as_term"] = True
        if mode in ("dyadic", "real", "basis", "uniform") and rng.random() < 0.4:
            # the state as an array of a ladder dtype (Wavefunction(...) and expectation(matrix, state)); honoured where it fits
            c["psi_dt"] = rng.choice(LADDER_STATE if mode != "dyadic" else ("c64", "c64", "clg", "list"))
        cases.append(c)
    for _ in range(12 if big else 3):
        n = rng.choice([6, 7])
        s = _gen_sum(rng, n, True, flavour=_pick_flavour(rng), ladder=LADDER_SPARSE) or [_gen_term(rng, n, True)]
        cases.append({"kind": "expect", "sum": s[:4], "psi": _gen_psi(rng, n, "dyadic"), "rev": rng.random() < 0.5, "exact": True,
                      "psi_dt": rng.choice([None, "c64", "clg"])})

    # ---- histories on long-lived objects
    for _ in range(700 if big else 90):
        cases.append(_gen_session(rng, tier))
    for _ in range(150 if big else 16):
        cases.append(_gen_matrix_session(rng, tier))

    # ---- wide registers (multi-digit qubit indices, set order != numeric order), every API
    for api in ("sparse", "reverse", "hc", "expect"):
        for _ in range(20 if big else 6):
            cases.append(_gen_wide(rng, tier, api))
    for _ in range(60 if big else 12):
        cases.append(_gen_huge(rng, tier))

    # ---- long sums (>= 64 terms)
    for kind in ("sparse", "hc", "reverse", "expect"):
        for _ in range(5 if big else 1):
            w = rng.choice([2, 3, 4])
            s = _gen_sum(rng, w, True, flavour="long", ladder=LADDER_SPARSE if kind in ("sparse", "expect") else LADDER_ALL) or [_gen_term(rng, w, True)]
            c = {"kind": kind, "sum": s, "exact": True}
            if kind in ("sparse", "reverse"):
                c["n"] = rng.choice([None, w, w + 1])
            if kind == "expect":
                c.update(psi=_gen_psi(rng, w, "dyadic"), rev=rng.random() < 0.5)
            cases.append(c)

    # ---- term-count ladder: the property has no bound on the number of terms, so the sizes cross the round numbers where a
    # chunked / buffered / batched accumulation would sit (powers of two and of ten, each with its neighbours)
    ladder = [64, 100, 128, 256, 512, 1000, 1024] + ([2048, 4096, 3072] if big else [])
    sizes = ladder + [x + d for x in rng.sample(ladder, 4 if big else 2) for d in (-1, 1)]
    for nt in sizes:
        w = rng.choice([2, 3])
        s = _gen_sum(rng, w, True, flavour="long", nt=nt, ladder=LADDER_SPARSE)
        kind = "sparse" if nt in ladder else rng.choice(["sparse", "expect", "reverse", "hc"])
        c = {"kind": kind, "sum": s, "exact": True}
        if kind in ("sparse", "reverse"):
            c["n"] = rng.choice([None, w, w + 1])
        if kind == "expect":
            c.update(psi=_gen_psi(rng, w, "dyadic"), rev=rng.random() < 0.5)
        cases.append(c)
    # the Pauli expansion of a generic 2^n x 2^n matrix has 4^n terms: n = 5 is the first register whose expansion reaches 1024
    # (5 - 16 s in the library alone, depending on the machine's load: one such matrix per quick run, of a cheap style)
    cases.append({"kind": "from_matrix", "m": _gen_matrix(rng, 5, True, "dense" if big else rng.choice(["sparse", "int", "dense"])),
                  "exact": True, "form": "ndarray"})

    # ---- dec2bin / bin2dec
    for _ in range(60 if big else 20):
        length = rng.randrange(0, 9)
        cases.append({"kind": "bits", "number": rng.randrange(0, 2 ** length), "length": length})
    return cases


def nontrivial(c):
    k = c["kind"]
    if k == "from_matrix":
        m = c["m"]
        return len(m) >= 4 and len(m) == len(m[0]) and any(m[i][j] != m[j][i] for i in range(len(m)) for j in range(i))
    if k == "bits":
        return False
    if k == "session":
        return sum(1 for st in c["steps"] if st["do"] in SINGLE_KINDS) >= 2
    if k in ("wide", "huge"):
        return True
    s = c["sum"]
    width = _width(s)
    if k == "expect":
        n = len(c["psi"]).bit_length() - 1
    elif k == "hc":
        n = width
    else:
        n = width if c.get("n") is None else c["n"]
    if n < width:
        return False

    def gapped_y(t):
        qs = sorted(q for q, _ in t["ops"])
        return any(p == "Y" for _, p in t["ops"]) and qs != list(range(len(qs)))

    return n > width or any(gapped_y(t) for t in s)


# --------------------------------------------------------------------------- implementation
def _do_sparse(op, n):
    gso = _mods()[2]
    try:
        m = gso(op) if n is None else gso(op, n)
    except ValueError as e:
        return {"err": "err:value", "msg": str(e)[:100]}, None
    a = m.toarray()
    return {"shape": list(a.shape), "m": [[_cz(x) for x in row] for row in a]}, m


def _do_hc(op, as_term):
    PauliSum, PauliTerm, _, hconj, isherm, _, _ = _mods()
    import warnings
    h = hconj(op)
    out = {"types": sorted({_tclass(t.coefficient) for t in op.terms})}
    try:
        with warnings.catch_warnings():
            warnings.simplefilter("ignore", RuntimeWarning)     # float16 * 1e6 overflows inside PauliTerm.__hash__
            out["herm"] = bool(isherm(op))
    except (TypeError, OverflowError) as e:
        # judged by the oracle: only admissible for the coefficient classes on which the library's `==` is undefined
        out["herm"], out["herm_exc"] = None, f"{type(e).__name__}: {str(e)[:100]}"
    if as_term:
        out.update({"hc": [_canon_term(h)], "is_term": isinstance(h, PauliTerm)})
    else:
        out.update({"hc": _canon_sum(h), "is_sum": isinstance(h, PauliSum)})
    return out, h


def _herm_unjudged(c, out):
    """is_hermitian raised, and some coefficient of the operator is of a class on which the unchanged library's `==` of operators
    raises (HERM_UNDEFINED_*, see ASSUMPTIONS): no verdict on the Hermiticity test.  Any other raise is reported."""
    if out.get("herm") is not None:
        return False
    bad = HERM_UNDEFINED_TERM if c.get("as_term") else HERM_UNDEFINED_SUM
    return any(t in bad for t in out.get("types", []))


def _do_from_matrix(rows):
    U = _mods()[5]
    try:
        op = U.get_pauliop_from_matrix(rows)
    except IndexError:
        return {"err": "err:index"}, None
    except Exception as e:
        if type(e) is Exception:  # the code raises bare Exception for bad shapes
            return {"err": "err:exception", "msg": str(e)[:100]}, None
        raise
    return {"sum": _canon_sum(op)}, op


def _do_reverse(op, n_arg):
    PauliSum, _, _, _, _, U, _ = _mods()
    try:
        r1 = U.reverse_qubit_order(op) if n_arg is None else U.reverse_qubit_order(op, n_arg)
    except ValueError as e:
        return {"err": "err:value", "msg": str(e)[:100]}, None
    n = op.n_qubits if n_arg is None else n_arg
    r2 = U.reverse_qubit_order(r1, n)
    return {"once": _canon_sum(r1), "twice": _canon_sum(r2), "n": n, "is_sum": isinstance(r1, PauliSum)}, (r1, r2)


def _do_expect(op, wf, rev):
    U = _mods()[5]
    try:
        v = U.get_expectation_value(op, wf, rev)
    except ValueError as e:
        return {"err": "err:value", "msg": str(e)[:100]}, None
    return {"v": _cz(v), "vf": [complex(v).real, complex(v).imag]}, v


def _expect_alts(op, psi, rev, n, rho=True):
    """the other routes to the same number: expectation(matrix, state) for a vector, a column vector and a density matrix"""
    import numpy as np
    import scipy.sparse
    import scipy.sparse.linalg
    from orquestra.quantum.operators._openfermion_utils.sparse_tools import expectation
    _, _, gso, _, _, U, _ = _mods()
    alts = {}

    def rec(name, f):
        try:
            v = f()
            alts[name] = {"v": _cz(v), "vf": [complex(v).real, complex(v).imag]}
        except Exception as e:
            alts[name] = {"exc": type(e).__name__, "msg": str(e)[:100]}

    o = U.reverse_qubit_order(op, n) if rev else op
    m = gso(o, n)
    rec("direct", lambda: expectation(m, psi.copy()))
    rec("column", lambda: expectation(m, psi.copy().reshape(-1, 1)))
    rec("linop", lambda: expectation(scipy.sparse.linalg.aslinearoperator(m), psi.copy()))
    if rho:
        rec("density", lambda: expectation(m, scipy.sparse.csc_matrix(np.outer(psi, np.conj(psi)))))
        rec("density_csr", lambda: expectation(m, scipy.sparse.csr_matrix(np.outer(psi, np.conj(psi)))))
    return alts


def _expect_route(m, psi, route):
    import numpy as np
    import scipy.sparse
    from orquestra.quantum.operators._openfermion_utils.sparse_tools import expectation
    if route == "column":
        v = expectation(m, psi.copy().reshape(-1, 1))
    elif route == "density":
        v = expectation(m, scipy.sparse.csc_matrix(np.outer(psi, np.conj(psi))))
    else:
        v = expectation(m, psi.copy())
    return {"v": _cz(v), "vf": [complex(v).real, complex(v).imag]}


def _poison(r):
    """overwrite, in place, an object a call returned (the caller owns it)"""
    PauliSum, PauliTerm = _mods()[:2]
    if r is None:
        return
    if isinstance(r, tuple):
        for x in r:
            _poison(x)
        return
    if hasattr(r, "toarray") and hasattr(r, "data"):
        if r.data.size:
            r.data[...] = r.data * (-3) + 1
        return
    if isinstance(r, PauliTerm):
        r.coefficient = r.coefficient * 2 + 5
        return
    if isinstance(r, PauliSum):
        for t in list(r.terms):
            t.coefficient = t.coefficient * 2 + 5
        if isinstance(r.terms, list):
            r.terms.append(PauliTerm({0: "X"}, 7.0))


def _run_session(c):
    import numpy as np
    PauliSum, PauliTerm, _, _, _, _, Wavefunction = _mods()
    terms = [_term(t) for t in c["pool"]]
    as_term = [bool(o.get("as_term")) for o in c["ops"]]
    ops = [terms[o["terms"][0]] if o.get("as_term") else PauliSum([terms[k] for k in o["terms"]]) for o in c["ops"]]
    wfs = [Wavefunction(np.array(_psi_complex(p), dtype=complex)) for p in c.get("psis", [])]
    mats = [_build_matrix(m["m"], m.get("form", "list"), mutable=True, dt=m.get("dt")) for m in c.get("mats", [])]
    outs, results = [], []
    for st in c["steps"]:
        do = st["do"]
        out, res = {"ok": True}, None
        try:
            if do in ("sparse", "hc", "reverse", "expect"):
                op = ops[st["op"]]
                seen = _canon_sum(op)
                if do == "sparse":
                    out, res = _do_sparse(op, st.get("n"))
                elif do == "hc":
                    out, res = _do_hc(op, as_term[st["op"]])
                elif do == "reverse":
                    out, res = _do_reverse(op, st.get("n"))
                else:
                    out, res = _do_expect(op, wfs[st["psi"]], st["rev"])
                out["seen"] = seen
            elif do == "from_matrix":
                out, res = _do_from_matrix(mats[st["mat"]])
            elif do == "set_coeff":
                ops[st["op"]].terms[st["term"]].coefficient = _coef(st)
            elif do == "set_terms":
                ops[st["op"]].terms = [terms[k] for k in st["terms"]]
            elif do == "replace":
                ops[st["op"]] = None
                as_term[st["op"]] = bool(st.get("as_term"))
                ops[st["op"]] = _op({"sum": st["sum"], "as_term": st.get("as_term")})
            elif do == "phase":
                wf = wfs[st["psi"]]
                wf[st["idx"]] = wf[st["idx"]] * _UNITS[st["u"]]
            elif do == "set_mat":
                m = mats[st["mat"]]
                v = _entry_scalar(st["v"])
                if isinstance(m, np.ndarray):
                    m[st["i"], st["j"]] = v
                else:
                    m[st["i"]][st["j"]] = v
            elif do == "poison":
                _poison(results[st["step"]])
            elif do == "adopt":
                r = results[st["step"]]
                r = {"once": lambda: r[0], "twice": lambda: r[1]}.get(st["which"], lambda: r)()
                if not isinstance(r, (PauliSum, PauliTerm)):
                    raise TypeError("nothing to adopt")
                ops.append(r)
                as_term.append(isinstance(r, PauliTerm))
            elif do == "expect_of":
                m = results[st["step"]]
                if m is None:
                    out = {"err": "err:value"}
                else:
                    try:
                        amps = np.array(wfs[st["psi"]].amplitudes, dtype=complex)
                        typed = _typed_array(amps, c["amp_dt"]) if c.get("amp_dt") else None
                        out = _expect_route(m, amps if typed is None else typed, st["route"])
                    except ValueError as e:
                        out = {"err": "err:value", "msg": str(e)[:100]}
            else:
                raise AssertionError("unknown step " + do)
        except Exception as e:
            if type(e).__name__ == "Timeout":
                raise
            out, res = {"exc": type(e).__name__, "msg": str(e)[:200]}, None
        outs.append(out)
        results.append(res)
    return {"steps": outs}


def _run_wide(c):
    import numpy as np
    Wavefunction = _mods()[6]
    op = _op(c)
    api = c["api"]
    if api == "sparse":
        gso = _mods()[2]
        m = (gso(op) if c.get("n") is None else gso(op, c["n"])).tocoo()
        ent = sorted([int(r), int(col), _cz(v)[0], _cz(v)[1]] for r, col, v in zip(m.row, m.col, m.data) if v != 0)
        return {"shape": list(m.shape), "entries": ent}
    if api == "reverse":
        return _do_reverse(op, c.get("n"))[0]
    if api == "hc":
        return _do_hc(op, bool(c.get("as_term")))[0]
    n = c["n"]
    psi = np.zeros(2 ** n, dtype=complex)
    for p, a in c["psi"]:
        psi[p] = _amp_complex(a)
    out = _do_expect(op, Wavefunction(psi.copy()), c["rev"])[0]
    if "v" in out:
        out["alts"] = _expect_alts(_op(c), psi, c["rev"], n, rho=False)
    return out


def _n_arg(c):
    if c.get("n") is not None and c.get("n_np"):
        import numpy as np
        return np.int64(c["n"])
    return c.get("n")


def run_impl(c):
    import numpy as np
    PauliSum, PauliTerm, gso, hconj, isherm, U, Wavefunction = _mods()
    k = c["kind"]
    if k == "session":
        return _run_session(c)
    if k == "wide":
        return _run_wide(c)
    if k == "huge":
        if c["api"] == "reverse":
            return _do_reverse(_op(c), c.get("n"))[0]
        return _do_hc(_op(c), bool(c.get("as_term")))[0]
    if k == "sparse":
        return _do_sparse(_op(c), _n_arg(c))[0]
    if k == "hc":
        out = _do_hc(_op(c), bool(c.get("as_term")))[0]
        w = _width(c["sum"])
        if w <= 3:
            # the same two functions on the operator's matrix (built from the definition), dense and sparse
            import scipy.sparse
            a = _ref_matrix(c["sum"], w)
            mats = {}
            variants = [("dense", a.copy()), ("sparse", scipy.sparse.csc_matrix(a))]
            ta = _typed_array(a, c["mdt"]) if c.get("mdt") else None
            if ta is not None:
                # (not generated: dense float16 -- FINDING is-hermitian-float16-matrix; dense bool -- numpy refuses `-` on booleans,
                #  a TypeError; sparse float16 -- scipy.sparse rejects the dtype, a ValueError)
                if c["mdt"] != "nb":
                    variants.append(("dense " + _NP_NAMES[c["mdt"]], ta.copy()))
                variants.append(("sparse " + _NP_NAMES[c["mdt"]], scipy.sparse.csc_matrix(ta)))
            for name, m in variants:
                try:
                    h = hconj(m)
                    h = h.toarray() if hasattr(h, "toarray") else np.asarray(h)
                    mats[name] = {"hc": [[_cz(x) for x in row] for row in h], "herm": bool(isherm(m))}
                except Exception as e:
                    mats[name] = {"exc": type(e).__name__, "msg": str(e)[:100]}
            out["mats"] = mats
        return out
    if k == "from_matrix":
        return _do_from_matrix(_build_matrix(c["m"], c.get("form", "list"), dt=c.get("dt")))[0]
    if k == "reverse":
        return _do_reverse(_op(c), _n_arg(c))[0]
    if k == "expect":
        psi = np.array(_psi_complex(c["psi"]), dtype=complex)
        dt = c.get("psi_dt")
        typed = _typed_array(psi, dt) if dt not in (None, "list") else None
        state = psi if typed is None else typed                # the caller's state as an array of the ladder dtype, where it fits
        wf = Wavefunction([complex(x) for x in psi] if dt == "list" else state.copy())
        op = _op(c)
        out = _do_expect(op, wf, c["rev"])[0]
        if "v" in out:
            n = len(c["psi"]).bit_length() - 1
            # a fresh operator: no shared history; (scipy.sparse has no float16: no density matrix of that dtype)
            out["alts"] = _expect_alts(_op(c), state, c["rev"], n, rho=n <= 6 and state.dtype.name != "float16")
        out["psi_dtype"] = "list" if dt == "list" else state.dtype.name
        return out
    if k == "bits":
        from orquestra.quantum.utils import bin2dec, dec2bin
        bits = dec2bin(c["number"], c["length"])
        return {"bits": [int(b) for b in bits], "back": int(bin2dec(bits))}
    raise AssertionError("unknown kind")


# --------------------------------------------------------------------------- the harness's book-keeping of a session
STOP = "stop"


def _replay(c, out=None):
    """For each step the equivalent single call on the CURRENT value of the objects (None for steps that only edit an
    object).  Term objects shared between operators are shared cells here, exactly as the real objects are built.
    An adopted operator (the object a call returned) is booked with the value that call reported (which the oracle has
    checked at that step).  The list ends with STOP where the book-keeping cannot go on."""
    outs = (out or {}).get("steps", [])
    exact = c.get("exact", True)
    cells = [copy.deepcopy(t) for t in c["pool"]]
    ops = [{"cells": [cells[k] for k in o["terms"]], "as_term": bool(o.get("as_term"))} for o in c["ops"]]
    psis = [copy.deepcopy(p) for p in c.get("psis", [])]
    mats = [{"m": copy.deepcopy(m["m"]), "form": m.get("form", "list")} for m in c.get("mats", [])]
    res, eqs_by_step = [], {}
    for st in c["steps"]:
        do, eq = st["do"], None
        if do in ("sparse", "hc", "reverse", "expect"):
            o = ops[st["op"]]
            eq = {"kind": do, "sum": copy.deepcopy(o["cells"]), "exact": exact}
            if o["as_term"]:
                eq["as_term"] = True
            if do in ("sparse", "reverse"):
                eq["n"] = st.get("n")
            if do == "expect":
                eq["psi"] = copy.deepcopy(psis[st["psi"]])
                eq["rev"] = st["rev"]
        elif do == "from_matrix":
            eq = {"kind": "from_matrix", "m": copy.deepcopy(mats[st["mat"]]["m"]), "form": mats[st["mat"]]["form"], "exact": exact}
        elif do == "set_coeff":
            cell = ops[st["op"]]["cells"][st["term"]]
            cell["c"], cell["t"] = list(st["c"]), st.get("t", "c")
        elif do == "set_terms":
            ops[st["op"]]["cells"] = [cells[k] for k in st["terms"]]
        elif do == "replace":
            ops[st["op"]] = {"cells": [copy.deepcopy(t) for t in st["sum"]], "as_term": bool(st.get("as_term"))}
        elif do == "phase":
            psis[st["psi"]][st["idx"]] = _phase(psis[st["psi"]][st["idx"]], st["u"])
        elif do == "set_mat":
            mats[st["mat"]]["m"][st["i"]][st["j"]] = list(st["v"])
        elif do == "adopt":
            src = outs[st["step"]] if st["step"] < len(outs) else {}
            got = src.get(st["which"])
            if not isinstance(got, list) or "exc" in (outs[len(res)] if len(res) < len(outs) else {"exc": 1}):
                res.append(STOP)
                return res
            ops.append({"cells": [{"ops": t["ops"], "c": list(t["c"]), "t": "c"} for t in got], "as_term": bool(src.get("is_term"))})
        elif do == "expect_of":
            src = eqs_by_step.get(st["step"])
            if src is not None:
                w = _width(src["sum"])
                eq = {"kind": "expect_of", "sum": src["sum"], "n": w if src.get("n") is None else src["n"],
                      "psi": copy.deepcopy(psis[st["psi"]]), "route": st["route"], "exact": exact}
        eqs_by_step[len(res)] = eq
        res.append(eq)
    return res


def _describe(st):
    d = {k: v for k, v in st.items() if k != "do"}
    return st["do"] + "(" + ", ".join(f"{k}={v}" for k, v in d.items() if k not in ("sum", "c", "v", "t")) + ")"


# --------------------------------------------------------------------------- model
def _jsum(s):
    return [{"ops": t["ops"], "c": t["c"]} for t in s]


def _requests_single(c):
    k = c["kind"]
    if k == "sparse":
        p = {"sum": _jsum(c["sum"])}
        if c.get("n") is not None:
            p["n"] = c["n"]
        return [("sparse", p)]
    if k == "hc":
        if c.get("as_term"):
            return [("hc_term", {"term": _jsum(c["sum"])[0]})]
        return [("hc", {"sum": _jsum(c["sum"])})]
    if k == "from_matrix":
        return [("from_matrix", {"m": c["m"]})]
    if k == "reverse":
        n = _width(c["sum"]) if c.get("n") is None else c["n"]
        return [("reverse", {"sum": _jsum(c["sum"]), "n": n})]
    if k == "expect":
        return [("expect", {"sum": _jsum(c["sum"]), "psi": c["psi"], "rev": c["rev"]})]
    if k == "expect_of":
        return [("expect", {"sum": _jsum(c["sum"]), "psi": c["psi"], "rev": False})]
    if k == "bits":
        return [("bits", {"number": c["number"], "length": c["length"]})]
    return []


def requests(c, out):
    k = c["kind"]
    if k == "session":
        # the model is a function of the arguments only: every call of the history is answered from the current value
        rs = []
        for eq in _replay(c, out):
            if eq == STOP:
                break
            if eq is not None:
                rs += _requests_single(eq)
        return rs
    if k in ("wide", "huge"):
        # term-level functions are answered by the model; the 2^9..2^14-dimensional matrices are left to the oracle
        if c["api"] in ("reverse", "hc"):
            return _requests_single({"kind": c["api"], "sum": c["sum"], "n": c.get("n"), "as_term": c.get("as_term")})
        return []
    return _requests_single(c)


def _cyc_pair(x):
    """model scalar [a,b,c,d] -> exact (re, im) if Gaussian, else None"""
    a, b, cc, d = [unrat(v) for v in x]
    if b == 0 and d == 0:
        return a, cc
    return None


def _scal_eq(model, impl, exact):
    """model: Cyc8 4-list; impl: [re, im] exact rationals of the doubles"""
    ir, ii = unrat(impl[0]), unrat(impl[1])
    g = _cyc_pair(model)
    if exact:
        return g is not None and g == (ir, ii)
    z = common.cyc_to_complex(model)
    return abs(z - complex(float(ir), float(ii))) <= TOL * max(1.0, abs(z))


def _sum_eq(model, impl, exact):
    if not isinstance(model, list) or len(model) != len(impl):
        return False
    for a, b in zip(model, impl):
        if a["ops"] != b["ops"] or not _scal_eq(a["c"], b["c"], exact):
            return False
    return True


def _compare_single(c, out, resp):
    r = resp[0]
    if isinstance(r, dict) and "driver_error" in r:
        return "driver error: " + r["driver_error"]
    k = c["kind"]
    exact = c.get("exact", True)
    if "exc" in out:
        return f"{k}: implementation raised {out['exc']}: {out.get('msg')}; model {str(r)[:200]}"
    if k == "sparse":
        if isinstance(r, str) or "err" in out:
            return None if out.get("err") == r else f"get_sparse_operator: impl {out.get('err', 'matrix')} model {str(r)[:80]}"
        m = out["m"]
        if len(r) != len(m) or any(len(a) != len(b) for a, b in zip(r, m)):
            return f"get_sparse_operator: shape impl {out['shape']} model {len(r)}"
        for i, (ra, rb) in enumerate(zip(r, m)):
            for j, (x, y) in enumerate(zip(ra, rb)):
                if not _scal_eq(x, y, exact):
                    return f"get_sparse_operator: entry ({i},{j}) impl {y} model {x}"
    elif k == "hc":
        mh = [r["hc"]] if c.get("as_term") else r["hc"]
        if not _sum_eq(mh, out["hc"], exact):
            return f"hermitian_conjugated: impl {out['hc']} model {mh}"
        if out["herm"] is None:
            if not _herm_unjudged(c, out):
                return f"is_hermitian: implementation raised {out.get('herm_exc')}; model {r['herm']}"
        elif bool(r["herm"]) != out["herm"] and not _herm_ambiguous(c["sum"]):
            return f"is_hermitian: impl {out['herm']} model {r['herm']}"
    elif k == "from_matrix":
        if isinstance(r, str) or "err" in out:
            return None if out.get("err") == r else f"get_pauliop_from_matrix: impl {out.get('err', 'sum')} model {str(r)[:80]}"
        if not _sum_eq(r, out["sum"], exact):
            return f"get_pauliop_from_matrix: impl {out['sum']} model {r}"
    elif k == "reverse":
        if isinstance(r["once"], str) or "err" in out:
            return None if out.get("err") == r["once"] else f"reverse_qubit_order: impl {out.get('err', 'sum')} model {str(r['once'])[:80]}"
        if not _sum_eq(r["once"], out["once"], exact):
            return f"reverse_qubit_order: impl {out['once']} model {r['once']}"
        if not _sum_eq(r["twice"], out["twice"], exact):
            return f"reverse_qubit_order twice: impl {out['twice']} model {r['twice']}"
    elif k in ("expect", "expect_of"):
        if isinstance(r, str) or "err" in out:
            return None if out.get("err") == r else f"get_expectation_value: impl {out.get('err', out.get('vf'))} model {str(r)[:80]}"
        if not _scal_eq(r, out["v"], exact):
            return f"get_expectation_value: impl {out['vf']} model {r}"
        for name, alt in sorted(out.get("alts", {}).items()):
            if "v" not in alt:
                return f"expectation ({name} state): implementation raised {alt}; model {r}"
            if not _scal_eq(r, alt["v"], exact):
                return f"expectation ({name} state): impl {alt['vf']} model {r}"
    elif k == "bits":
        if out["bits"] != r["bits"] or [out["back"]] != r["back"]:
            return f"dec2bin/bin2dec: impl {out} model {r}"
    return None


def compare(c, out, resp):
    k = c["kind"]
    if k == "session":
        if "steps" not in out:
            return f"session: implementation raised {out}"
        it = iter(resp)
        for i, (st, eq, o) in enumerate(zip(c["steps"], _replay(c, out), out["steps"])):
            if eq == STOP:
                return None
            if eq is None:
                if "exc" in o and st["do"] != "poison":
                    return None  # an edit of the harness's own objects was refused: nothing more to compare
                continue
            msg = _compare_single(eq, o, [next(it)])
            if msg:
                return f"session step {i} {_describe(st)}: {msg}"
        return None
    if k in ("wide", "huge"):
        return _compare_single({"kind": c["api"], "sum": c["sum"], "n": c.get("n"), "as_term": c.get("as_term"),
                                "exact": c.get("exact", True)}, out, resp)
    return _compare_single(c, out, resp)


# --------------------------------------------------------------------------- oracle
def _terms_from(canon):
    return [{"ops": t["ops"], "c": t["c"]} for t in canon]


def _oracle_single(c, out):
    """the property's own sentences, evaluated on the implementation's outputs only"""
    import numpy as np
    k = c["kind"]
    if k == "bits":
        return None  # dec2bin / bin2dec are helpers, not part of the property: correspondence only
    if k == "from_matrix":
        m = c["m"]
        d = len(m)
        in_domain = d > 0 and all(len(row) == d for row in m) and d & (d - 1) == 0
        if not in_domain:
            return None
        if "sum" not in out:
            sig = "from-matrix-1x1" if d == 1 else "from-matrix-raise"
            return (sig, f"get_pauliop_from_matrix raised on a {d}x{d} matrix: {out}")
        n = d.bit_length() - 1
        terms = _terms_from(out["sum"])
        if _width(terms) > n:
            return ("from-matrix-roundtrip", f"expansion of a {d}x{d} matrix acts on qubit {_width(terms) - 1}")
        want = _mat_of(m)
        diff = _maxdiff(_ref_matrix(terms, n), want)
        if diff > _tol(c, [abs(x) for x in want.flatten() if x != 0], 1e-7):
            return ("from-matrix-roundtrip", f"Pauli expansion converted back differs from the matrix by {diff:.3g}")
        return None

    s = c["sum"]
    width = _width(s)
    if k == "sparse":
        n = width if c.get("n") is None else c["n"]
        if n < width:
            return None
        if "m" not in out:
            sig = "sparse-zero-operator" if not s else "sparse-raise"
            return (sig, f"get_sparse_operator raised for width {width}, n={n}: {out}")
        got = _mat_of(out["m"])
        want = _ref_matrix(s, n)
        diff = _maxdiff(got, want)
        if diff > _tol(c, _mags(s), TOL):
            sig = "sparse-zero-operator" if not s else ("sparse-padded" if n > width else "sparse-definition")
            return (sig, f"get_sparse_operator(op, {c.get('n')}) differs from the tensor-product definition on {n} qubits by {diff:.3g}")
        return None
    if k == "hc":
        if "hc" not in out:
            return ("hc-raise", f"hermitian_conjugated / is_hermitian raised: {out}")
        n = width
        a = _ref_matrix(s, n)
        scale = _tol(c, _mags(s), 1.0)
        terms = _terms_from(out["hc"])
        if _width(terms) > n:
            return ("hc-matrix", "hermitian conjugate acts on more qubits than the operator")
        diff = _maxdiff(_ref_matrix(terms, n), a.conj().T)
        if diff > 1e-7 * scale:
            return ("hc-matrix", f"hermitian_conjugated(op) differs from the conjugate-transposed matrix by {diff:.3g}")
        dev = _maxdiff(a, a.conj().T)
        if out["herm"] is None and not _herm_unjudged(c, out):
            return ("hc-raise", f"is_hermitian raised on an operator with coefficients of class {out.get('types')}: {out.get('herm_exc')}")
        if _is_simplified(s) and out["herm"] is not None:
            if dev <= 1e-12 and not out["herm"]:
                return ("herm-test", "is_hermitian is False but the matrix equals its conjugate transpose")
            if dev >= 1e-3 and out["herm"]:
                return ("herm-test", f"is_hermitian is True but the matrix differs from its conjugate transpose by {dev:.3g}")
        for name, mo in sorted(out.get("mats", {}).items()):
            # the same two functions applied to the operator's matrix itself
            if "hc" not in mo:
                return ("hc-raise", f"hermitian_conjugated / is_hermitian raised on the {name} matrix of the operator: {mo}")
            dm = _maxdiff(_mat_of(mo["hc"]), a.conj().T)
            if dm > 1e-9 * scale:
                return ("hc-matrix", f"hermitian_conjugated of the {name} matrix differs from its conjugate transpose by {dm:.3g}")
            if dev <= 1e-12 and not mo["herm"]:
                return ("herm-test", f"is_hermitian of the {name} matrix is False but it equals its conjugate transpose")
            if dev >= 1e-3 and mo["herm"]:
                return ("herm-test", f"is_hermitian of the {name} matrix is True but it differs from its conjugate transpose by {dev:.3g}")
        return None
    if k == "reverse":
        n = width if c.get("n") is None else c["n"]
        if n < width:
            return None
        if "once" not in out:
            return ("reverse-raise", f"reverse_qubit_order raised for width {width}, n={n}: {out}")
        a = _ref_matrix(s, n)
        scale = _tol(c, _mags(s), 1.0)
        t1, t2 = _terms_from(out["once"]), _terms_from(out["twice"])
        if _width(t1) > n or _width(t2) > n:
            return ("reverse-once", "reversed operator acts outside the register")
        perm = [_bitrev(i, n) for i in range(2 ** n)]
        want = a[np.ix_(perm, perm)]
        d1 = _maxdiff(_ref_matrix(t1, n), want)
        if d1 > 1e-7 * scale:
            return ("reverse-once", f"reverse_qubit_order(op, {n}) is not the bit-reversal permutation of the matrix (diff {d1:.3g})")
        d2 = _maxdiff(_ref_matrix(t2, n), a)
        if d2 > 1e-7 * scale:
            return ("reverse-twice", f"reversing twice changes the operator (diff {d2:.3g})")
        if _is_simplified(s):
            want_terms = [_canon_spec(t) for t in s]
            if out["twice"] != want_terms:
                return ("reverse-twice", f"reversing a simplified sum twice gives {out['twice']}, not the sum itself")
        return None
    if k == "expect":
        n = len(c["psi"]).bit_length() - 1
        if n < width:
            return None
        if "v" not in out:
            return ("expectation-raise", f"get_expectation_value raised: {out}")
        psi = np.array(_psi_complex(c["psi"]), dtype=complex)
        a = _ref_matrix(s, n)
        scale = _tol(c, _mags(s), 1.0)
        if c["rev"]:
            perm = [_bitrev(i, n) for i in range(2 ** n)]
            a = a[np.ix_(perm, perm)]
        want = complex(np.conj(psi) @ (a @ psi))
        return _judge_expectation(c, out, want, scale)
    if k == "expect_of":
        n = c["n"]
        if n < width or len(c["psi"]) != 2 ** n:
            return None
        if "v" not in out:
            return ("expectation-raise", f"expectation(matrix returned by get_sparse_operator, {c['route']} state) raised: {out}")
        psi = np.array(_psi_complex(c["psi"]), dtype=complex)
        want = complex(np.conj(psi) @ (_ref_matrix(s, n) @ psi))
        got = complex(out["vf"][0], out["vf"][1])
        if abs(want - got) > 1e-7 * _tol(c, _mags(s), 1.0):
            return ("expectation-" + c["route"], f"expectation(matrix returned by get_sparse_operator(op, {n}), {c['route']} state) = {got}, "
                                                 f"quadratic form of the state with the operator's matrix = {want}")
        return None
    return None


def _judge_expectation(c, out, want, scale):
    got = complex(out["vf"][0], out["vf"][1])
    if abs(want - got) > 1e-7 * scale:
        return ("expectation-reversed" if c["rev"] else "expectation",
                f"get_expectation_value(reverse_operator={c['rev']}) = {got}, quadratic form of the state with the operator's matrix = {want}")
    for name, alt in sorted(out.get("alts", {}).items()):
        if "vf" not in alt:
            return ("expectation-raise", f"expectation(matrix, {name} state) raised: {alt}")
        g = complex(alt["vf"][0], alt["vf"][1])
        if abs(want - g) > 1e-7 * scale:
            return ("expectation-" + name, f"expectation(matrix of the operator, {name} state) = {g}, quadratic form = {want}")
    return None


def _oracle_wide(c, out):
    s = c["sum"]
    width = _width(s)
    api = c["api"]
    n = width if c.get("n") is None else c["n"]
    if "exc" in out:
        return ("wide-raise", f"{api} raised on a {n}-qubit register: {out}")
    a = _ref_entries(s, n)
    scale = max([1.0] + [abs(v) for v in a.values()])
    if api == "sparse":
        if "entries" not in out or out["shape"] != [2 ** n, 2 ** n]:
            return ("wide-sparse", f"get_sparse_operator on {n} qubits returned shape {out.get('shape')}")
        got = {(r, col): complex(float(unrat(re)), float(unrat(im))) for r, col, re, im in out["entries"]}
        diff = _ent_diff(got, a)
        if diff > TOL * scale:
            return ("wide-sparse", f"get_sparse_operator(op, {c.get('n')}) differs from the tensor-product definition on {n} qubits by {diff:.3g}")
        return None
    if api == "hc":
        if "hc" not in out:
            return ("wide-raise", f"hermitian_conjugated raised: {out}")
        ah = {(col, r): v.conjugate() for (r, col), v in a.items()}
        terms = _terms_from(out["hc"])
        if _width(terms) > n:
            return ("wide-hc", "hermitian conjugate acts on more qubits than the operator")
        diff = _ent_diff(_ref_entries(terms, n), ah)
        if diff > 1e-7 * scale:
            return ("wide-hc", f"hermitian_conjugated(op) differs from the conjugate-transposed matrix by {diff:.3g} on {n} qubits")
        if out["herm"] is None and not _herm_unjudged(c, out):
            return ("wide-raise", f"is_hermitian raised on an operator with coefficients of class {out.get('types')}: {out.get('herm_exc')}")
        if _is_simplified(s) and out["herm"] is not None:
            dev = _ent_diff(a, ah)
            if dev <= 1e-12 and not out["herm"]:
                return ("wide-herm-test", "is_hermitian is False but the matrix equals its conjugate transpose")
            if dev >= 1e-3 and out["herm"]:
                return ("wide-herm-test", f"is_hermitian is True but the matrix differs from its conjugate transpose by {dev:.3g}")
        return None
    if api == "reverse":
        if "once" not in out:
            return ("wide-raise", f"reverse_qubit_order raised for width {width}, n={n}: {out}")
        t1, t2 = _terms_from(out["once"]), _terms_from(out["twice"])
        if _width(t1) > n or _width(t2) > n:
            return ("wide-reverse", "reversed operator acts outside the register")
        br = [_bitrev(i, n) for i in range(2 ** n)]
        want = {(br[r], br[col]): v for (r, col), v in a.items()}
        d1 = _ent_diff(_ref_entries(t1, n), want)
        if d1 > 1e-7 * scale:
            return ("wide-reverse", f"reverse_qubit_order(op, {n}) is not the bit-reversal permutation of the matrix (diff {d1:.3g})")
        d2 = _ent_diff(_ref_entries(t2, n), a)
        if d2 > 1e-7 * scale:
            return ("wide-reverse", f"reversing twice changes the operator on {n} qubits (diff {d2:.3g})")
        return None
    if api == "expect":
        if "v" not in out:
            return ("wide-raise", f"get_expectation_value raised on {n} qubits: {out}")
        psi = {p: _amp_complex(amp) for p, amp in c["psi"]}
        if c["rev"]:
            a = {(_bitrev(r, n), _bitrev(col, n)): v for (r, col), v in a.items() if _bitrev(r, n) in psi}
        want = sum((psi[r].conjugate() * v * psi[col] for (r, col), v in a.items() if r in psi and col in psi), 0j)
        res = _judge_expectation(c, out, want, scale)
        return ("wide-" + res[0], res[1] + f" ({n} qubits)") if res else None
    return None


def _oracle_huge(c, out):
    """sampled rows of matrices too large to hold: row r of the result against the property sentence"""
    s, api = c["sum"], c["api"]
    width = _width(s)
    n = width if c.get("n") is None else c["n"]
    if "exc" in out:
        return ("huge-raise", f"{api} raised on a {n}-qubit register: {out}")
    tol = 1e-7 * _tol(c, _mags(s), 1.0)
    if api == "reverse":
        if "once" not in out:
            return ("huge-raise", f"reverse_qubit_order raised for width {width}, n={n}: {out}")
        t1, t2 = _terms_from(out["once"]), _terms_from(out["twice"])
        if _width(t1) > n or _width(t2) > n:
            return ("huge-reverse", "reversed operator acts outside the register")
        for r in c["rows"]:
            r %= 2 ** n
            want = {_bitrev(col, n): v for col, v in _ref_row(s, n, _bitrev(r, n)).items()}
            d1 = _row_diff(_ref_row(t1, n, r), want)
            if d1 > tol:
                return ("huge-reverse", f"reverse_qubit_order(op, {n}): row {r} of its matrix is not the bit-reversal permutation of the matrix (diff {d1:.3g})")
            d2 = _row_diff(_ref_row(t2, n, r), _ref_row(s, n, r))
            if d2 > tol:
                return ("huge-reverse", f"reversing twice changes row {r} of the operator's matrix on {n} qubits (diff {d2:.3g})")
        return None
    if "hc" not in out:
        return ("huge-raise", f"hermitian_conjugated raised: {out}")
    terms = _terms_from(out["hc"])
    if _width(terms) > n:
        return ("huge-hc", "hermitian conjugate acts on more qubits than the operator")
    nonherm = 0.0
    for r in c["rows"]:
        r %= 2 ** max(n, 1)
        # column r of A: term with flip mask f has its entry of column r in row r ^ f
        col = {}
        for t in s:
            for rr, v in _ref_row([t], n, r).items():      # rr = r ^ f
                for cc, vv in _ref_row([t], n, rr).items():  # entry (rr, r)
                    if cc == r:
                        col[rr] = col.get(rr, 0) + vv
        want = {k: v.conjugate() for k, v in col.items()}
        d = _row_diff(_ref_row(terms, n, r), want)
        if d > tol:
            return ("huge-hc", f"hermitian_conjugated(op): row {r} of its matrix differs from the conjugate-transposed matrix by {d:.3g} on {n} qubits")
        nonherm = max(nonherm, _row_diff(_ref_row(s, n, r), want))
    if out["herm"] is None and not _herm_unjudged(c, out):
        return ("huge-raise", f"is_hermitian raised on an operator with coefficients of class {out.get('types')}: {out.get('herm_exc')}")
    if _is_simplified(s) and out["herm"] is not None:
        if nonherm >= 1e-3 and out["herm"]:
            return ("huge-herm-test", f"is_hermitian is True but the matrix differs from its conjugate transpose by {nonherm:.3g}")
        if all(unrat(t["c"][1]) == 0 for t in s) and not out["herm"]:
            return ("huge-herm-test", "is_hermitian is False for a real combination of Pauli strings (a Hermitian matrix)")
    return None


def _oracle_session(c, out):
    if "steps" not in out:
        return ("session-raise", f"a history of calls raised: {out}")
    eqs = _replay(c, out)
    for i, (st, eq, o) in enumerate(zip(c["steps"], eqs, out["steps"])):
        if eq == STOP:
            return None
        if eq is None:
            if "exc" in o and st["do"] != "poison":
                return None  # an edit of the harness's own objects was refused: the book-keeping ends here, no verdict
            continue
        res = _oracle_single(eq, o)
        if res is None:
            continue
        hist = "; ".join(_describe(x) for x in c["steps"][:i])
        if "seen" in o and o["seen"] != [_canon_spec(t) for t in eq["sum"]]:
            return ("session-argument-modified",
                    f"step {i} {_describe(st)}: {res[1]} — the operator no longer reads as it was built/edited by the caller "
                    f"(now {o['seen']}): an earlier call changed its argument or shares state with a result. History: {hist}")
        return ("session-" + res[0], f"step {i} {_describe(st)} after [{hist}] on the same objects: {res[1]}")
    return None


def oracle(c, out):
    k = c["kind"]
    if k == "session":
        return _oracle_session(c, out)
    if k == "wide":
        return _oracle_wide(c, out)
    if k == "huge":
        return _oracle_huge(c, out)
    return _oracle_single(c, out)


def _type_tags(c):
    """the spellings of the coefficients a case hands to the library (initial operators, edits, replacements); a ladder tag the
    type cannot carry exactly falls back to a Python complex and is counted as such"""
    def tag(t):
        ty = t.get("t", "c")
        if ty in LADDER_ALL and _ladder_value(ty, unrat(t["c"][0]), unrat(t["c"][1])) is None:
            return "c"
        return ty
    if c["kind"] == "session":
        ts = [tag(t) for t in c["pool"]]
        for st in c["steps"]:
            if st["do"] == "set_coeff":
                ts.append(tag(st))
            elif st["do"] == "replace":
                ts += [tag(t) for t in st["sum"]]
        return ts
    return [tag(t) for t in c.get("sum", [])]


def distribution(cases, outs):
    kinds = {}
    steps = {}
    tags, mat_dt, psi_dt, hc_mats, unjudged = {}, {}, {}, {}, 0
    for c, o in zip(cases, outs):
        for t in _type_tags(c):
            tags[t] = tags.get(t, 0) + 1
        if c["kind"] == "from_matrix" and c.get("dt"):
            mat_dt[c["dt"] + ":" + c.get("form", "list")] = mat_dt.get(c["dt"] + ":" + c.get("form", "list"), 0) + 1
        if c["kind"] == "session":
            for m in c.get("mats", []):
                if m.get("dt"):
                    mat_dt["session " + m["dt"]] = mat_dt.get("session " + m["dt"], 0) + 1
        if isinstance(o, dict):
            if o.get("psi_dtype") not in (None, "complex128"):
                psi_dt[o["psi_dtype"]] = psi_dt.get(o["psi_dtype"], 0) + 1
            for name in o.get("mats", {}):
                if " " in name:
                    hc_mats[name] = hc_mats.get(name, 0) + 1
            for oo in [o] + list(o.get("steps", [])):
                if isinstance(oo, dict) and "herm" in oo and oo["herm"] is None:
                    unjudged += 1
    for c in cases:
        if c["kind"] in ("sparse", "reverse"):
            w = _width(c["sum"])
            n = w if c.get("n") is None else c["n"]
            key = f"{c['kind']}:n-width={n - w}"
            kinds[key] = kinds.get(key, 0) + 1
        if c["kind"] == "session":
            for st in c["steps"]:
                steps[st["do"]] = steps.get(st["do"], 0) + 1
    return {
        "rejected_requests": sum(1 for o in outs if isinstance(o, dict) and o.get("err")),
        "inexact_cases": sum(1 for c in cases if not c.get("exact", True)),
        "empty_sums": sum(1 for c in cases if c.get("sum") == []),
        "terms_with_Y_and_gap": sum(1 for c in cases for t in c.get("sum", [])
                                    if any(p == "Y" for _, p in t["ops"])
                                    and sorted(q for q, _ in t["ops"]) != list(range(len(t["ops"])))),
        "z_only_operators": sum(1 for c in cases if c.get("sum") and all(p == "Z" for t in c["sum"] for _, p in t["ops"])),
        "padding_histogram": kinds,
        "session_steps": steps,
        "wide_cases": sum(1 for c in cases if c["kind"] == "wide"),
        "wide_set_order_reversed_terms": sum(1 for c in cases if c["kind"] in ("wide", "huge") for t in c["sum"]
                                             if list({q for q, _ in t["ops"]}) != sorted(q for q, _ in t["ops"])),
        "huge_widths": sorted({(_width(c["sum"]) if c.get("n") is None else c["n"]) for c in cases if c["kind"] == "huge"}),
        "matrix_sizes": sorted({len(c["m"]) for c in cases if c["kind"] == "from_matrix"}),
        "matrix_forms": sorted({c.get("form", "list") for c in cases if c["kind"] == "from_matrix"}),
        "coefficient_type_tags": dict(sorted(tags.items())),
        "from_matrix_ladder_dtypes": dict(sorted(mat_dt.items())),
        "state_ladder_dtypes": dict(sorted(psi_dt.items())),
        "hc_on_matrix_ladder_dtypes": dict(sorted(hc_mats.items())),
        "hermiticity_test_raised_on_ladder_type(unjudged)": unjudged,
        "hermitian_true": sum(1 for o in outs if isinstance(o, dict) and o.get("herm") is True),
        "hermitian_false": sum(1 for o in outs if isinstance(o, dict) and o.get("herm") is False),
    }
