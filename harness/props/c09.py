"""C09 — operator <-> matrix conversions agree with the operator's definition."""
from fractions import Fraction

from .. import common
from ..common import rat, unrat

PROP = "C09"
RULE = ("seeded random Pauli sums (Y-heavy, gapped supports, constants, zero and duplicate terms, complex "
        "coefficients k/8+(l/8)i, shuffled dict order) at widths width..width+2 for get_sparse_operator / "
        "hermitian_conjugated+is_hermitian / reverse_qubit_order / get_expectation_value, random Gaussian-rational "
        "2^n x 2^n matrices (n<=3) for get_pauliop_from_matrix, plus a malformed stream (n < width, non-square, "
        "non power of two); non-trivial: some term has a Y and a gap in its support, or n > width; for matrices: "
        "size >= 4 and not symmetric (Y components present); distinct = distinct canonical JSON of the case")
TRUSTED = [
    "scipy.sparse.kron is the Kronecker product (a scalar first factor acts as a 1x1 matrix) and stores no explicit zeros",
    "csc.tocoo().data lists the stored values column by column; csc.nonzero() lists (row, col) in row-major order",
    "coo_matrix((v,(r,c))).tocsc() sums duplicate positions; .toarray() densifies",
    "numpy.dot / sparse @ vector are the exact sum of products up to double rounding (exact on the dyadic inputs)",
    "f'{complex}' followed by complex(str) round-trips a double coefficient (get_pauliop_from_coeffs_and_labels)",
    "library tolerances np.isclose(x,0)/np.allclose/round(x*1e6) enter the model as the predicates Tol.negl/close/hashEq; "
    "the theorems are for tolerances that only identify equal numbers (exact arithmetic); in doubles a term of "
    "modulus <= 1e-8 is dropped by simplify and coefficients closer than allclose's tolerance are identified",
    "CPython set lookup = equal hash then ==; 64-bit hash collisions of distinct (rounded coefficient, frozenset) ignored",
    "float arithmetic is exact on the dyadic inputs compared exactly with the model; other inputs use 1e-9",
]
ASSUMPTIONS = [
    "PauliTerm._ops is a dict: qubit indices of one term are distinct (Term.WF in the theorems)",
    "dec2bin(number, length) is only called with number < 2**length (true at every call site)",
    "the wavefunction has 2**n amplitudes (enforced by the Wavefunction constructor)",
]

TOL = 1e-9
LETTERS = "XYZ"


# --------------------------------------------------------------------------- building real objects
def _mods():
    common.use_repo()
    from orquestra.quantum.operators import PauliSum, PauliTerm
    from orquestra.quantum.operators._openfermion_utils.sparse_tools import get_sparse_operator
    from orquestra.quantum.operators._openfermion_utils.operator_utils import hermitian_conjugated, is_hermitian
    from orquestra.quantum.operators import _utils as U
    from orquestra.quantum.wavefunction import Wavefunction
    return PauliSum, PauliTerm, get_sparse_operator, hermitian_conjugated, is_hermitian, U, Wavefunction


def _coef(t):
    re, im = float(unrat(t["c"][0])), float(unrat(t["c"][1]))
    ty = t.get("t", "c")
    if ty == "i" and im == 0 and re == int(re):
        return int(re)
    if ty == "f" and im == 0:
        return re
    return complex(re, im)


def _term(t):
    PauliTerm = _mods()[1]
    return PauliTerm({int(q): p for q, p in t["ops"]}, _coef(t))


def _op(c):
    PauliSum = _mods()[0]
    if c.get("as_term"):
        return _term(c["sum"][0])
    return PauliSum([_term(t) for t in c["sum"]])


def _cz(x):
    z = complex(x)
    return [rat(Fraction(z.real)), rat(Fraction(z.imag))]


def _canon_term(t):
    return {"ops": sorted([[int(q), str(p)] for q, p in t.operations]), "c": _cz(t.coefficient)}


def _canon_sum(op):
    return [_canon_term(t) for t in op.terms]


def _psi_complex(psi):
    out = []
    for a in psi:
        if len(a) == 2:
            out.append(complex(float(unrat(a[0])), float(unrat(a[1]))))
        else:
            out.append(common.cyc_to_complex(a))
    return out


# --------------------------------------------------------------------------- reference (oracle only)
def _width(terms):
    return max([q + 1 for t in terms for q, _ in t["ops"]], default=0)


_P2 = {"I": ((1, 0), (0, 1)), "X": ((0, 1), (1, 0)), "Y": ((0, -1j), (1j, 0)), "Z": ((1, 0), (0, -1))}


def _ref_matrix(terms, n):
    """Tensor-product definition, qubit 0 the leftmost factor, by explicit index arithmetic:
    entry (r, c) = coeff * prod_q sigma_q[bit_q(r)][bit_q(c)], bit_q = bit (n-1-q) of the index."""
    import numpy as np
    d = 2 ** n
    a = np.zeros((d, d), dtype=complex)
    for t in terms:
        coeff = complex(float(unrat(t["c"][0])), float(unrat(t["c"][1])))
        letters = ["I"] * n
        for q, p in t["ops"]:
            letters[q] = p
        for r in range(d):
            # the single non-zero column of row r
            c = r
            v = coeff
            for q in range(n):
                br = (r >> (n - 1 - q)) & 1
                if letters[q] in "XY":
                    c ^= 1 << (n - 1 - q)
                    bc = 1 - br
                else:
                    bc = br
                v = v * _P2[letters[q]][br][bc]
            a[r][c] += v
    return a


def _bitrev(i, n):
    return int(format(i, f"0{n}b")[::-1], 2) if n else 0


def _mat_of(rows):
    import numpy as np
    return np.array([[complex(float(unrat(e[0])), float(unrat(e[1]))) for e in row] for row in rows], dtype=complex)


def _maxdiff(a, b):
    import numpy as np
    if a.shape != b.shape:
        return float("inf")
    return float(np.max(np.abs(a - b))) if a.size else 0.0


def _is_simplified(terms):
    keys = [tuple(sorted(map(tuple, t["ops"]))) for t in terms]
    if len(set(keys)) != len(keys):
        return False
    return all(abs(complex(float(unrat(t["c"][0])), float(unrat(t["c"][1])))) > 1e-3 for t in terms)


# --------------------------------------------------------------------------- generators
def _gen_coeff(rng, exact):
    if exact:
        re, im = Fraction(rng.randrange(-16, 17), 8), Fraction(rng.randrange(-16, 17), 8)
    else:
        re, im = Fraction(rng.randrange(-30, 31), rng.choice([3, 5, 10, 7])), Fraction(rng.randrange(-30, 31), rng.choice([3, 5, 10]))
    mode = rng.random()
    if mode < 0.35:
        im = Fraction(0)
    elif mode < 0.45:
        re = Fraction(0)
    if mode > 0.97:
        re = im = Fraction(0)
    if re == 0 and im == 0 and rng.random() < 0.6:
        re = Fraction(1)
    ty = "c"
    if im == 0:
        ty = rng.choice(["c", "f", "f", "i" if re.denominator == 1 else "f"])
    return [rat(re), rat(im)], ty


def _gen_term(rng, maxq, exact):
    if maxq == 0 or rng.random() < 0.12:
        ops = []
    else:
        k = rng.choice([1, 1, 2, 2, 3, 4])
        qs = rng.sample(range(maxq), min(k, maxq))
        ops = [[q, rng.choice("XYYZ")] for q in qs]  # Y-heavy, arbitrary dict order
    c, ty = _gen_coeff(rng, exact)
    return {"ops": ops, "c": c, "t": ty}


def _gen_sum(rng, maxq, exact, hermitian=None):
    r = rng.random()
    if r < 0.06:
        return []
    nt = rng.choice([1, 1, 2, 3, 4, 6])
    terms = [_gen_term(rng, maxq, exact) for _ in range(nt)]
    if rng.random() < 0.25 and terms:
        # duplicate support (non-simplified sum); sometimes cancelling
        t = dict(rng.choice(terms))
        t = {"ops": list(reversed(t["ops"])), "c": list(t["c"]), "t": "c"}
        if rng.random() < 0.4:
            t["c"] = [rat(-unrat(t["c"][0])), rat(-unrat(t["c"][1]))]
        terms.insert(rng.randrange(len(terms) + 1), t)
    if hermitian:
        for t in terms:
            t["c"] = [t["c"][0], 0]
            if unrat(t["c"][0]) == 0:
                t["c"] = [1, 0]
    return terms


def _dedupe_keys(terms):
    """make the supports pairwise distinct and the coefficients non-zero (a simplified sum)"""
    seen, out = set(), []
    for t in terms:
        key = tuple(sorted(map(tuple, t["ops"])))
        if key in seen or (unrat(t["c"][0]) == 0 and unrat(t["c"][1]) == 0):
            continue
        seen.add(key)
        out.append(t)
    return out


def _gen_matrix(rng, n, exact, style):
    d = 2 ** n
    den = 8 if exact else rng.choice([3, 5, 10])

    def e():
        return [rat(Fraction(rng.randrange(-16, 17), den)), rat(Fraction(rng.randrange(-16, 17), den))]

    if style == "dense":
        return [[e() for _ in range(d)] for _ in range(d)]
    if style == "real":
        return [[[rat(Fraction(rng.randrange(-16, 17), den)), 0] for _ in range(d)] for _ in range(d)]
    if style == "int":
        return [[[rng.randrange(-3, 4), 0] for _ in range(d)] for _ in range(d)]
    if style == "sparse":
        return [[e() if rng.random() < 0.25 else [0, 0] for _ in range(d)] for _ in range(d)]
    if style == "hermitian":
        m = [[e() for _ in range(d)] for _ in range(d)]
        for i in range(d):
            m[i][i] = [m[i][i][0], 0]
            for j in range(i):
                m[i][j] = [m[j][i][0], rat(-unrat(m[j][i][1]))]
        return m
    raise AssertionError(style)


def _split_unit(rng, slots):
    """exponents a_i with sum 4^-a_i = 1, at most `slots` of them (dyadic normalised amplitudes 2^-a_i)"""
    parts = [0]
    while True:
        cand = [i for i in range(len(parts))]
        if len(parts) + 3 > slots or rng.random() < 0.3:
            break
        i = rng.choice(cand)
        a = parts.pop(i)
        parts += [a + 1] * 4
    return parts


def _gen_psi(rng, n, mode):
    d = 2 ** n
    units = [(1, 0), (-1, 0), (0, 1), (0, -1)]
    if mode == "dyadic":
        parts = _split_unit(rng, d)
        pos = rng.sample(range(d), len(parts))
        psi = [[0, 0] for _ in range(d)]
        for p, a in zip(pos, parts):
            u = rng.choice(units)
            psi[p] = [rat(Fraction(u[0], 2 ** a)), rat(Fraction(u[1], 2 ** a))]
        return psi
    if mode == "pyth":
        # rational points: (3/5, 4/5), (5/13, 12/13), (8/17, 15/17) spread over two basis states
        a, b, c = rng.choice([(3, 4, 5), (5, 12, 13), (8, 15, 17), (7, 24, 25)])
        psi = [[0, 0] for _ in range(d)]
        if d == 1:
            psi[0] = [0, 1]
            return psi
        i, j = rng.sample(range(d), 2)
        u, v = rng.choice(units), rng.choice(units)
        psi[i] = [rat(Fraction(u[0] * a, c)), rat(Fraction(u[1] * a, c))]
        psi[j] = [rat(Fraction(v[0] * b, c)), rat(Fraction(v[1] * b, c))]
        return psi
    # "sqrt2": amplitudes ±(1/sqrt2), ±i/sqrt2 (Cyc8 [a,b,c,d] = b*zeta + d*zeta^3, 1/sqrt2 = (zeta - zeta^3)/2)
    psi = [[0, 0, 0, 0] for _ in range(d)]
    if d == 1:
        return [[1, 0, 0, 0]]
    i, j = rng.sample(range(d), 2)
    h = Fraction(1, 2)
    forms = [[0, rat(h), 0, rat(-h)], [0, rat(-h), 0, rat(h)], [0, rat(h), 0, rat(h)], [0, rat(-h), 0, rat(-h)]]
    psi[i] = rng.choice(forms)
    psi[j] = rng.choice(forms)
    return psi


def corpus():
    return [
        # F2 (fixed 67d2fe1): the empty sum is the zero operator
        {"kind": "sparse", "sum": [], "n": 2, "exact": True},
        {"kind": "sparse", "sum": [], "n": 0, "exact": True},
        # the COO assembly pairs column-major data with row-major positions: only right because of the symmetric pattern
        {"kind": "sparse", "sum": [{"ops": [[0, "Y"]], "c": [1, 0], "t": "f"}], "n": 1, "exact": True},
        {"kind": "sparse", "sum": [{"ops": [[2, "X"], [0, "Y"]], "c": [1, 2], "t": "c"}], "n": 4, "exact": True},
        {"kind": "sparse", "sum": [{"ops": [[1, "Y"]], "c": [0, "1/2"], "t": "c"}], "n": None, "as_term": True, "exact": True},
        {"kind": "sparse", "sum": [{"ops": [], "c": [3, 0], "t": "i"}], "n": 0, "exact": True},
        {"kind": "sparse", "sum": [{"ops": [], "c": ["-3/2", 1], "t": "c"}, {"ops": [[1, "Z"]], "c": [0, 0], "t": "f"}], "n": 3, "exact": True},
        {"kind": "sparse", "sum": [{"ops": [[1, "Z"]], "c": [1, 0], "t": "f"}], "n": 1, "exact": True},  # n < width
        {"kind": "hc", "sum": [{"ops": [[0, "X"]], "c": [0, 1], "t": "c"}, {"ops": [[0, "X"]], "c": [2, 0], "t": "f"}], "exact": True},
        {"kind": "hc", "sum": [{"ops": [[0, "Y"], [2, "Y"]], "c": ["1/2", 0], "t": "f"}, {"ops": [], "c": [1, 0], "t": "i"}], "exact": True},
        {"kind": "hc", "sum": [{"ops": [[1, "Y"]], "c": [1, 1], "t": "c"}], "as_term": True, "exact": True},
        {"kind": "from_matrix", "m": [[[1, 0], [0, 1]], [[2, 0], [3, 0]]], "exact": True},
        {"kind": "from_matrix", "m": [[[5, "-1/2"]]], "exact": True},
        {"kind": "from_matrix", "m": [[[0, 0]] * 3] * 3, "exact": True},
        {"kind": "from_matrix", "m": [[[0, 0]] * 4] * 2, "exact": True},
        {"kind": "reverse", "sum": [{"ops": [[0, "X"], [2, "Z"]], "c": [0, 1], "t": "c"}], "n": 4, "exact": True},
        {"kind": "reverse", "sum": [{"ops": [[0, "X"]], "c": [1, 0], "t": "f"}, {"ops": [[1, "Y"]], "c": [1, 0], "t": "f"}], "n": None, "exact": True},
        {"kind": "expect", "sum": [{"ops": [[0, "Y"]], "c": [1, 0], "t": "f"}], "psi": [[0, "1/2", 0, "-1/2"], [0, "1/2", 0, "1/2"]], "rev": False, "exact": False},
        {"kind": "expect", "sum": [{"ops": [[0, "Z"], [1, "X"]], "c": [1, 0], "t": "f"}], "psi": [["1/2", 0], ["1/2", 0], [0, "1/2"], [0, "-1/2"]], "rev": True, "exact": True},
    ]


def generate(rng, tier):
    big = tier == "thorough"
    cases = []
    maxw = 4 if big else 3

    # ---- get_sparse_operator
    for _ in range(1200 if big else 90):
        exact = rng.random() < 0.85
        w = rng.randrange(0, maxw + 1)
        s = _gen_sum(rng, w, exact)
        width = _width(s)
        r = rng.random()
        if r < 0.12:
            n = None
        elif r < 0.2 and width > 0:
            n = width - 1  # malformed: ValueError
        else:
            n = width + rng.choice([0, 0, 1, 1, 2])
        c = {"kind": "sparse", "sum": s, "n": n, "exact": exact}
        if len(s) == 1 and rng.random() < 0.5:
            c["as_term"] = True
        cases.append(c)
    # exhaustive small scope: every single term on <= 2 (quick) / 3 (thorough) qubits at width..width+1
    lim = 3 if big else 2
    import itertools
    for letters in itertools.product("IXYZ", repeat=lim):
        ops = [[q, p] for q, p in enumerate(letters) if p != "I"]
        for extra in (0, 1):
            cases.append({"kind": "sparse", "sum": [{"ops": list(reversed(ops)), "c": ["1/2", "-3/8"], "t": "c"}],
                          "n": _width([{"ops": ops}]) + extra, "exact": True})

    # ---- hermitian_conjugated / is_hermitian
    for _ in range(1200 if big else 90):
        exact = rng.random() < 0.85
        herm = rng.random() < 0.4
        s = _gen_sum(rng, rng.randrange(0, maxw + 1), exact, hermitian=herm)
        if rng.random() < 0.6:
            s = _dedupe_keys(s)
        c = {"kind": "hc", "sum": s, "exact": exact}
        if len(s) == 1 and rng.random() < 0.5:
            c["as_term"] = True
        cases.append(c)

    # ---- get_pauliop_from_matrix
    for _ in range(500 if big else 45):
        exact = rng.random() < 0.85
        n = rng.choice([0, 1, 1, 2, 2, 2, 2, 3, 3, 1, 2, 3, 1, 2])
        style = rng.choice(["dense", "dense", "real", "int", "sparse", "hermitian"])
        cases.append({"kind": "from_matrix", "m": _gen_matrix(rng, n, exact, style), "exact": exact})
    for _ in range(150 if big else 12):
        # matrices of known Pauli sums (few non-zero components)
        n = rng.choice([1, 2, 3])
        s = _dedupe_keys(_gen_sum(rng, n, True))
        a = _ref_matrix(s, n)
        cases.append({"kind": "from_matrix", "m": [[_cz(x) for x in row] for row in a], "exact": True})
    for shape in ([(2, 4), (4, 2), (3, 3), (6, 6), (1, 2), (5, 5), (2, 3)] if big else [(2, 4), (3, 3), (6, 6), (4, 2)]):
        cases.append({"kind": "from_matrix", "m": [[[rng.randrange(-2, 3), 0] for _ in range(shape[1])] for _ in range(shape[0])],
                      "exact": True})

    # ---- reverse_qubit_order
    for _ in range(1000 if big else 80):
        exact = rng.random() < 0.85
        s = _gen_sum(rng, rng.randrange(0, maxw + 1), exact)
        if rng.random() < 0.5:
            s = _dedupe_keys(s)
        width = _width(s)
        r = rng.random()
        if r < 0.15:
            n = None
        elif r < 0.22 and width > 0:
            n = width - 1
        else:
            n = width + rng.choice([0, 0, 1, 2])
        c = {"kind": "reverse", "sum": s, "n": n, "exact": exact}
        if len(s) == 1 and rng.random() < 0.3:
            c["as_term"] = True
        cases.append(c)

    # ---- get_expectation_value
    for _ in range(1000 if big else 80):
        n = rng.randrange(0, (5 if big else 4) + 1)
        mode = rng.choice(["dyadic", "dyadic", "pyth", "sqrt2"])
        exact = mode == "dyadic" and rng.random() < 0.9
        malformed = rng.random() < 0.07
        s = _gen_sum(rng, min(n + (1 if malformed else 0), maxw + 1), exact)
        cases.append({"kind": "expect", "sum": s, "psi": _gen_psi(rng, n, mode), "rev": rng.random() < 0.5,
                      "exact": exact})

    # ---- dec2bin / bin2dec
    for _ in range(60 if big else 20):
        length = rng.randrange(0, 9)
        cases.append({"kind": "bits", "number": rng.randrange(0, 2 ** length), "length": length})
    return cases


def nontrivial(c):
    k = c["kind"]
    if k == "from_matrix":
        m = c["m"]
        return len(m) >= 4 and len(m) == len(m[0]) and any(m[i][j] != m[j][i] for i in range(len(m)) for j in range(i))
    if k == "bits":
        return False
    s = c["sum"]
    width = _width(s)
    if k == "expect":
        n = len(c["psi"]).bit_length() - 1
    elif k == "hc":
        n = width
    else:
        n = width if c.get("n") is None else c["n"]
    if n < width:
        return False

    def gapped_y(t):
        qs = sorted(q for q, _ in t["ops"])
        return any(p == "Y" for _, p in t["ops"]) and qs != list(range(len(qs)))

    return n > width or any(gapped_y(t) for t in s)


# --------------------------------------------------------------------------- implementation
def run_impl(c):
    PauliSum, PauliTerm, gso, hconj, isherm, U, Wavefunction = _mods()
    k = c["kind"]
    if k == "sparse":
        op = _op(c)
        try:
            m = gso(op) if c.get("n") is None else gso(op, c["n"])
        except ValueError as e:
            return {"err": "err:value", "msg": str(e)[:100]}
        a = m.toarray()
        return {"shape": list(a.shape), "m": [[_cz(x) for x in row] for row in a]}
    if k == "hc":
        op = _op(c)
        h = hconj(op)
        if c.get("as_term"):
            return {"hc": [_canon_term(h)], "is_term": isinstance(h, PauliTerm), "herm": bool(isherm(op))}
        return {"hc": _canon_sum(h), "is_sum": isinstance(h, PauliSum), "herm": bool(isherm(op))}
    if k == "from_matrix":
        rows = [[complex(float(unrat(e[0])), float(unrat(e[1]))) for e in row] for row in c["m"]]
        if all(unrat(e[1]) == 0 for row in c["m"] for e in row):
            if all(unrat(e[0]).denominator == 1 for row in c["m"] for e in row):
                rows = [[int(unrat(e[0])) for e in row] for row in c["m"]]
            else:
                rows = [[float(unrat(e[0])) for e in row] for row in c["m"]]
        try:
            op = U.get_pauliop_from_matrix(rows)
        except IndexError:
            return {"err": "err:index"}
        except Exception as e:
            if type(e) is Exception:  # the code raises bare Exception for bad shapes
                return {"err": "err:exception", "msg": str(e)[:100]}
            raise
        return {"sum": _canon_sum(op)}
    if k == "reverse":
        op = _op(c)
        try:
            r1 = U.reverse_qubit_order(op) if c.get("n") is None else U.reverse_qubit_order(op, c["n"])
        except ValueError as e:
            return {"err": "err:value", "msg": str(e)[:100]}
        n = op.n_qubits if c.get("n") is None else c["n"]
        r2 = U.reverse_qubit_order(r1, n)
        return {"once": _canon_sum(r1), "twice": _canon_sum(r2), "n": n, "is_sum": isinstance(r1, PauliSum)}
    if k == "expect":
        import numpy as np
        wf = Wavefunction(np.array(_psi_complex(c["psi"]), dtype=complex))
        op = _op(c)
        try:
            v = U.get_expectation_value(op, wf, c["rev"])
        except ValueError as e:
            return {"err": "err:value", "msg": str(e)[:100]}
        return {"v": _cz(v), "vf": [complex(v).real, complex(v).imag]}
    if k == "bits":
        from orquestra.quantum.utils import bin2dec, dec2bin
        bits = dec2bin(c["number"], c["length"])
        return {"bits": [int(b) for b in bits], "back": int(bin2dec(bits))}
    raise AssertionError("unknown kind")


# --------------------------------------------------------------------------- model
def _jsum(s):
    return [{"ops": t["ops"], "c": t["c"]} for t in s]


def requests(c, out):
    k = c["kind"]
    if k == "sparse":
        p = {"sum": _jsum(c["sum"])}
        if c.get("n") is not None:
            p["n"] = c["n"]
        return [("sparse", p)]
    if k == "hc":
        if c.get("as_term"):
            return [("hc_term", {"term": _jsum(c["sum"])[0]})]
        return [("hc", {"sum": _jsum(c["sum"])})]
    if k == "from_matrix":
        return [("from_matrix", {"m": c["m"]})]
    if k == "reverse":
        n = _width(c["sum"]) if c.get("n") is None else c["n"]
        return [("reverse", {"sum": _jsum(c["sum"]), "n": n})]
    if k == "expect":
        return [("expect", {"sum": _jsum(c["sum"]), "psi": c["psi"], "rev": c["rev"]})]
    if k == "bits":
        return [("bits", {"number": c["number"], "length": c["length"]})]
    return []


def _cyc_pair(x):
    """model scalar [a,b,c,d] -> exact (re, im) if Gaussian, else None"""
    a, b, cc, d = [unrat(v) for v in x]
    if b == 0 and d == 0:
        return a, cc
    return None


def _scal_eq(model, impl, exact):
    """model: Cyc8 4-list; impl: [re, im] exact rationals of the doubles"""
    ir, ii = unrat(impl[0]), unrat(impl[1])
    g = _cyc_pair(model)
    if exact:
        return g is not None and g == (ir, ii)
    z = common.cyc_to_complex(model)
    return abs(z - complex(float(ir), float(ii))) <= TOL * max(1.0, abs(z))


def _sum_eq(model, impl, exact):
    if not isinstance(model, list) or len(model) != len(impl):
        return False
    for a, b in zip(model, impl):
        if a["ops"] != b["ops"] or not _scal_eq(a["c"], b["c"], exact):
            return False
    return True


def compare(c, out, resp):
    r = resp[0]
    if isinstance(r, dict) and "driver_error" in r:
        return "driver error: " + r["driver_error"]
    k = c["kind"]
    exact = c.get("exact", True)
    if "exc" in out:
        return f"{k}: implementation raised {out['exc']}: {out.get('msg')}; model {str(r)[:200]}"
    if k == "sparse":
        if isinstance(r, str) or "err" in out:
            return None if out.get("err") == r else f"get_sparse_operator: impl {out.get('err', 'matrix')} model {str(r)[:80]}"
        m = out["m"]
        if len(r) != len(m) or any(len(a) != len(b) for a, b in zip(r, m)):
            return f"get_sparse_operator: shape impl {out['shape']} model {len(r)}"
        for i, (ra, rb) in enumerate(zip(r, m)):
            for j, (x, y) in enumerate(zip(ra, rb)):
                if not _scal_eq(x, y, exact):
                    return f"get_sparse_operator: entry ({i},{j}) impl {y} model {x}"
    elif k == "hc":
        mh = [r["hc"]] if c.get("as_term") else r["hc"]
        if not _sum_eq(mh, out["hc"], exact):
            return f"hermitian_conjugated: impl {out['hc']} model {mh}"
        if bool(r["herm"]) != out["herm"]:
            return f"is_hermitian: impl {out['herm']} model {r['herm']}"
    elif k == "from_matrix":
        if isinstance(r, str) or "err" in out:
            return None if out.get("err") == r else f"get_pauliop_from_matrix: impl {out.get('err', 'sum')} model {str(r)[:80]}"
        if not _sum_eq(r, out["sum"], exact):
            return f"get_pauliop_from_matrix: impl {out['sum']} model {r}"
    elif k == "reverse":
        if isinstance(r["once"], str) or "err" in out:
            return None if out.get("err") == r["once"] else f"reverse_qubit_order: impl {out.get('err', 'sum')} model {str(r['once'])[:80]}"
        if not _sum_eq(r["once"], out["once"], exact):
            return f"reverse_qubit_order: impl {out['once']} model {r['once']}"
        if not _sum_eq(r["twice"], out["twice"], exact):
            return f"reverse_qubit_order twice: impl {out['twice']} model {r['twice']}"
    elif k == "expect":
        if isinstance(r, str) or "err" in out:
            return None if out.get("err") == r else f"get_expectation_value: impl {out.get('err', out.get('vf'))} model {str(r)[:80]}"
        if not _scal_eq(r, out["v"], exact):
            return f"get_expectation_value: impl {out['vf']} model {r}"
    elif k == "bits":
        if out["bits"] != r["bits"] or [out["back"]] != r["back"]:
            return f"dec2bin/bin2dec: impl {out} model {r}"
    return None


# --------------------------------------------------------------------------- oracle
def _terms_from(canon):
    return [{"ops": t["ops"], "c": t["c"]} for t in canon]


def oracle(c, out):
    """the property's own sentences, evaluated on the implementation's outputs only"""
    import numpy as np
    k = c["kind"]
    if k == "bits":
        return None  # dec2bin / bin2dec are helpers, not part of the property: correspondence only
    if k == "from_matrix":
        m = c["m"]
        d = len(m)
        in_domain = d > 0 and all(len(row) == d for row in m) and d & (d - 1) == 0
        if not in_domain:
            return None
        if "sum" not in out:
            sig = "from-matrix-1x1" if d == 1 else "from-matrix-raise"
            return (sig, f"get_pauliop_from_matrix raised on a {d}x{d} matrix: {out}")
        n = d.bit_length() - 1
        terms = _terms_from(out["sum"])
        if _width(terms) > n:
            return ("from-matrix-roundtrip", f"expansion of a {d}x{d} matrix acts on qubit {_width(terms) - 1}")
        diff = _maxdiff(_ref_matrix(terms, n), _mat_of(m))
        if diff > 1e-7:
            return ("from-matrix-roundtrip", f"Pauli expansion converted back differs from the matrix by {diff:.3g}")
        return None

    s = c["sum"]
    width = _width(s)
    if k == "sparse":
        n = width if c.get("n") is None else c["n"]
        if n < width:
            return None
        if "m" not in out:
            sig = "sparse-zero-operator" if not s else "sparse-raise"
            return (sig, f"get_sparse_operator raised for width {width}, n={n}: {out}")
        got = _mat_of(out["m"])
        want = _ref_matrix(s, n)
        diff = _maxdiff(got, want)
        if diff > TOL:
            sig = "sparse-zero-operator" if not s else ("sparse-padded" if n > width else "sparse-definition")
            return (sig, f"get_sparse_operator(op, {c.get('n')}) differs from the tensor-product definition on {n} qubits by {diff:.3g}")
        return None
    if k == "hc":
        if "hc" not in out:
            return ("hc-raise", f"hermitian_conjugated / is_hermitian raised: {out}")
        n = width
        a = _ref_matrix(s, n)
        terms = _terms_from(out["hc"])
        if _width(terms) > n:
            return ("hc-matrix", "hermitian conjugate acts on more qubits than the operator")
        diff = _maxdiff(_ref_matrix(terms, n), a.conj().T)
        if diff > 1e-7:
            return ("hc-matrix", f"hermitian_conjugated(op) differs from the conjugate-transposed matrix by {diff:.3g}")
        if _is_simplified(s):
            dev = _maxdiff(a, a.conj().T)
            if dev <= 1e-12 and not out["herm"]:
                return ("herm-test", "is_hermitian is False but the matrix equals its conjugate transpose")
            if dev >= 1e-3 and out["herm"]:
                return ("herm-test", f"is_hermitian is True but the matrix differs from its conjugate transpose by {dev:.3g}")
        return None
    if k == "reverse":
        n = width if c.get("n") is None else c["n"]
        if n < width:
            return None
        if "once" not in out:
            return ("reverse-raise", f"reverse_qubit_order raised for width {width}, n={n}: {out}")
        a = _ref_matrix(s, n)
        t1, t2 = _terms_from(out["once"]), _terms_from(out["twice"])
        if _width(t1) > n or _width(t2) > n:
            return ("reverse-once", "reversed operator acts outside the register")
        perm = [_bitrev(i, n) for i in range(2 ** n)]
        want = a[np.ix_(perm, perm)]
        d1 = _maxdiff(_ref_matrix(t1, n), want)
        if d1 > 1e-7:
            return ("reverse-once", f"reverse_qubit_order(op, {n}) is not the bit-reversal permutation of the matrix (diff {d1:.3g})")
        d2 = _maxdiff(_ref_matrix(t2, n), a)
        if d2 > 1e-7:
            return ("reverse-twice", f"reversing twice changes the operator (diff {d2:.3g})")
        if _is_simplified(s):
            want_terms = [{"ops": sorted(t["ops"]), "c": [rat(Fraction(float(unrat(t["c"][0])))), rat(Fraction(float(unrat(t["c"][1]))))]} for t in s]
            if out["twice"] != want_terms:
                return ("reverse-twice", f"reversing a simplified sum twice gives {out['twice']}, not the sum itself")
        return None
    if k == "expect":
        n = len(c["psi"]).bit_length() - 1
        if n < width:
            return None
        if "v" not in out:
            return ("expectation-raise", f"get_expectation_value raised: {out}")
        psi = np.array(_psi_complex(c["psi"]), dtype=complex)
        a = _ref_matrix(s, n)
        if c["rev"]:
            perm = [_bitrev(i, n) for i in range(2 ** n)]
            a = a[np.ix_(perm, perm)]
        want = complex(np.conj(psi) @ (a @ psi))
        got = complex(out["vf"][0], out["vf"][1])
        if abs(want - got) > 1e-7:
            return ("expectation-reversed" if c["rev"] else "expectation",
                    f"get_expectation_value = {got}, quadratic form of the state with the operator's matrix = {want}")
        return None
    return None


def distribution(cases, outs):
    kinds = {}
    for c in cases:
        if c["kind"] in ("sparse", "reverse"):
            w = _width(c["sum"])
            n = w if c.get("n") is None else c["n"]
            key = f"{c['kind']}:n-width={n - w}"
            kinds[key] = kinds.get(key, 0) + 1
    return {
        "rejected_requests": sum(1 for o in outs if isinstance(o, dict) and o.get("err")),
        "inexact_cases": sum(1 for c in cases if not c.get("exact", True)),
        "empty_sums": sum(1 for c in cases if c.get("sum") == []),
        "terms_with_Y_and_gap": sum(1 for c in cases for t in c.get("sum", [])
                                    if any(p == "Y" for _, p in t["ops"])
                                    and sorted(q for q, _ in t["ops"]) != list(range(len(t["ops"])))),
        "padding_histogram": kinds,
        "matrix_sizes": sorted({len(c["m"]) for c in cases if c["kind"] == "from_matrix"}),
        "hermitian_true": sum(1 for o in outs if isinstance(o, dict) and o.get("herm") is True),
        "hermitian_false": sum(1 for o in outs if isinstance(o, dict) and o.get("herm") is False),
    }
