"""C10 — statistics computed from measurements are the exact sample statistics."""
import math
import warnings
from collections import Counter
from fractions import Fraction

from .. import common
from ..common import rat, unrat

PROP = "C10"
RULE = ("seeded random shot lists (repetitions, idle qubits, single shot, all-equal shots) x Ising operators "
        "(overlapping, repeated, constant, zero-coefficient terms) per mechanism (ev / parities / counts / add_counts / "
        "dist / freq / parity_vec) plus a malformed stream (non-Ising, qubit outside the width, zero shots, one shot "
        "with Bessel, zero totals, ragged frequency keys, width 0); non-trivial: ev/parities with >=2 terms of which two "
        "overlap (share a qubit) and >=2 distinct shots; counts/add_counts/dist with a repeated shot and >=2 distinct "
        "shots; freq/parity_vec with >=2 marked qubits and >=2 distinct rows; distinct = distinct canonical JSON of the case")
TRUSTED = [
    "numpy integer/float array arithmetic (sum, *, /, %, fancy indexing, reshape, 1-d broadcasting) computes the "
    "element-wise real-number operations up to double rounding (model compared within 1e-9, exactly on dyadic inputs)",
    "collections.Counter / dict keep first-insertion order and count exact multiplicities (modelled as an association list)",
    "MeasurementOutcomeDistribution(d) keeps a dictionary whose values sum to 1 (math.isclose) unchanged and raises "
    "RuntimeError on {} or on keys of different lengths (its own behaviour belongs to C17)",
    "CPython int/int true division is within 1e-12 of the exact quotient (distribution entries compared with that tolerance)",
    "PauliTerm.qubits is a set of distinct non-negative ints (hypothesis Nodup in the Lean theorems)",
]
ASSUMPTIONS = ["coefficients are real (python int/float); bits are 0/1; the eigenvalue of Z on bit b is 1-2b",
               "theorems are over an arbitrary field of characteristic 0; the driver evaluates the same definitions at Rat"]
TOL = 1e-9


def _mods():
    common.use_repo()
    import numpy as np
    from orquestra.quantum.measurements import Measurements
    from orquestra.quantum.measurements import measurements as mm
    from orquestra.quantum.measurements import parities as pp
    from orquestra.quantum.operators import PauliSum, PauliTerm
    return np, Measurements, mm, pp, PauliSum, PauliTerm


# ------------------------------------------------------------------ cases
def _t(coeff, ops):
    return {"coeff": rat(Fraction(coeff)), "ops": [[q, l] for q, l in ops]}


def corpus():
    z = lambda *qs: [(q, "Z") for q in qs]  # noqa: E731
    return [
        {"kind": "ev", "shots": ["01", "11", "01", "10"], "bessel": False, "exact": True,
         "terms": [_t(2, z(0)), _t(Fraction(1, 2), z(0, 1)), _t(3, []), _t(2, z(0))]},
        {"kind": "ev", "shots": ["01", "11", "01"], "bessel": True, "exact": False,
         "terms": [_t(2, z(0)), _t(Fraction(-3, 4), z(1, 0)), _t(0.1, z(1))]},
        {"kind": "ev", "shots": ["011"], "bessel": True, "exact": False, "terms": [_t(1, z(0)), _t(1, z(1, 2))]},
        {"kind": "ev", "shots": ["011", "000"], "bessel": False, "exact": True, "terms": [_t(1, z(2)), _t(5, [])], "single": False},
        {"kind": "ev", "shots": ["0", "1", "1"], "bessel": False, "exact": False, "terms": [_t(-2, z(0))], "single": True},
        {"kind": "ev", "shots": [], "bessel": False, "exact": False, "terms": [_t(1, z(0))]},
        {"kind": "ev", "shots": [], "bessel": False, "exact": False, "terms": []},
        {"kind": "ev", "shots": ["01"], "bessel": False, "exact": False, "terms": [_t(1, z(2))]},
        {"kind": "ev", "shots": ["01"], "bessel": False, "exact": False, "terms": [_t(1, [(0, "X")])]},
        # width 0 with a constant operator: in the quantifier ("any width", "constant terms"), the code raises
        {"kind": "ev", "shots": ["", ""], "bessel": False, "exact": False, "terms": [_t(3, [])]},
        {"kind": "parities", "shots": ["01", "11", "01", "10"],
         "terms": [_t(2, z(0)), _t(Fraction(1, 2), z(0, 1)), _t(3, []), _t(2, z(0))]},
        # zero shots: every tally is 0; the code raises for a non-constant term
        {"kind": "parities", "shots": [], "terms": [_t(1, z(0))]},
        {"kind": "parities", "shots": [], "terms": [_t(1, [])]},
        {"kind": "parities", "shots": ["", ""], "terms": [_t(1, [])]},
        {"kind": "counts", "shots": ["01", "11", "01", "10", "01"]},
        {"kind": "counts", "shots": []},
        {"kind": "add_counts", "shots": ["01"], "counts": [["01", 2], ["11", 0], ["10", -1], ["00", 1]]},
        {"kind": "dist", "shots": ["01", "11", "01"]},
        {"kind": "dist", "shots": []},
        {"kind": "dist", "shots": ["", ""]},
        {"kind": "freq", "marked": [0], "freq": [["01", 0], ["11", 0]]},
        {"kind": "freq", "marked": [1, 0], "freq": [["01", 2], ["11", 1]]},
        {"kind": "freq", "marked": [], "freq": [["01", 2], ["11", 1]]},
        {"kind": "freq", "marked": [0], "freq": []},
        {"kind": "freq", "marked": [0], "freq": [["01", 1], ["0", 2], ["110", 3]]},
        {"kind": "freq", "marked": [1], "freq": [["0101", 1], ["", 2]]},
        {"kind": "parity_vec", "rows": ["011", "110", "000"], "marked": [0, 2]},
    ]


def _dyadic(rng):
    return Fraction(rng.randrange(-24, 25), rng.choice([1, 1, 2, 4, 8]))


def _coeff(rng, exact):
    if exact or rng.random() < 0.5:
        return _dyadic(rng)
    if rng.random() < 0.5:
        return Fraction(round(rng.uniform(-3, 3), 3))  # the exact value of the double Python will use
    return Fraction(rng.randrange(-50, 51), rng.randrange(1, 13))


def _shots(rng, w, n):
    style = rng.random()
    if style < 0.1:
        pool = [format(rng.randrange(2 ** w), f"0{w}b")] if w else [""]
    else:
        k = rng.randrange(1, min(2 ** w, 6) + 1)
        pool = [format(rng.randrange(2 ** w), f"0{w}b") if w else "" for _ in range(k)]
    wts = [rng.choice([1, 1, 2, 5]) for _ in pool]
    return rng.choices(pool, weights=wts, k=n)


def _terms(rng, w, nt, exact):
    terms = []
    for _ in range(nt):
        r = rng.random()
        if r < 0.15 or w == 0:
            ops = []
        elif r < 0.3 and terms:
            ops = [list(o) for o in rng.choice(terms)["ops"]]  # repeated support
        else:
            qs = rng.sample(range(w), rng.randrange(1, min(w, 4) + 1))
            ops = [[q, "Z"] for q in qs]
        c = _coeff(rng, exact)
        if rng.random() < 0.05:
            c = Fraction(0)
        terms.append({"coeff": rat(Fraction(float(c))) if not exact else rat(c), "ops": ops})
    return terms


def generate(rng, tier):
    big = tier == "thorough"
    maxw, maxn, maxt = (8, 200, 7) if big else (6, 60, 5)
    cases = []
    # ---- expectation values / parities: valid stream
    for i in range(900 if big else 150):
        w = rng.randrange(1, maxw + 1)
        exact = rng.random() < 0.4
        if exact:
            n = rng.choice([1, 2, 4, 8, 16, 32, 64] + ([128] if big else []))
        else:
            n = rng.choice([1, 2, 3, rng.randrange(1, maxn + 1), rng.randrange(1, maxn + 1)])
        nt = rng.randrange(0, maxt + 1) if rng.random() < 0.1 else rng.randrange(2, maxt + 1)
        terms = _terms(rng, w, nt, exact)
        bessel = rng.random() < 0.4
        c = {"kind": "ev", "shots": _shots(rng, w, n), "terms": terms, "bessel": bessel, "exact": exact and not bessel}
        if nt == 1:
            c["single"] = rng.random() < 0.5
        cases.append(c)
    # ---- wide registers: qubit indices of several digits, supports that differ only in how their digits group
    #      ({1,2} vs {12}, {1,13} vs {11,3}); few shots keep it cheap
    for i in range(60 if big else 12):
        w = rng.randrange(13, 25)
        n = rng.choice([1, 2, 4, 8, rng.randrange(1, 12)])
        a, b = rng.randrange(1, 3), rng.randrange(0, 10)
        pairs = [[[a, b], [10 * a + b]]] if 10 * a + b < w and a != b else []
        terms = _terms(rng, w, rng.randrange(1, 4), True)
        for grp in pairs:
            for qs in grp:
                terms.append({"coeff": rat(Fraction(rng.randrange(-12, 13), 4)), "ops": [[q, "Z"] for q in qs]})
        rng.shuffle(terms)
        cases.append({"kind": "ev", "shots": _shots(rng, w, n), "terms": terms, "bessel": False, "exact": n in (1, 2, 4, 8)})
        cases.append({"kind": "parities", "shots": _shots(rng, w, n), "terms": terms})
    for i in range(500 if big else 80):
        w = rng.randrange(1, maxw + 1)
        n = rng.choice([1, 2, rng.randrange(1, maxn + 1)])
        cases.append({"kind": "parities", "shots": _shots(rng, w, n), "terms": _terms(rng, w, rng.randrange(1, maxt + 1), True)})
    # ---- counts / add_counts / distribution
    for i in range(400 if big else 60):
        w = rng.randrange(0 if rng.random() < 0.05 else 1, maxw + 1)
        n = rng.choice([0, 1, 2, rng.randrange(1, maxn + 1), rng.randrange(1, maxn + 1)])
        shots = _shots(rng, w, n)
        cases.append({"kind": "counts", "shots": shots})
        cases.append({"kind": "dist", "shots": shots})
        keys = list(dict.fromkeys(_shots(rng, w, rng.randrange(0, 6))))
        counts = [[k, rng.choice([0, 1, 1, 2, 3, 7, -1]) if rng.random() < 0.3 else rng.randrange(1, 9)] for k in keys]
        cases.append({"kind": "add_counts", "shots": shots[: rng.randrange(0, 4)], "counts": counts})
    # ---- frequencies observable and the vectorised parity
    for i in range(400 if big else 60):
        w = rng.randrange(1, maxw + 1)
        keys = list(dict.fromkeys(_shots(rng, w, rng.randrange(1, 8))))
        freq = [[k, rng.randrange(1, 40)] for k in keys]
        marked = rng.sample(range(w), rng.randrange(0, w + 1))
        cases.append({"kind": "freq", "marked": marked, "freq": freq, "as_set": rng.random() < 0.5})
        rows = _shots(rng, w, rng.randrange(1, 10))
        cases.append({"kind": "parity_vec", "rows": rows, "marked": rng.sample(range(w), rng.randrange(0, w + 1))})
    # ---- malformed / boundary stream
    for i in range(200 if big else 40):
        w = rng.randrange(1, 5)
        n = rng.randrange(1, 10)
        r = rng.randrange(8)
        terms = _terms(rng, w, rng.randrange(1, 4), True)
        shots = _shots(rng, w, n)
        kind = rng.choice(["ev", "parities"])
        if r == 0:  # non-Ising
            terms[rng.randrange(len(terms))]["ops"] = [[rng.randrange(w), rng.choice(["X", "Y"])]]
        elif r == 1:  # a qubit outside the measured width
            terms[rng.randrange(len(terms))]["ops"].append([w + rng.randrange(0, 2), "Z"])
        elif r == 2:  # zero shots
            shots = []
        elif r == 3:  # a single shot with Bessel's correction: covariances undefined
            shots, kind = shots[:1], "ev"
        elif r == 4:  # width 0 (only constant operators make sense)
            shots = [""] * n
            terms = [{"coeff": t["coeff"], "ops": []} for t in terms]
        elif r == 5:  # frequencies with ragged keys / zero totals
            keys = list(dict.fromkeys(_shots(rng, w, 3) + _shots(rng, rng.randrange(0, 4), 2)))
            zero = rng.random() < 0.3
            cases.append({"kind": "freq", "marked": [0] if rng.random() < 0.7 else [],
                          "freq": [[k, 0 if zero else rng.randrange(0, 4)] for k in keys]})
            continue
        elif r == 6:  # frequencies: marked qubit outside, repeated marks
            keys = list(dict.fromkeys(_shots(rng, w, 3)))
            cases.append({"kind": "freq", "marked": [rng.randrange(0, w + 2) for _ in range(rng.randrange(1, 4))],
                          "freq": [[k, rng.randrange(1, 5)] for k in keys]})
            continue
        else:  # empty operator
            terms = []
        c = {"kind": kind, "shots": shots, "terms": terms}
        if kind == "ev":
            c.update({"bessel": r == 3 or rng.random() < 0.3, "exact": False})
        cases.append(c)
    return cases


def _overlap(terms):
    sup = [set(q for q, _ in t["ops"]) for t in terms]
    return any(sup[i] & sup[j] for i in range(len(sup)) for j in range(i))


def nontrivial(c):
    k = c["kind"]
    if k in ("ev", "parities"):
        return len(c["terms"]) >= 2 and _overlap(c["terms"]) and len(set(c["shots"])) >= 2
    if k in ("counts", "dist"):
        return len(set(c["shots"])) >= 2 and len(set(c["shots"])) < len(c["shots"])
    if k == "add_counts":
        return len(c["counts"]) >= 2 and any(v >= 2 for _, v in c["counts"])
    if k == "freq":
        return len(c["marked"]) >= 2 and len(c["freq"]) >= 2
    if k == "parity_vec":
        return len(c["marked"]) >= 2 and len(set(c["rows"])) >= 2
    return False


# ------------------------------------------------------------------ implementation
def _tuples(shots):
    return [tuple(int(ch) for ch in s) for s in shots]


def _strs(tuples):
    return ["".join(str(int(b)) for b in t) for t in tuples]


def _num(x):
    """exact value of a python/numpy real as 'p/q'; non-finite -> None"""
    x = float(x)
    if not math.isfinite(x):
        return None
    return rat(Fraction(x))


def _cnum(z):
    """a complex entry: (real part, imaginary part is exactly zero?)"""
    z = complex(z)
    if not (math.isfinite(z.real) and math.isfinite(z.imag)):
        return None
    return [rat(Fraction(z.real)), rat(Fraction(z.imag))]


def _operator(c, PauliSum, PauliTerm):
    ts = []
    for t in c["terms"]:
        f = unrat(t["coeff"])
        coef = int(f) if (f.denominator == 1 and c.get("exact")) else float(f)
        ts.append(PauliTerm({int(q): l for q, l in t["ops"]}, coef))
    if c.get("single") and len(ts) == 1:
        return ts[0]
    return PauliSum(ts)


def run_impl(c):
    np, Measurements, mm, pp, PauliSum, PauliTerm = _mods()
    k = c["kind"]
    try:
        with warnings.catch_warnings():
            warnings.simplefilter("ignore")
            if k == "ev":
                m = Measurements(_tuples(c["shots"]))
                before = list(m.bitstrings)
                ev = m.get_expectation_values(_operator(c, PauliSum, PauliTerm), c["bessel"])
                vals = np.asarray(ev.values)
                return {"values": [_cnum(v) for v in vals.tolist()] if vals.size else [],
                        "n_corr": len(ev.correlations), "n_cov": len(ev.estimator_covariances),
                        "correlations": [[_cnum(x) for x in row] for row in np.asarray(ev.correlations[0]).tolist()],
                        "covariances": [[_cnum(x) for x in row] for row in np.asarray(ev.estimator_covariances[0]).tolist()],
                        "shape": [list(vals.shape), list(np.asarray(ev.correlations[0]).shape),
                                  list(np.asarray(ev.estimator_covariances[0]).shape)],
                        "shots_intact": before == m.bitstrings}
            if k == "parities":
                p = pp.get_parities_from_measurements(_tuples(c["shots"]), _operator(c, PauliSum, PauliTerm))
                vals = np.asarray(p.values)
                return {"values": [[_num(a), _num(b)] for a, b in vals.tolist()] if vals.size else [],
                        "n_corr": len(p.correlations),
                        "correlations": [[[_num(a), _num(b)] for a, b in row] for row in np.asarray(p.correlations[0]).tolist()]}
            if k == "counts":
                m = Measurements(_tuples(c["shots"]))
                counts = m.get_counts()
                back = Measurements.from_counts(counts)
                return {"counts": [[kk, int(v)] for kk, v in counts.items()],
                        "back": _strs(back.bitstrings),
                        "back_counts": [[kk, int(v)] for kk, v in back.get_counts().items()]}
            if k == "add_counts":
                m = Measurements(_tuples(c["shots"]))
                m.add_counts({kk: v for kk, v in c["counts"]})
                fresh = Measurements.from_counts({kk: v for kk, v in c["counts"]})
                return {"bitstrings": _strs(m.bitstrings), "counts": [[kk, int(v)] for kk, v in m.get_counts().items()],
                        "from_counts": _strs(fresh.bitstrings)}
            if k == "dist":
                m = Measurements(_tuples(c["shots"]))
                d = m.get_distribution().distribution_dict
                return {"dist": [["".join(str(int(b)) for b in kk), _num(v)] for kk, v in d.items()]}
            if k == "freq":
                v = mm.get_expectation_value_from_frequencies(set(c["marked"]) if c.get("as_set") else list(c["marked"]),
                                                              {kk: v for kk, v in c["freq"]})
                return {"value": _num(v), "is_float": isinstance(v, float)}
            if k == "parity_vec":
                arr = np.array(_tuples(c["rows"]), dtype=int)
                v = pp.check_parity_of_vector(arr, list(c["marked"]))
                return {"parity": [_num(x) for x in np.asarray(v).tolist()]}
    except TypeError as e:
        return {"err": "err:type", "msg": str(e)[:100]}
    except IndexError as e:
        return {"err": "err:index", "msg": str(e)[:100]}
    except ValueError as e:
        return {"err": "err:value", "msg": str(e)[:100]}
    except RuntimeError as e:
        return {"err": "err:runtime", "msg": str(e)[:100]}
    raise AssertionError("unknown kind")


# ------------------------------------------------------------------ model
def requests(c, out):
    k = c["kind"]
    if k == "ev":
        return [("expectation_values", {"shots": c["shots"], "terms": c["terms"], "bessel": c["bessel"]})]
    if k == "parities":
        return [("parities", {"shots": c["shots"], "terms": c["terms"]})]
    if k == "counts":
        r = [("counts", {"shots": c["shots"]})]
        if "counts" in out:
            r.append(("add_counts", {"shots": [], "counts": out["counts"]}))
        return r
    if k == "add_counts":
        return [("add_counts", {"shots": c["shots"], "counts": c["counts"]}),
                ("add_counts", {"shots": [], "counts": c["counts"]})]
    if k == "dist":
        return [("distribution", {"shots": c["shots"]})]
    if k == "freq":
        return [("freq_expectation", {"marked": c["marked"], "freq": c["freq"]})]
    if k == "parity_vec":
        return [("check_parity", {"rows": c["rows"], "marked": c["marked"]})]
    return []


def _close(impl, model, exact):
    """impl: 'p/q' (exact value of the double) or None; model: 'p/q' or None"""
    if impl is None or model is None:
        return impl is None and model is None
    a, b = unrat(impl), unrat(model)
    if exact:
        return a == b
    return abs(a - b) <= Fraction(TOL) * (1 + abs(b))


def _cclose(impl, model, exact):
    if impl is None or model is None:
        return impl is None and model is None
    return unrat(impl[1]) == 0 and _close(impl[0], model, exact)


def compare(c, out, resp):
    for r in resp:
        if isinstance(r, dict) and "driver_error" in r:
            return "driver error: " + r["driver_error"]
    k = c["kind"]
    r = resp[0]
    if isinstance(r, str) and (r.startswith("err:") or r == "nan"):  # the model predicts an exception (or NaN)
        got = out.get("err")
        if k == "freq" and r == "nan":
            return None if ("value" in out and out["value"] is None) else f"model: NaN, impl {out}"
        if got != r:
            return f"{k}: model predicts {r}, impl {out}"
        return None
    if "err" in out:
        return f"{k}: impl raised {out}, model returned {str(r)[:200]}"
    if k == "ev":
        ex = bool(c.get("exact"))
        nt = len(c["terms"])
        if out["shape"] != [[nt], [nt, nt], [nt, nt]] or out["n_corr"] != 1 or out["n_cov"] != 1:
            return f"get_expectation_values: shapes {out['shape']} for {nt} terms"
        if len(r["values"]) != nt or any(not _cclose(a, b, ex) for a, b in zip(out["values"], r["values"])):
            return f"get_expectation_values: values impl {out['values']} model {r['values']}"
        for name in ("correlations", "covariances"):
            for ri, rm in zip(out[name], r[name]):
                if len(ri) != len(rm) or any(not _cclose(a, b, ex) for a, b in zip(ri, rm)):
                    return f"get_expectation_values: {name} impl {out[name]} model {r[name]}"
    elif k == "parities":
        want_v = [[rat(a), rat(b)] for a, b in r["values"]]
        want_c = [[[rat(a), rat(b)] for a, b in row] for row in r["correlations"]]
        if out["values"] != want_v or out["correlations"] != want_c or out["n_corr"] != 1:
            return f"get_parities_from_measurements: impl {out} model {r}"
    elif k == "counts":
        if out["counts"] != r["counts"] or r["total"] != [len(c["shots"])]:
            return f"get_counts: impl {out['counts']} model {r}"
        r2 = resp[1]
        if out["back"] != r2["bitstrings"] or out["back_counts"] != r2["counts"]:
            return f"from_counts(get_counts()): impl {out['back']} model {r2}"
    elif k == "add_counts":
        if out["bitstrings"] != r["bitstrings"] or out["counts"] != r["counts"]:
            return f"add_counts: impl {out} model {r}"
        if out["from_counts"] != resp[1]["bitstrings"]:
            return f"from_counts: impl {out['from_counts']} model {resp[1]['bitstrings']}"
    elif k == "dist":
        if [kk for kk, _ in out["dist"]] != [kk for kk, _ in r]:
            return f"get_distribution: keys impl {out['dist']} model {r}"
        for (_, a), (_, b) in zip(out["dist"], r):
            if a is None or abs(unrat(a) - unrat(b)) > Fraction(1, 10 ** 12):
                return f"get_distribution: impl {out['dist']} model {r}"
    elif k == "freq":
        if not _close(out["value"], r, False):
            return f"get_expectation_value_from_frequencies: impl {out} model {r}"
    elif k == "parity_vec":
        if out["parity"] != [rat(x) for x in r]:
            return f"check_parity_of_vector: impl {out} model {r}"
    return None


# ------------------------------------------------------------------ oracle (the property's sentences, by loops)
def _eig(shot, qubits):
    v = 1
    for q in qubits:
        v *= 1 - 2 * int(shot[q])
    return v


def _domain(c):
    """(in_domain, width) for shot lists + operators"""
    shots = c["shots"]
    ws = {len(s) for s in shots}
    if len(ws) > 1:
        return False, None
    w = ws.pop() if ws else None
    for t in c["terms"]:
        for q, l in t["ops"]:
            if l != "Z" or (w is not None and q >= w):
                return False, w
    return True, w


def _near(impl, want):
    if impl is None:
        return False
    if unrat(impl[1]) != 0:
        return False
    return abs(unrat(impl[0]) - want) <= Fraction(TOL) * (1 + abs(want))


def oracle(c, out):
    k = c["kind"]
    if "exc" in out:
        return (f"{k}-unexpected-exception", f"{k}: implementation raised {out}")
    if k == "ev":
        ok, w = _domain(c)
        shots, n = c["shots"], len(c["shots"])
        if not ok or n == 0:
            return None  # non-Ising, qubit outside the register, no shots: the sample mean is undefined
        if "err" in out:
            if w == 0:
                return ("ev-width0-raises", f"get_expectation_values on {n} shots of width 0 with a constant operator raised {out}; "
                        "a constant term must contribute exactly its coefficient")
            return ("ev-raises", f"get_expectation_values raised {out} on an in-domain input")
        if not out.get("shots_intact", True):
            return ("ev-mutates-shots", "get_expectation_values modified the measured bitstrings")
        cs = [unrat(t["coeff"]) for t in c["terms"]]
        if c.get("exact") is False:
            cs = [Fraction(float(x)) for x in cs]
        qs = [[q for q, _ in t["ops"]] for t in c["terms"]]
        nt = len(cs)
        if len(out["values"]) != nt or len(out["correlations"]) != nt or len(out["covariances"]) != nt:
            return ("ev-shape", f"{nt} terms but result shapes {out['shape']}")
        means = []
        for i in range(nt):
            tot = Fraction(0)
            for s in shots:
                tot += _eig(s, qs[i])
            want = cs[i] * tot / n
            means.append(want)
            if not _near(out["values"][i], want):
                sig = "ev-constant-term" if not qs[i] else "ev-value"
                return (sig, f"term {i} (qubits {qs[i]}, coefficient {cs[i]}): reported {out['values'][i]}, "
                        f"coefficient x sample mean = {want}")
        for i in range(nt):
            for j in range(nt):
                tot = Fraction(0)
                for s in shots:
                    tot += (cs[i] * _eig(s, qs[i])) * (cs[j] * _eig(s, qs[j]))
                corr = tot / n
                if len(out["correlations"][i]) != nt or not _near(out["correlations"][i][j], corr):
                    return ("ev-correlation", f"correlation[{i}][{j}] reported {out['correlations'][i][j]}, "
                            f"sample mean of the product = {corr}")
                den = n - 1 if c["bessel"] else n
                if den != 0:
                    cov = (corr - means[i] * means[j]) / den
                    if len(out["covariances"][i]) != nt or not _near(out["covariances"][i][j], cov):
                        return ("ev-covariance", f"covariance[{i}][{j}] reported {out['covariances'][i][j]}, "
                                f"(correlation - product of means)/{den} = {cov}")
    elif k == "parities":
        ok, w = _domain(c)
        if not ok:
            return None
        shots = c["shots"]
        if "err" in out:
            if not shots:
                return ("parities-zero-shots-raise", f"get_parities_from_measurements([]) raised {out}; every tally is 0")
            return ("parities-raise", f"get_parities_from_measurements raised {out} on an in-domain input")
        qs = [[q for q, _ in t["ops"]] for t in c["terms"]]
        nt = len(qs)
        if len(out["values"]) != nt:
            return ("parities-shape", f"{nt} terms, {len(out['values'])} tallies")
        for i in range(nt):
            even = sum(1 for s in shots if sum(int(s[q]) for q in qs[i]) % 2 == 0)
            odd = len(shots) - even
            if out["values"][i] != [even, odd]:
                return ("parities-term", f"term {i} (qubits {qs[i]}): tallies {out['values'][i]}, shots with even/odd parity {[even, odd]}")
        for i in range(nt):
            for j in range(nt):
                even = sum(1 for s in shots
                           if (sum(int(s[q]) for q in qs[i]) + sum(int(s[q]) for q in qs[j])) % 2 == 0)
                odd = len(shots) - even
                if out["correlations"][i][j] != [even, odd]:
                    return ("parities-pair", f"pair ({i},{j}): tallies {out['correlations'][i][j]}, expected {[even, odd]}")
    elif k == "counts":
        shots = c["shots"]
        if "err" in out:
            return ("counts-raise", f"get_counts/from_counts raised {out}")
        got = dict((kk, v) for kk, v in out["counts"])
        if len(got) != len(out["counts"]):
            return ("counts-duplicate-key", "a key appears twice")
        if sum(got.values()) != len(shots):
            return ("counts-sum", f"counts sum to {sum(got.values())}, {len(shots)} shots")
        for kk in set(shots) | set(got):
            want = sum(1 for s in shots if s == kk)
            if got.get(kk, 0) != want or (kk in got and want == 0):
                return ("counts-value", f"count of {kk!r} is {got.get(kk)}, occurs {want} times")
        if sorted(out["back"]) != sorted(shots):
            return ("counts-roundtrip", f"from_counts(get_counts()) holds {sorted(out['back'])}, shots were {sorted(shots)}")
        if dict(map(tuple, out["back_counts"])) != got:
            return ("counts-roundtrip", "get_counts(from_counts(counts)) differs from counts")
    elif k == "add_counts":
        if "err" in out:
            return ("add-counts-raise", f"add_counts raised {out}")
        want = list(c["shots"])
        for kk, v in c["counts"]:
            want += [kk] * max(v, 0)
        if sorted(out["bitstrings"]) != sorted(want):
            return ("add-counts", f"after add_counts the shots are {sorted(out['bitstrings'])}, expected {sorted(want)}")
        if dict(map(tuple, out["counts"])) != dict(Counter(want)):
            return ("add-counts", f"counts after add_counts {out['counts']} expected {dict(Counter(want))}")
        fresh = [kk for kk, v in c["counts"] for _ in range(max(v, 0))]
        if sorted(out["from_counts"]) != sorted(fresh):
            return ("from-counts", f"from_counts holds {sorted(out['from_counts'])}, expected {sorted(fresh)}")
    elif k == "dist":
        shots = c["shots"]
        if not shots or len({len(s) for s in shots}) > 1:
            return None
        if "err" in out:
            return ("dist-raise", f"get_distribution raised {out}")
        got = dict(map(tuple, out["dist"]))
        cnt = Counter(shots)
        if set(got) != set(cnt):
            return ("dist-keys", f"distribution keys {sorted(got)} vs measured {sorted(cnt)}")
        for kk, v in cnt.items():
            if got[kk] is None or abs(unrat(got[kk]) - Fraction(v, len(shots))) > Fraction(1, 10 ** 12):
                return ("dist-value", f"P({kk}) = {got[kk]}, count/shots = {v}/{len(shots)}")
    elif k == "freq":
        freq = c["freq"]
        ws = {len(kk) for kk, _ in freq}
        tot = sum(v for _, v in freq)
        if len(ws) != 1 or tot <= 0 or any(v < 0 for _, v in freq):
            return None
        w = ws.pop()
        if any(q >= w for q in c["marked"]):
            return None
        if "err" in out:
            if w == 0:
                return ("ev-width0-raises", f"get_expectation_value_from_frequencies on width-0 keys raised {out}")
            return ("freq-raise", f"get_expectation_value_from_frequencies raised {out}")
        want = sum(Fraction(v) * _eig(kk, c["marked"]) for kk, v in freq) / tot
        if out["value"] is None or abs(unrat(out["value"]) - want) > Fraction(TOL):
            return ("freq-value", f"expectation {out['value']}, weighted mean of eigenvalues {want}")
    elif k == "parity_vec":
        if "err" in out:
            return ("parity-vec-raise", f"check_parity_of_vector raised {out}")
        want = [1 if sum(int(r[q]) for q in c["marked"]) % 2 == 0 else 0 for r in c["rows"]]
        if out["parity"] != want:
            return ("parity-vec", f"parity {out['parity']} expected {want}")
    return None


def distribution(cases, outs):
    errs = Counter(o.get("err") for o in outs if isinstance(o, dict) and o.get("err"))
    ev = [c for c in cases if c["kind"] == "ev"]
    return {"error_kinds": dict(errs),
            "ev_cases": len(ev), "ev_bessel": sum(1 for c in ev if c["bessel"]),
            "ev_exact_compared": sum(1 for c in ev if c.get("exact")),
            "ev_with_constant_term": sum(1 for c in ev if any(not t["ops"] for t in c["terms"])),
            "ev_with_repeated_support": sum(1 for c in ev if len({tuple(sorted(q for q, _ in t["ops"])) for t in c["terms"]}) < len(c["terms"])),
            "max_shots": max((len(c.get("shots", [])) for c in cases), default=0),
            "max_width": max((len(s) for c in cases for s in c.get("shots", [])), default=0),
            "max_terms": max((len(c.get("terms", [])) for c in cases), default=0)}
