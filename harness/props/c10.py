"""C10 — statistics computed from measurements are the exact sample statistics."""
import math
import warnings
from collections import Counter
from fractions import Fraction

from .. import common
from ..common import rat, unrat

PROP = "C10"
RULE = ("seeded random shot lists (repetitions, idle qubits, single shot, all-equal shots) x Ising operators "
        "(overlapping, repeated, constant, zero-coefficient terms) per mechanism (ev / parities / counts / add_counts / "
        "dist / freq / parity_vec) plus a malformed stream (non-Ising, qubit outside the width, zero shots, one shot "
        "with Bessel, zero totals, ragged frequency keys, width 0); non-trivial: ev/parities with >=2 terms of which two "
        "overlap (share a qubit) and >=2 distinct shots; counts/add_counts/dist with a repeated shot and >=2 distinct "
        "shots; freq/parity_vec with >=2 marked qubits and >=2 distinct rows; histories on ONE Measurements object / ONE "
        "frequency dict / ONE bit array (query, replace / overwrite / drop-and-append shots keeping their number, add_counts, "
        "fresh object in place of a dead one, then every statistic again, each judged on the current content; returned "
        "dicts/arrays are overwritten after each call; operator objects are reused): non-trivial when a length-preserving "
        "change lies between two queries; magnitudes: coefficients scaled by 2^-60..2^40 / 1e-12..1e9 (whole operator or "
        "term by term, scale siblings of one operator on one Measurements object), 255..131073 shots (run-length coded: "
        "near-unanimous, split by one, few outcomes), frequencies up to 2^52 that differ by one, widths 9..70 on every API, "
        "numpy integer bits; wide registers (9..257) x nearly equal outcomes on every API: a base bitstring and siblings that "
        "differ from it in exactly one position just below / at / above 8, 16, 32, 53, 63, 64, 128 or in the first / last "
        "position, unequal multiplicities, terms / marked qubits on exactly those positions, a shot overwritten by its "
        "sibling on one Measurements object - all judged with tolerances proportional to |coefficient| resp. |c_i c_j|/denominator, never "
        "absolute; every call is repeated on the very same objects (ev: other flag, first flag again) and judged again, what a "
        "call handed out is overwritten and must stay overwritten; twin histories (object born from a list / from_counts / "
        "add_counts; same multiset rotated, two multiplicities exchanged, one outcome renamed, one bit exchanged between two "
        "shots, wider shots; the caller's PauliSum edited in place: coefficient moved by 2^-24, term appended / removed / two "
        "exchanged; twin operator objects); shapes and forms: 64..130 terms, 64..300 distinct outcomes, exactly one term as "
        "PauliTerm and as PauliSum, constant-only operators, python-int and numpy-scalar coefficients, terms equal up to 2^-24 "
        "/ below 1e-8 / identical on one support, histograms as Counter / OrderedDict / numpy counts, marked qubits as tuple "
        "/ set / frozenset, boolean bits; NUMBER TYPES on every API: bits as Python bool / numpy bool / int8..uint64 / mixed within a "
        "tuple / rows of a typed 2-d array (ev, parities, counts, dist, save, add_counts, histories; the library's tuple -> text memo "
        "is emptied around each such case), counts and frequencies as numpy int8..uint64 and bool up to the type's maximum, "
        "coefficients as numpy float32 / complex64 / int8..uint64 (up to the type's maximum) / Fraction / bool / one type per term, "
        "one Measurements object asked with equal-valued operators of several coefficient types, the parity bit array in every "
        "integer dtype and bool (up to 300 marked ones), marked qubits as numpy ints; "
        "second route: expectation values from the parity tallies; "
        "DEGENERATE DENOMINATORS on every route: 0 / 1 / 2 shots x both Bessel settings x operators (several terms with constants, constants "
        "only, one term as PauliTerm / PauliSum, rescaled, typed bits / coefficients) for get_expectation_values and the parity tallies, every "
        "one-shot get_expectation_values case of every stream is asked again with the other flag, ONE Measurements object shrinking to one "
        "shot / to none and growing again, frequencies with total 0 / 1 / 2 (all-zero dict, Counter, numpy counts, empty dict; ONE dict whose "
        "total passes through 0), Parities objects with [0, 0] tallies next to terms with 1 / 2 / many samples -> "
        "get_expectation_values_from_parities: wherever the divisor of a reported quantity is 0 a FINITE report is a failure (nan / inf / an "
        "exception are accepted); "
        "distinct = distinct canonical JSON of the case")
TRUSTED = [
    "numpy integer/float array arithmetic (sum, *, /, %, fancy indexing, reshape, 1-d broadcasting) computes the "
    "element-wise real-number operations up to double rounding (model compared within 1e-12 of the natural scale of each "
    "entry: |c_i| for values, |c_i c_j| for correlations, 4|c_i c_j|/denominator for covariances, (keys+2)e-14 for the mean "
    "from frequencies; exactly on dyadic inputs)",
    "collections.Counter / dict keep first-insertion order and count exact multiplicities (modelled as an association list)",
    "MeasurementOutcomeDistribution(d) keeps a dictionary whose values sum to 1 (math.isclose) unchanged and raises "
    "RuntimeError on {} or on keys of different lengths (its own behaviour belongs to C17)",
    "CPython int/int true division is within a RELATIVE 1e-12 of the exact quotient (distribution entries compared with that tolerance)",
    "PauliTerm.qubits is a set of distinct non-negative ints (hypothesis Nodup in the Lean theorems)",
    "degenerate denominators: math.isfinite on the real and imaginary part of a reported entry decides whether a number was reported; "
    "numpy's x / 0 on arrays yields nan (0 / 0) or +/-inf with a RuntimeWarning (suppressed), which the oracle reads as 'no value'",
    "number types: True == 1 and a numpy integer / bool equal to 0 or 1 IS that bit (int(b), hash and == agree with the Python int); numpy "
    "scalar arithmetic against Python numbers keeps the numpy type (NEP 50), and is exact where the result is representable in it - "
    "typed cases are generated so that it is, hence the model (exact rationals) answers them like any other case",
]
ASSUMPTIONS = ["coefficients are real; bits are 0/1; the eigenvalue of Z on bit b is 1-2b",
               "number types (established on the unchanged library): a bit may be a Python int / bool or a numpy bool / integer of any width "
               "(tuples of them, also the rows of a typed array turned into tuples; a 2-d ndarray or a list of ndarray rows in place of the "
               "list of tuples is refused with TypeError: unhashable - out of domain); a count may be a Python int / bool or a numpy "
               "integer (numpy bool, float, Fraction counts: TypeError - out of domain); a coefficient may be a Python int / float / bool / "
               "complex with zero imaginary part, a Fraction, or a numpy integer / float / complex scalar: numpy float32 / complex64 "
               "coefficients make the library compute in float32 (numpy keeps the narrower type against Python floats), so they are "
               "generated with dyadic values and 2^k <= 64 shots, where every intermediate result is exactly representable",
               "REPAIRED in /repo (f136005; a corpus case holds it): get_expectation_value_from_frequencies with frequencies given as "
               "numpy integers of a width their TOTAL does not fit (sum() of numpy scalars wraps: {'01': np.uint8(200), '11': np.uint8(100)} "
               "gave 2.27); generated typed frequencies still have totals inside the type",
               "degenerate denominators (recorded on the unchanged library): one shot with use_bessel_correction=True reports correct values and "
               "correlations and a covariance matrix whose every entry is nan+nanj (0/0; also for constant-only operators); 0 shots: "
               "get_expectation_values raises IndexError with either flag (nothing reported), get_parities_from_measurements raises IndexError "
               "(known finding parities-zero-shots-raise, unchanged), get_distribution raises RuntimeError; frequencies that are all 0 give nan, an "
               "empty frequency dict raises IndexError; get_expectation_values_from_parities raises ValueError as soon as one term has tallies "
               "[0, 0].  The property's quotients have no value there: the oracle accepts an exception or a non-finite entry and rejects a finite "
               "one (sample means / correlations of non-constant terms and every plain covariance at 0 shots, every covariance at 1 shot with "
               "Bessel's correction, the mean from frequencies with total 0, value and variance of a term with tallies [0, 0]); it does NOT judge a "
               "constant term's own value at 0 shots (the property gives it its coefficient) nor WHICH non-finite value / exception is chosen; "
               "an exception for one shot with Bessel's correction stays a failure as before (values and correlations have values there)",
               "Parities objects handed to get_expectation_values_from_parities hold an N x 2 numpy array of non-negative int / float tallies "
               "(as get_parities_from_measurements builds them); only its values are judged ((even - odd) / (even + odd)), and value + variance "
               "of terms without samples - its variance bound 1/N for few samples is not a sentence of the property",
               "theorems are over an arbitrary field of characteristic 0; the driver evaluates the same definitions at Rat"]
TOL = 1e-9
REL = Fraction(1, 10 ** 12)     # rounding allowance relative to the natural scale of an entry (about 4500 ulp)
TINY = Fraction(1, 10 ** 300)   # absolute slack for underflow only


def _mods():
    common.use_repo()
    import numpy as np
    from orquestra.quantum.measurements import Measurements
    from orquestra.quantum.measurements import measurements as mm
    from orquestra.quantum.measurements import parities as pp
    from orquestra.quantum.operators import PauliSum, PauliTerm
    return np, Measurements, mm, pp, PauliSum, PauliTerm


# ------------------------------------------------------------------ cases
def _t(coeff, ops):
    return {"coeff": rat(Fraction(coeff)), "ops": [[q, l] for q, l in ops]}


def corpus():
    z = lambda *qs: [(q, "Z") for q in qs]  # noqa: E731
    return [
        {"kind": "ev", "shots": ["01", "11", "01", "10"], "bessel": False, "exact": True,
         "terms": [_t(2, z(0)), _t(Fraction(1, 2), z(0, 1)), _t(3, []), _t(2, z(0))]},
        {"kind": "ev", "shots": ["01", "11", "01"], "bessel": True, "exact": False,
         "terms": [_t(2, z(0)), _t(Fraction(-3, 4), z(1, 0)), _t(0.1, z(1))]},
        {"kind": "ev", "shots": ["011"], "bessel": True, "exact": False, "terms": [_t(1, z(0)), _t(1, z(1, 2))]},
        {"kind": "ev", "shots": ["011", "000"], "bessel": False, "exact": True, "terms": [_t(1, z(2)), _t(5, [])], "single": False},
        {"kind": "ev", "shots": ["0", "1", "1"], "bessel": False, "exact": False, "terms": [_t(-2, z(0))], "single": True},
        {"kind": "ev", "shots": [], "bessel": False, "exact": False, "terms": [_t(1, z(0))]},
        {"kind": "ev", "shots": [], "bessel": False, "exact": False, "terms": []},
        {"kind": "ev", "shots": ["01"], "bessel": False, "exact": False, "terms": [_t(1, z(2))]},
        {"kind": "ev", "shots": ["01"], "bessel": False, "exact": False, "terms": [_t(1, [(0, "X")])]},
        # width 0 with a constant operator: in the quantifier ("any width", "constant terms"), the code raises
        {"kind": "ev", "shots": ["", ""], "bessel": False, "exact": False, "terms": [_t(3, [])]},
        {"kind": "parities", "shots": ["01", "11", "01", "10"],
         "terms": [_t(2, z(0)), _t(Fraction(1, 2), z(0, 1)), _t(3, []), _t(2, z(0))]},
        # zero shots: every tally is 0; the code raises for a non-constant term
        {"kind": "parities", "shots": [], "terms": [_t(1, z(0))]},
        {"kind": "parities", "shots": [], "terms": [_t(1, [])]},
        {"kind": "parities", "shots": ["", ""], "terms": [_t(1, [])]},
        {"kind": "counts", "shots": ["01", "11", "01", "10", "01"]},
        {"kind": "counts", "shots": []},
        {"kind": "add_counts", "shots": ["01"], "counts": [["01", 2], ["11", 0], ["10", -1], ["00", 1]]},
        {"kind": "dist", "shots": ["01", "11", "01"]},
        {"kind": "dist", "shots": []},
        {"kind": "dist", "shots": ["", ""]},
        {"kind": "freq", "marked": [0], "freq": [["01", 0], ["11", 0]]},
        {"kind": "freq", "marked": [1, 0], "freq": [["01", 2], ["11", 1]]},
        {"kind": "freq", "marked": [], "freq": [["01", 2], ["11", 1]]},
        {"kind": "freq", "marked": [0], "freq": []},
        {"kind": "freq", "marked": [0], "freq": [["01", 1], ["0", 2], ["110", 3]]},
        {"kind": "freq", "marked": [1], "freq": [["0101", 1], ["", 2]]},
        {"kind": "parity_vec", "rows": ["011", "110", "000"], "marked": [0, 2]},
        # one Measurements object: statistic, another batch of the SAME size, every statistic again
        {"kind": "history", "init": [["00", "01", "11", "00"]],
         "operators": [[_t(2, z(0)), _t(3, z(1)), _t(Fraction(1, 2), z(0, 1))]],
         "steps": [{"do": "counts"}, {"do": "dist"}, {"do": "ev", "op": 0, "bessel": False},
                   {"do": "replace", "shots": ["10", "10", "11", "10"]},
                   {"do": "counts"}, {"do": "dist"}, {"do": "ev", "op": 0, "bessel": False}, {"do": "parities", "op": 0},
                   {"do": "save"}, {"do": "add_counts", "counts": [["01", 2]]}, {"do": "counts"}, {"do": "ev", "op": 0, "bessel": True}]},
        # one shot overwritten in place, then k shots dropped and k others appended
        {"kind": "history", "init": [["00", "00", "11"]], "operators": [[_t(1, z(0)), _t(-1, z(0, 1)), _t(4, [])]],
         "steps": [{"do": "ev", "op": 0, "bessel": False}, {"do": "setitem", "index": 0, "shot": "01"},
                   {"do": "counts"}, {"do": "dist"}, {"do": "ev", "op": 0, "bessel": False}, {"do": "parities", "op": 0},
                   {"do": "swap", "drop": 2, "shots": ["10", "10"]},
                   {"do": "dist"}, {"do": "counts"}, {"do": "ev", "op": 0, "bessel": True}, {"do": "save"}]},
        # two objects with equally many shots, one replaced by a fresh object
        {"kind": "history", "init": [["0", "1", "1"], ["0", "0", "0"]], "operators": [[_t(1, z(0))]],
         "steps": [{"do": "counts", "obj": 0}, {"do": "counts", "obj": 1}, {"do": "new", "obj": 0, "shots": ["0", "0", "1"]},
                   {"do": "counts", "obj": 0}, {"do": "ev", "obj": 0, "op": 0, "bessel": False}, {"do": "dist", "obj": 1}]},
        {"kind": "freq_history", "freq": [["01", 2], ["11", 1]],
         "steps": [{"do": "query", "marked": [0]}, {"do": "set", "key": "11", "value": 6}, {"do": "query", "marked": [0]},
                   {"do": "copy"}, {"do": "set", "key": "00", "value": 3}, {"do": "query", "marked": [0, 1], "as_set": True}]},
        {"kind": "pv_history", "rows": ["011", "110"],
         "steps": [{"do": "query", "marked": [0, 2]}, {"do": "flip", "row": 0, "col": 0}, {"do": "query", "marked": [0, 2]}]},
        # ---- other orders of magnitude: small, large and mixed coefficients (all statistics scale with them)
        {"kind": "ev", "shots": ["10", "01", "11", "10", "00"], "bessel": False, "exact": False,
         "terms": [_t(Fraction(1, 4096), z(0)), _t(Fraction(-3, 8192), z(0, 1)), _t(Fraction(1, 100000), z(1)), _t(Fraction(1, 2048), [])]},
        {"kind": "ev", "shots": ["10", "01", "11", "10", "00"], "bessel": True, "exact": False,
         "terms": [_t(Fraction(1, 4096), z(0)), _t(Fraction(-3, 8192), z(0, 1)), _t(Fraction(1, 100000), z(1)), _t(Fraction(1, 2048), [])]},
        {"kind": "ev", "shots": ["110", "011", "011", "000"], "bessel": False, "exact": True,
         "terms": [_t(Fraction(5, 2 ** 42), z(0, 2)), _t(3 * 2 ** 30, z(2)), _t(Fraction(-7, 4), z(0, 1)), _t(Fraction(1, 2 ** 50), z(1))]},
        {"kind": "ev", "shots": ["01", "11", "00"], "bessel": True, "exact": False, "np_bits": True,
         "terms": [_t(2500000, z(0)), _t(Fraction(1, 10 ** 9), z(1)), _t(Fraction(7, 10 ** 8), z(0, 1)), _t(0, z(1))]},
        # ---- very many shots: means next to +/-1 and next to 0, covariances ~ 1/shots^2, probabilities ~ 1/shots
        {"kind": "ev", "rle": [["011", 69999], ["110", 2]], "bessel": False, "exact": False,
         "terms": [_t(1, z(0)), _t(1, z(0, 1)), _t(-2, z(2)), _t(3, [])]},
        {"kind": "ev", "rle": [["01", 50001], ["10", 50000]], "bessel": True, "exact": False,
         "terms": [_t(1, z(0)), _t(Fraction(1, 2), z(1)), _t(1, z(0, 1))]},
        {"kind": "parities", "rle": [["011", 65536], ["110", 1], ["111", 65536]], "terms": [_t(1, z(0)), _t(1, z(0, 1)), _t(1, [])]},
        {"kind": "counts", "rle": [["011", 65537], ["110", 1]]},
        {"kind": "dist", "rle": [["01", 99999], ["10", 1], ["11", 3]]},
        {"kind": "add_counts", "shots": ["01"], "counts": [["01", 70000], ["10", 65536]]},
        # ---- frequencies that nearly cancel / one dominant outcome: the mean is tiny resp. next to 1, not 0 resp. 1
        {"kind": "freq", "marked": [0], "freq": [["01", 10 ** 12 + 1], ["11", 10 ** 12]]},
        {"kind": "freq", "marked": [1, 0], "freq": [["01", 2 ** 50], ["11", 3], ["10", 1]], "as_set": True},
        {"kind": "freq", "marked": [0], "freq": [["0", 500000001], ["1", 499999999]]},
        # ---- wide registers on the other APIs
        {"kind": "counts", "shots": ["0" * 64 + "1", "0" * 64 + "1", "1" + "0" * 64]},
        {"kind": "dist", "shots": ["0" * 32 + "1", "0" * 32 + "1", "0" * 33]},
        {"kind": "freq", "marked": [69, 3], "freq": [["0" * 69 + "1", 3], ["0" * 70, 1]]},
        {"kind": "parity_vec", "rows": ["0" * 69 + "1", "0" * 70, "1" * 70], "marked": [69, 64, 0]},
        # ---- outcomes that differ only beyond / only before a position boundary, unequal multiplicities
        {"kind": "counts", "shots": ["0" * 66, "0" * 65 + "1", "0" * 66, "0" * 64 + "10", "0" * 66, "0" * 65 + "1"]},
        {"kind": "dist", "shots": ["1" + "0" * 69, "0" * 70, "0" * 70, "0" * 69 + "1", "0" * 70, "0" * 69 + "1"]},
        {"kind": "add_counts", "shots": [], "counts": [["1" * 129, 3], ["0" + "1" * 128, 2], ["1" * 128 + "0", 1]]},
        {"kind": "ev", "shots": ["0" * 66, "0" * 65 + "1", "0" * 66, "0" * 64 + "10", "0" * 66], "bessel": False, "exact": False,
         "terms": [_t(2, z(65)), _t(-1, z(64)), _t(Fraction(1, 2), z(64, 65)), _t(3, z(0, 65))]},
        {"kind": "parities", "shots": ["0" * 66, "0" * 65 + "1", "0" * 66, "0" * 64 + "10", "0" * 66],
         "terms": [_t(2, z(65)), _t(-1, z(64)), _t(1, z(64, 65))]},
        {"kind": "freq", "marked": [64], "freq": [["0" * 65, 5], ["0" * 64 + "1", 2], ["1" + "0" * 64, 1]]},
        {"kind": "parity_vec", "rows": ["0" * 130, "0" * 128 + "10", "0" * 129 + "1", "1" + "0" * 129], "marked": [128, 129]},
        # ---- twins on one object: born from from_counts, then the same multiset rotated, two multiplicities exchanged, one
        #      outcome renamed, one bit exchanged between two shots; the caller's operator edited in place
        {"kind": "history", "init": [["01", "11", "01", "00", "01", "11"]], "init_via": ["from_counts"],
         "operators": [[_t(2, z(0)), _t(-1, z(0, 1)), _t(3, [])], [_t(2 + Fraction(1, 2 ** 23), z(0)), _t(-1 - Fraction(1, 2 ** 24), z(0, 1)), _t(3, [])]],
         "steps": [{"do": "counts"}, {"do": "ev", "op": 0, "bessel": False}, {"do": "ev", "op": 1, "bessel": False}, {"do": "parities", "op": 0},
                   {"do": "assign", "shots": ["11", "11", "00", "01", "01", "01"]}, {"do": "counts"}, {"do": "dist"}, {"do": "ev", "op": 0, "bessel": True},
                   {"do": "assign", "shots": ["01", "01", "00", "11", "11", "11"]}, {"do": "counts"}, {"do": "dist"}, {"do": "ev", "op": 0, "bessel": False},
                   {"do": "assign", "shots": ["01", "01", "10", "11", "11", "11"]}, {"do": "counts"}, {"do": "parities", "op": 0}, {"do": "ev", "op": 0, "bessel": False},
                   {"do": "assign", "shots": ["00", "01", "10", "11", "11", "11"]}, {"do": "counts"}, {"do": "dist"}, {"do": "ev", "op": 0, "bessel": False},
                   {"do": "op_coeff", "op": 0, "term": 0, "coeff": rat(2 + Fraction(1, 2 ** 23))}, {"do": "ev", "op": 0, "bessel": False},
                   {"do": "op_append", "op": 0, "new": _t(5, z(1))}, {"do": "ev", "op": 0, "bessel": False}, {"do": "parities", "op": 0},
                   {"do": "op_swap", "op": 0, "i": 0, "j": 3}, {"do": "ev", "op": 0, "bessel": True},
                   {"do": "op_pop", "op": 0, "term": 1}, {"do": "ev", "op": 0, "bessel": False}, {"do": "parities", "op": 0},
                   {"do": "add_counts", "counts": [["10", 2], ["00", 1]], "counts_as": "np"}, {"do": "counts"}, {"do": "ev", "op": 0, "bessel": False}]},
        {"kind": "history", "init": [["0", "1", "1"]], "init_via": ["add_counts"], "operators": [[_t(1, z(0))]],
         "steps": [{"do": "counts"}, {"do": "extend", "shots": ["0", "0"]}, {"do": "counts"}, {"do": "dist"}, {"do": "ev", "op": 0, "bessel": False},
                   {"do": "setitem", "index": 1, "shot": "0"}, {"do": "counts"}, {"do": "ev", "op": 0, "bessel": True}]},
        # ---- special shapes and forms: one term as PauliTerm / PauliSum, constants only, integer and numpy coefficients,
        #      terms that are equal up to every tolerance, histograms as Counter / numpy counts, marked qubits as tuple / frozenset
        {"kind": "ev", "shots": ["01", "11", "01"], "bessel": True, "exact": False, "terms": [_t(Fraction(3, 2), z(0, 1))], "single": True},
        {"kind": "ev", "shots": ["01", "11", "01"], "bessel": True, "exact": False, "terms": [_t(Fraction(3, 2), z(0, 1))], "single": False},
        {"kind": "ev", "shots": ["01", "11", "00"], "bessel": False, "exact": False, "terms": [_t(2, []), _t(-3, []), _t(0, [])]},
        {"kind": "ev", "shots": ["01", "11", "00"], "bessel": True, "exact": False, "coef": "int", "terms": [_t(2, z(0)), _t(-3, z(1)), _t(5, z(0, 1)), _t(1, [])]},
        {"kind": "ev", "shots": ["01", "11", "00"], "bessel": False, "exact": False, "coef": "np", "terms": [_t(2, z(0)), _t(Fraction(1, 2), z(1))]},
        {"kind": "ev", "shots": ["01", "11", "00", "01", "10"], "bessel": False, "exact": False,
         "terms": [_t(2, z(0)), _t(2 + Fraction(1, 2 ** 23), z(0)), _t(Fraction(1, 2 ** 32), z(1)), _t(Fraction(3, 2 ** 32), z(1)), _t(2, z(0))]},
        {"kind": "add_counts", "shots": ["01"], "counts": [["01", 2], ["10", 3]], "counts_as": "np"},
        {"kind": "add_counts", "shots": [], "counts": [["01", 2], ["10", 3], ["11", 0]], "counts_as": "Counter"},
        {"kind": "freq", "marked": [1, 0], "freq": [["01", 2], ["11", 1], ["10", 4]], "freq_as": "Counter", "marked_as": "tuple"},
        {"kind": "freq", "marked": [0], "freq": [["01", 2], ["11", 1]], "freq_as": "np", "marked_as": "frozenset"},
        # ---- bits that are booleans (True == 1): the unchanged library keys the histogram 'TrueFalse' (known finding)
        {"kind": "bool_bits", "shots": ["10", "00", "10"]},
        {"kind": "bool_bits", "shots": ["1", "0"], "numpy": True},
        # ---- number types: bits as rows of a bool array / as numpy bools; counts as uint8; coefficients as float32 / int8 / Fraction /
        #      bool in one operator (127 * 127 leaves int8); the bit array of the vectorised parity as a bool array
        {"kind": "ev", "shots": ["01", "11", "01", "10"], "bessel": False, "exact": False, "bit_ty": "arr:bool", "coef": "typemix",
         "terms": [_t(Fraction(3, 2), z(0)), _t(127, z(0, 1)), _t(1, z(1)), _t(Fraction(1, 3), [])]},
        {"kind": "parities", "shots": ["011", "110", "111", "011"], "bit_ty": "np.bool_", "terms": [_t(1, z(0, 1, 2)), _t(1, z(2))]},
        {"kind": "add_counts", "shots": ["01"], "counts": [["01", 2], ["10", 255], ["11", 0]], "counts_as": "np:uint8", "bit_ty": "bool"},
        # pair tallies on unsigned bits (wrapped around before the repair 4a0b079 in /repo)
        {"kind": "parities", "shots": ["11", "00", "11", "01"], "bit_ty": "uint8", "terms": [_t(1, z(0, 1)), _t(2, z(1))]},
        {"kind": "parities", "shots": ["11", "00", "11", "01"], "bit_ty": "arr:uint8", "terms": [_t(1, z(0, 1)), _t(2, z(1))]},
        # uint8 frequencies whose total leaves the type (summed in uint8 and wrapped before the repair f136005 in /repo)
        {"kind": "freq", "marked": [0], "freq": [["01", 200], ["11", 100]], "freq_as": "np:uint8!"},
        {"kind": "freq", "marked": [1, 0], "freq": [["01", 100], ["11", 27], ["10", 0]], "freq_as": "np:int8", "marked_as": "nptuple"},
        {"kind": "parity_vec", "rows": ["111", "110", "000"], "marked": [0, 1, 2], "dtype": "bool"},
        # ---- degenerate denominators: one shot with Bessel's correction (divisor N - 1 = 0) for several terms with a constant among
        #      them, all-zero frequencies (total 0), a term without samples in the parity tallies: never a finite number
        {"kind": "ev", "shots": ["101"], "bessel": True, "exact": False, "degenerate": "shots=1",
         "terms": [_t(2, z(0)), _t(-3, z(0, 2)), _t(Fraction(1, 2), []), _t(0, z(1))]},
        {"kind": "ev", "shots": ["10"], "bessel": False, "exact": False, "degenerate": "shots=1", "terms": [_t(Fraction(1, 2), []), _t(2, [])]},
        {"kind": "freq", "marked": [1], "freq": [["01", 0], ["11", 0], ["00", 0]], "freq_as": "Counter", "degenerate": "total=0"},
        {"kind": "from_parities", "tallies": [[3, 1], [0, 0], [1, 0]], "dtype": "int", "pairs": False, "degenerate": "tally=0"},
        {"kind": "from_parities", "tallies": [[3, 1], [0, 2], [1, 0]], "dtype": "float", "pairs": True, "degenerate": "tally>0"},
        # ---- one Measurements object asked for the same operator at three magnitudes
        {"kind": "history", "init": [["00", "01", "11", "01", "10"]],
         "operators": [[_t(2, z(0)), _t(-1, z(0, 1))], [_t(Fraction(2, 2 ** 40), z(0)), _t(Fraction(-1, 2 ** 40), z(0, 1))],
                       [_t(2 * 10 ** 6, z(0)), _t(Fraction(-1, 10 ** 6), z(0, 1))]],
         "steps": [{"do": "ev", "op": 0, "bessel": False}, {"do": "ev", "op": 1, "bessel": False}, {"do": "ev", "op": 2, "bessel": True},
                   {"do": "setitem", "index": 1, "shot": "11"}, {"do": "ev", "op": 1, "bessel": True}, {"do": "ev", "op": 0, "bessel": True},
                   {"do": "ev", "op": 2, "bessel": False}, {"do": "dist"}]},
    ]


def _dyadic(rng):
    return Fraction(rng.randrange(-24, 25), rng.choice([1, 1, 2, 4, 8]))


def _coeff(rng, exact):
    if exact or rng.random() < 0.5:
        return _dyadic(rng)
    if rng.random() < 0.5:
        return Fraction(round(rng.uniform(-3, 3), 3))  # the exact value of the double Python will use
    return Fraction(rng.randrange(-50, 51), rng.randrange(1, 13))


def _shots(rng, w, n):
    style = rng.random()
    if style < 0.1:
        pool = [format(rng.randrange(2 ** w), f"0{w}b")] if w else [""]
    else:
        k = rng.randrange(1, min(2 ** w, 6) + 1)
        pool = [format(rng.randrange(2 ** w), f"0{w}b") if w else "" for _ in range(k)]
    wts = [rng.choice([1, 1, 2, 5]) for _ in pool]
    return rng.choices(pool, weights=wts, k=n)


def _terms(rng, w, nt, exact):
    terms = []
    for _ in range(nt):
        r = rng.random()
        if r < 0.15 or w == 0:
            ops = []
        elif r < 0.3 and terms:
            ops = [list(o) for o in rng.choice(terms)["ops"]]  # repeated support
        else:
            qs = rng.sample(range(w), rng.randrange(1, min(w, 4) + 1))
            ops = [[q, "Z"] for q in qs]
        c = _coeff(rng, exact)
        if rng.random() < 0.05:
            c = Fraction(0)
        terms.append({"coeff": rat(Fraction(float(c))) if not exact else rat(c), "ops": ops})
    return terms


POW2 = [-60, -40, -30, -20, -10, 10, 20, 40]
DEC = ["1/1000", "1/10000", "1/100000", "1/1000000", "1/1000000000", "1/1000000000000", "3/10000", "7/100000000",
       "1000", "1000000", "1000000000", "25000000"]
MANY = [255, 256, 257, 1000, 4097, 32767, 32768, 65535, 65536, 65537, 70001, 100003, 131073, 262145]
HUGE = [1000003, 1048577]
WIDE64 = [63, 64, 65, 66, 70, 129, 257]
WIDE = [9, 10, 11, 12, 16, 17, 31, 32, 33, 63, 64, 65, 70]


def _rescale(rng, terms, mode=None):
    """the same operator with other magnitudes: every coefficient times one factor ("pow2": exact in doubles;
    "dec": a decimal factor) or every term times its own factor ("mixed": tiny and huge terms side by side).
    Returns (terms, still exactly representable?)"""
    mode = mode or rng.choice(["pow2", "dec", "mixed", "mixed2"])
    out = []
    if mode == "pow2":
        f = Fraction(2) ** rng.choice(POW2)
        return [{"coeff": rat(unrat(t["coeff"]) * f), "ops": t["ops"]} for t in terms], True
    if mode == "dec":
        f = Fraction(rng.choice(DEC))
        return [{"coeff": rat(Fraction(float(unrat(t["coeff"]) * f))), "ops": t["ops"]} for t in terms], False
    for t in terms:
        if mode == "mixed2":
            f = Fraction(2) ** rng.choice(POW2 + [0, 0])
            out.append({"coeff": rat(unrat(t["coeff"]) * f), "ops": t["ops"]})
        else:
            f = Fraction(rng.choice(DEC + ["1", "1"]))
            out.append({"coeff": rat(Fraction(float(unrat(t["coeff"]) * f))), "ops": t["ops"]})
    return out, mode == "mixed2"


def _rle(rng, w, n, style=None):
    """n shots, run-length coded: nearly unanimous / split down the middle by one shot / a few outcomes"""
    def bits():
        return format(rng.randrange(2 ** w), f"0{w}b")
    style = rng.random() if style is None else style
    a = bits()
    others = []
    while len(others) < 3:
        b = bits()
        if b != a and b not in others:
            others.append(b)
        elif w == 1:
            others.append("1" if a == "0" else "0")
            break
    others = list(dict.fromkeys(others))
    if style < 0.4:
        dev = [[b, rng.randrange(1, 3)] for b in others[: rng.randrange(1, len(others) + 1)]]
        runs = [[a, n - sum(k for _, k in dev)]] + dev
    elif style < 0.7:
        runs = [[a, (n + 1) // 2], [others[0], n // 2]]
        if n % 2 == 0:
            runs = [[a, n // 2 + 1], [others[0], n // 2 - 1]]
    else:
        cut = sorted(rng.sample(range(1, n), min(len(others), 3)))
        sizes = [y - x for x, y in zip([0] + cut, cut + [n])]
        runs = [[b, k] for b, k in zip([a] + others, sizes)]
    runs = [[b, k] for b, k in runs if k > 0]
    rng.shuffle(runs)
    assert sum(k for _, k in runs) == n and len({b for b, _ in runs}) == len(runs)
    return runs


def _magnitudes(rng, big):
    """the same statistics at other orders of magnitude: small / large / mixed coefficients, very many shots,
    huge frequencies that nearly cancel, wide registers - on every API the property names"""
    cases = []
    maxw, maxt = (8, 6) if big else (6, 5)
    # -- coefficients of other magnitudes (values ~ c, correlations ~ c c', covariances ~ c c'/shots)
    for i in range(240 if big else 40):
        w = rng.randrange(1, maxw + 1)
        exact = rng.random() < 0.4
        n = rng.choice([1, 2, 4, 8, 16, 32, 64]) if exact else rng.choice([2, 3, 7, rng.randrange(1, 60), rng.randrange(1, 200 if big else 60)])
        terms, still = _rescale(rng, _terms(rng, w, rng.randrange(2, maxt + 1), exact))
        bessel = rng.random() < 0.4
        c = {"kind": "ev", "shots": _shots(rng, w, n), "terms": terms, "bessel": bessel,
             "exact": exact and still and not bessel}
        if rng.random() < 0.1:
            c["np_bits"] = True
        cases.append(c)
        if i % 4 == 0:  # tallies do not depend on the coefficients at all
            cases.append({"kind": "parities", "shots": _shots(rng, w, n), "terms": terms})
    # -- very many shots: means close to +/-1 or to 0, covariances ~ 1/shots^2, probabilities ~ 1/shots, tallies > 2^16
    def many():
        return rng.choice(MANY if rng.random() < 0.5 else [m for m in MANY if m > 65535])
    for i in range(40 if big else 8):
        w = rng.randrange(1, 7)
        n = many()
        runs = _rle(rng, w, n)
        terms = _terms(rng, w, rng.randrange(2, 5), True)
        if rng.random() < 0.3:
            terms, _ = _rescale(rng, terms)
        cases.append({"kind": "ev", "rle": runs, "terms": terms, "bessel": i % 2 == 0, "exact": False})
        cases.append({"kind": "parities", "rle": _rle(rng, w, many()), "terms": terms})
        runs2 = _rle(rng, w, many())
        cases.append({"kind": "counts", "rle": runs2})
        cases.append({"kind": "dist", "rle": runs2 if rng.random() < 0.5 else _rle(rng, w, many())})
        cases.append({"kind": "add_counts", "shots": _shots(rng, w, rng.randrange(0, 4)),
                      "counts": [[b, k] for b, k in _rle(rng, w, many())]})
    # -- frequencies: huge totals, weights that nearly cancel (the mean is tiny but not zero), one dominant outcome
    for i in range(150 if big else 30):
        w = rng.randrange(1, 7)
        marked = rng.sample(range(w), rng.randrange(1, w + 1))
        base = rng.choice([10 ** 3, 10 ** 6, 10 ** 9, 10 ** 12, 2 ** 40, 2 ** 50, 10 ** 15])
        style = rng.random()
        if style < 0.5:  # as many keys of even as of odd parity on the marked qubits, weights equal up to +1 / +2
            keys = []
            for j in range(2 * rng.randrange(1, 4)):
                b = list(format(rng.randrange(2 ** w), f"0{w}b"))
                if sum(int(b[q]) for q in marked) % 2 != j % 2:
                    b[marked[0]] = "1" if b[marked[0]] == "0" else "0"
                keys.append("".join(b))
            keys = list(dict.fromkeys(keys))
            freq = [[kk, base + rng.randrange(0, 3)] for kk in keys]
        else:
            keys = list(dict.fromkeys(_shots(rng, w, rng.randrange(2, 7))))
            if style < 0.8:
                freq = [[kk, base if j == 0 else rng.randrange(1, 4)] for j, kk in enumerate(keys)]
            else:
                freq = [[kk, rng.randrange(1, base)] for kk in keys]
        rng.shuffle(freq)
        cases.append({"kind": "freq", "marked": marked, "freq": freq, "as_set": rng.random() < 0.5})
    # -- wide registers on the remaining APIs (ev / parities have their own wide stream); the top qubit is marked often
    for i in range(48 if big else 12):
        w = rng.choice(WIDE if i % 2 else WIDE64)
        n = rng.choice([1, 2, 5, rng.randrange(1, 30)])
        shots = _shots(rng, w, n)

        def marks(k):
            qs = rng.sample(range(w), rng.randrange(1, k))
            return list(dict.fromkeys(qs + ([w - 1 - rng.randrange(0, 2)] if rng.random() < 0.7 else [])))
        cases.append({"kind": "counts", "shots": shots})
        cases.append({"kind": "dist", "shots": shots})
        keys = list(dict.fromkeys(_shots(rng, w, rng.randrange(1, 5))))
        cases.append({"kind": "add_counts", "shots": shots[: rng.randrange(0, 3)], "counts": [[kk, rng.randrange(1, 5)] for kk in keys]})
        cases.append({"kind": "freq", "marked": marks(5), "freq": [[kk, rng.randrange(1, 30)] for kk in keys], "as_set": rng.random() < 0.5})
        cases.append({"kind": "parity_vec", "rows": _shots(rng, w, rng.randrange(1, 6)), "marked": marks(6)})
        if i % 2 == 0:
            terms = [{"coeff": rat(_dyadic(rng)), "ops": [[q, "Z"] for q in marks(4)]} for _ in range(3)]
            terms.append({"coeff": terms[0]["coeff"], "ops": terms[0]["ops"][:1] + [[q, "Z"] for q in marks(3) if q != terms[0]["ops"][0][0]]})
            cases.append({"kind": "ev", "shots": shots, "terms": terms, "bessel": False, "exact": False, "np_bits": rng.random() < 0.3})
            cases.append({"kind": "parities", "shots": shots, "terms": terms})
    # -- a million shots on a narrow register: probabilities ~ 1e-6, means within 1e-6 of +/-1 or of 0, covariances ~ 1e-12
    for i in range(2 if big else 1):
        w = rng.randrange(1, 4)
        terms = _terms(rng, w, rng.randrange(2, 4), True)
        cases.append({"kind": "ev", "rle": _rle(rng, w, rng.choice(HUGE), rng.choice([0.0, 0.0, 0.5])), "terms": terms,
                      "bessel": rng.random() < 0.5, "exact": False})
        runs = _rle(rng, w, rng.choice(HUGE), 0.0)
        cases.append({"kind": "dist", "rle": runs})
        if big:  # tallies and counts of this size are integers far below 2^53; the 2^16 / 2^17 boundaries are in MANY
            cases.append({"kind": "parities", "rle": _rle(rng, w, rng.choice(HUGE)), "terms": terms})
            cases.append({"kind": "counts", "rle": runs})
    return cases


BOUNDS = [8, 16, 32, 53, 63, 64, 128]
SIB_WIDTHS = [9, 16, 17, 24, 33, 40, 54, 55, 64, 65, 66, 70, 100, 128, 129, 130, 200, 257]


def _flip(s, q):
    return s[:q] + ("1" if s[q] == "0" else "0") + s[q + 1:]


def _sibling_set(rng, w):
    """distinct outcomes that are equal almost everywhere: one or two base strings plus siblings that differ from a base
    in exactly ONE position, chosen just below / at / above a boundary (8, 16, 32, 53, 63, 64, 128), in the first or in
    the last position (sometimes in two positions on the same side of a boundary).
    Returns (distinct outcomes, base first; positions in which some sibling differs from its base)."""
    cand = sorted({q for b in BOUNDS for q in (b - 1, b, b + 1) if 0 <= q < w} | {0, w - 1})
    high = [q for q in cand if q >= max(b for b in [0] + BOUNDS if b < w)]  # beyond the last boundary inside the register
    pos = rng.sample(cand, min(len(cand), rng.randrange(2, 6)))
    if rng.random() < 0.7:
        pos = list(dict.fromkeys(pos + [rng.choice(high), rng.choice([0, w - 1])]))
    style = rng.random()
    base = ("0" * w if style < 0.25 else "1" * w if style < 0.4 else format(rng.getrandbits(w), f"0{w}b"))
    outs = [base] + [_flip(base, q) for q in pos]
    if rng.random() < 0.4 and len(pos) >= 2:  # differs in two positions (both far from the rest of the differences)
        a, b = rng.sample(pos, 2)
        outs.append(_flip(_flip(base, a), b))
    if rng.random() < 0.3:  # a second, unrelated base with one sibling
        base2 = format(rng.getrandbits(w), f"0{w}b")
        outs += [base2, _flip(base2, rng.choice(pos))]
    return list(dict.fromkeys(outs)), pos


def _sibling_shots(rng, outs):
    mult = [rng.choice([1, 2, 3, 5, 8]) for _ in outs]
    if len(set(mult)) == 1:
        mult[0] += 1
    shots = [o for o, k in zip(outs, mult) for _ in range(k)]
    rng.shuffle(shots)
    return shots, [[o, k] for o, k in zip(outs, mult)]


def _sibling_terms(rng, w, pos):
    """Z-terms that see exactly the positions in which the outcomes differ (alone, in pairs, together with qubit 0 / w-1)"""
    def zt(qs):
        return {"coeff": rat(_dyadic(rng) or Fraction(1)), "ops": [[q, "Z"] for q in dict.fromkeys(qs)]}
    terms = [zt([q]) for q in rng.sample(pos, min(len(pos), 3))]
    if len(pos) >= 2:
        terms.append(zt(rng.sample(pos, 2)))
    terms.append(zt([rng.choice(pos), rng.choice([0, w - 1, rng.randrange(w)])]))
    if rng.random() < 0.5:
        terms.append(zt(pos))
    if rng.random() < 0.3:
        terms.append({"coeff": rat(_dyadic(rng)), "ops": []})
    rng.shuffle(terms)
    return terms


def _boundary_siblings(rng, big):
    """wide registers x nearly equal outcomes, on every API: the outcomes of a case differ ONLY beyond (or only before)
    a position boundary, with unequal multiplicities - whatever abbreviates a bitstring (a machine integer, a float,
    packed bytes, a truncated string) merges them"""
    cases = []
    widths = list(SIB_WIDTHS) * (3 if big else 1)
    if not big:
        widths += [65, 70, 129]
    for w in widths:
        outs, pos = _sibling_set(rng, w)
        shots, runs = _sibling_shots(rng, outs)
        terms = _sibling_terms(rng, w, pos)
        npb = rng.random() < 0.15
        cases.append({"kind": "counts", "shots": shots})
        cases.append({"kind": "dist", "shots": shots})
        runs2 = list(runs)
        rng.shuffle(runs2)
        cases.append({"kind": "add_counts", "shots": shots[: rng.randrange(0, 3)], "counts": runs2})
        cases.append({"kind": "ev", "shots": shots, "terms": terms, "bessel": rng.random() < 0.4, "exact": False, "np_bits": npb})
        cases.append({"kind": "parities", "shots": shots, "terms": terms})
        marked = list(dict.fromkeys(rng.sample(pos, rng.randrange(1, len(pos) + 1)) + ([rng.randrange(w)] if rng.random() < 0.3 else [])))
        cases.append({"kind": "freq", "marked": marked, "freq": [[o, k * rng.choice([1, 1, 7])] for o, k in runs2], "as_set": rng.random() < 0.5})
        rows = list(outs)
        rng.shuffle(rows)
        cases.append({"kind": "parity_vec", "rows": rows, "marked": rng.sample(pos, rng.randrange(1, len(pos) + 1))})
        # one Measurements object: a shot is overwritten by its sibling (one position beyond / before a boundary), everything again
        q = rng.choice(pos)
        k = rng.randrange(len(shots))
        steps = [{"do": "counts"}, {"do": "ev", "op": 0, "bessel": False},
                 {"do": "setitem", "index": k, "shot": _flip(shots[k], q)},
                 {"do": "counts"}, {"do": "dist"}, {"do": "ev", "op": 0, "bessel": rng.random() < 0.3}, {"do": "parities", "op": 0},
                 {"do": "add_counts", "counts": [[_flip(outs[0], rng.choice(pos)), 2], [outs[0], 1]]},
                 {"do": "counts"}, {"do": "dist"}, {"do": "save"}]
        cases.append({"kind": "history", "init": [list(shots)], "operators": [terms], "steps": steps})
    return cases


def _twin_history(rng, big):
    """ONE Measurements object (born from a list, from from_counts, or empty + add_counts) and ONE operator object, changed
    between the queries into a TWIN of what they were: the same multiset in another order, the same outcomes with two
    multiplicities exchanged, the same multiplicities with one outcome renamed, one bit exchanged between two shots (every
    column keeps its sum, length / first / last shot stay), wider shots, a coefficient that moves by 2^-24 of itself, a term
    appended / removed / two terms exchanged in the caller's PauliSum - every statistic again after each change"""
    w = rng.randrange(2, 7)
    n = rng.randrange(4, 20 if big else 13)
    via = rng.choice(["list", "list", "from_counts", "add_counts"])
    c = {"kind": "history", "init": [_shots(rng, w, n)], "init_via": [via], "operators": [], "steps": []}
    if rng.random() < 0.4:
        c["coef"] = rng.choice(["complex", "str", "arith"])
    base = _terms(rng, w, rng.randrange(2, 5), True)
    for t in base:
        if unrat(t["coeff"]) == 0:
            t["coeff"] = 1
    c["operators"].append(base)
    if rng.random() < 0.5:  # a twin operator object: every coefficient larger by 2^-24 of itself
        c["operators"].append([{"coeff": rat(unrat(t["coeff"]) * (1 + Fraction(1, 2 ** 24))), "ops": t["ops"]} for t in base])
    cur = _init_shots(c, 0)
    ops_now = [[dict(t) for t in terms] for terms in c["operators"]]
    steps = c["steps"]

    def queries(all_ops=False):
        kinds = ["counts", "dist", "ev", "parities"]
        rng.shuffle(kinds)
        for kind in kinds:
            for op in (range(len(ops_now)) if (all_ops and kind == "ev") else [0]):
                st = {"do": kind}
                if kind in ("ev", "parities"):
                    st["op"] = op
                if kind == "ev":
                    st["bessel"] = rng.random() < 0.4
                steps.append(st)

    def new_outcome(width):
        for _ in range(20):
            b = format(rng.randrange(2 ** width), f"0{width}b")
            if b not in cur:
                return b
        return None

    queries(all_ops=True)
    for _ in range(rng.randrange(3, 6)):
        cnt = Counter(cur)
        r = rng.randrange(13)
        st = None
        if r == 0:  # same multiset, other order
            k = rng.randrange(1, len(cur))
            st = {"do": "assign", "shots": cur[k:] + cur[:k] if rng.random() < 0.6 else cur[::-1]}
        elif r == 1 and len(set(cnt.values())) > 1:  # same outcomes, two multiplicities exchanged
            a, b = rng.sample(list(cnt), 2)
            for _ in range(10):
                if cnt[a] != cnt[b]:
                    break
                a, b = rng.sample(list(cnt), 2)
            sw = {a: b, b: a}
            st = {"do": rng.choice(["assign", "replace"]), "shots": [sw.get(x, x) for x in cur]}
        elif r == 2:  # same multiplicities in the same order, one outcome renamed
            a, b = rng.choice(list(cnt)), new_outcome(len(cur[0]))
            if b is not None:
                st = {"do": rng.choice(["assign", "replace"]), "shots": [b if x == a else x for x in cur]}
        elif r in (3, 4):  # one bit exchanged between two shots: all column sums, the length, (mostly) the ends stay
            for _ in range(20):
                i, j = rng.sample(range(len(cur)), 2)
                q = rng.randrange(len(cur[0]))
                if cur[i][q] != cur[j][q] and _flip(cur[i], q) != cur[j]:
                    new = list(cur)
                    new[i], new[j] = _flip(cur[i], q), _flip(cur[j], q)
                    st = {"do": "assign", "shots": new}
                    break
        elif r == 5:  # wider shots for the same operator objects
            extra = rng.randrange(1, 4)
            st = {"do": "replace", "shots": [x + format(rng.randrange(2 ** extra), f"0{extra}b") for x in cur]}
        elif r == 6:
            i = rng.randrange(len(ops_now[0]))
            f = rng.choice([1 + Fraction(1, 2 ** 24), 1 - Fraction(1, 2 ** 30), Fraction(-1), Fraction(3, 2)])
            st = {"do": "op_coeff", "op": 0, "term": i, "coeff": rat(unrat(ops_now[0][i]["coeff"]) * f)}
        elif r == 7:
            width = len(cur[0])
            new = {"coeff": rat(_dyadic(rng) or Fraction(1)), "ops": [[q, "Z"] for q in rng.sample(range(width), rng.randrange(0, min(width, 3) + 1))]}
            st = {"do": "op_append", "op": 0, "new": new}
        elif r == 8 and len(ops_now[0]) > 1:
            st = {"do": "op_pop", "op": 0, "term": rng.randrange(len(ops_now[0]))}
        elif r == 9 and len(ops_now[0]) > 1:
            i, j = rng.sample(range(len(ops_now[0])), 2)
            st = {"do": "op_swap", "op": 0, "i": i, "j": j}
        elif r == 10:
            keys = list(dict.fromkeys(rng.sample(cur, min(len(cur), 2)) + [format(rng.randrange(2 ** len(cur[0])), f"0{len(cur[0])}b")]))
            st = {"do": "add_counts", "counts": [[kk, rng.randrange(1, 4)] for kk in keys], "counts_as": rng.choice(["Counter", "np", "OrderedDict", None])}
        elif r == 11 and len(cur) > 2:  # fewer shots, in place
            st = {"do": "swap", "drop": rng.randrange(1, len(cur) - 1), "shots": []}
        elif r == 12:  # more shots, in place
            st = {"do": "extend", "shots": [rng.choice(cur) for _ in range(rng.randrange(1, 4))]}
        if st is None:
            i = rng.randrange(len(cur))
            st = {"do": "setitem", "index": i, "shot": _flip(cur[i], rng.randrange(len(cur[0])))}
        steps.append(st)
        if st["do"] in OP_STEPS:
            ops_now[0] = _apply_op(ops_now[0], st)
        else:
            cur = _apply(cur, st)
        queries(all_ops=rng.random() < 0.3)
    return c


def _forms(rng, big):
    """special SHAPES and FORMS of legal input, each next to its ordinary sibling: >= 64 terms, >= 64 distinct outcomes,
    exactly one term (as PauliTerm and as PauliSum), constant-only operators, all-integer / numpy-scalar coefficients,
    nearly equal and identical terms in one sum, histograms as Counter / OrderedDict / with numpy counts, marked qubits as
    tuple / set / frozenset"""
    cases = []
    # -- many terms (correlation matrix >= 64 x 64)
    for nt in ([64, 65, 70, 130] if big else [64, 67]):
        w = rng.randrange(7, 11)
        terms = _terms(rng, w, nt, True)
        shots = _shots(rng, w, rng.choice([3, 8, 17]))
        cases.append({"kind": "ev", "shots": shots, "terms": terms, "bessel": rng.random() < 0.5, "exact": False})
        cases.append({"kind": "parities", "shots": shots, "terms": terms})
    # -- many distinct outcomes
    for K in ([64, 65, 100, 257, 300] if big else [65, 130, 257]):
        w = rng.randrange(9, 13)
        outs = [format(x, f"0{w}b") for x in rng.sample(range(2 ** w), K)]
        shots = [o for o in outs for _ in range(rng.choice([1, 1, 2, 3]))]
        rng.shuffle(shots)
        terms = _terms(rng, w, rng.randrange(2, 5), True)
        cases.append({"kind": "ev", "shots": shots, "terms": terms, "bessel": rng.random() < 0.5, "exact": False})
        cases.append({"kind": "parities", "shots": shots, "terms": terms})
        cases.append({"kind": "counts", "shots": shots})
        cases.append({"kind": "dist", "shots": shots})
        cases.append({"kind": "add_counts", "shots": shots[:2], "counts": [[o, rng.randrange(1, 4)] for o in outs]})
        big_w = rng.choice([0, 10 ** 9, 2 ** 40, 2 ** 50])
        cases.append({"kind": "freq", "marked": rng.sample(range(w), rng.randrange(1, 5)), "freq": [[o, rng.randrange(1, big_w) if big_w else rng.randrange(1, 9)] for o in outs],
                      "marked_as": rng.choice(["tuple", "frozenset", "set", "list"])})
        cases.append({"kind": "parity_vec", "rows": outs, "marked": rng.sample(range(w), rng.randrange(1, w + 1))})
    # -- exactly one term, handed over as a PauliTerm and as a one-term PauliSum; both flags
    for i in range(24 if big else 8):
        w = rng.randrange(1, 7)
        k = rng.choice([0, 1, 1, 2, 3, w]) if w > 1 else rng.choice([0, 1])
        term = {"coeff": rat(_dyadic(rng) or Fraction(3, 2)), "ops": [[q, "Z"] for q in rng.sample(range(w), min(k, w))]}
        shots = _shots(rng, w, rng.choice([1, 2, 3, 7, 12]))
        for single in (True, False):
            cases.append({"kind": "ev", "shots": shots, "terms": [term], "bessel": len(shots) > 1 and i % 2 == 0, "exact": False, "single": single})
        cases.append({"kind": "parities", "shots": shots, "terms": [term], "single": i % 2 == 0})
    # -- constant-only operators (one, two, three constants; zero among them)
    for i in range(12 if big else 5):
        w = rng.randrange(1, 6)
        terms = [{"coeff": rat(rng.choice([_dyadic(rng), Fraction(0), Fraction(5, 2)])), "ops": []} for _ in range(rng.randrange(1, 4))]
        shots = _shots(rng, w, rng.choice([1, 2, 5, 9]))
        cases.append({"kind": "ev", "shots": shots, "terms": terms, "bessel": len(shots) > 1 and rng.random() < 0.5, "exact": False,
                      "single": len(terms) == 1 and rng.random() < 0.5})
        cases.append({"kind": "parities", "shots": shots, "terms": terms})
    # -- coefficient objects: python ints only, numpy scalars; shot numbers that make the means non-integers
    for i in range(40 if big else 12):
        w = rng.randrange(1, 6)
        nt = rng.randrange(1, 5)
        terms = _terms(rng, w, nt, True)
        for t in terms:
            t["coeff"] = rng.randrange(-9, 10) if i % 2 == 0 else rat(_dyadic(rng))
        shots = _shots(rng, w, rng.choice([3, 5, 6, 7, 11]))
        cases.append({"kind": "ev", "shots": shots, "terms": terms, "bessel": rng.random() < 0.4, "exact": False,
                      "coef": "int" if i % 4 < 2 else "np"})
    # -- … python ints / numpy ints of LARGE magnitude in every term (products of two coefficients beyond 2^63: an integer-typed
    #    vectorised product wraps around where the float product is merely rounded)
    for i in range(24 if big else 8):
        w = rng.randrange(1, 6)
        terms = _terms(rng, w, rng.randrange(2, 5), True)
        mags = [2 ** 31, 2 ** 32 + 1, 3037000500, 10 ** 10, 2 ** 40, 10 ** 15 + 3, 2 ** 53 + 2, 2 ** 61]
        for t in terms:
            t["coeff"] = rng.choice([-1, 1]) * (rng.choice(mags) + rng.randrange(0, 3))
        shots = _shots(rng, w, rng.choice([2, 3, 5, 8, 11]))
        cases.append({"kind": "ev", "shots": shots, "terms": terms, "bessel": rng.random() < 0.5, "exact": False,
                      "coef": "int" if i % 4 < 3 else "np"})
    # -- operators as users build them: parsed from text, multiplied together, complex-typed real coefficients
    for i in range(60 if big else 21):
        w = rng.randrange(1, 7) if i % 5 else rng.randrange(9, 14)
        terms = _terms(rng, w, rng.randrange(1, 6), i % 2 == 0)
        if i % 7 == 0:
            terms = _rescale(rng, terms, "dec")[0]
        shots = _shots(rng, w, rng.choice([1, 2, 3, 7, 16, 29]))
        form = ["complex", "str", "arith"][i % 3]
        cases.append({"kind": "ev", "shots": shots, "terms": terms, "bessel": len(shots) > 1 and rng.random() < 0.4, "exact": False, "coef": form,
                      "single": len(terms) == 1 and rng.random() < 0.5})
        if i % 3 == 0:
            cases.append({"kind": "parities", "shots": shots, "terms": terms, "coef": form})
    # -- nearly equal / identical / tiny terms on one support in one sum (equal up to every tolerance the library has)
    for i in range(30 if big else 10):
        w = rng.randrange(1, 6)
        sup = [[q, "Z"] for q in rng.sample(range(w), rng.randrange(0, min(w, 3) + 1))]
        c0 = _dyadic(rng) or Fraction(1)
        style = i % 5
        if style == 0:
            twins = [c0, c0 * (1 + Fraction(1, 2 ** 24))]
        elif style == 1:
            twins = [c0, c0 + Fraction(1, 2 ** 40), c0]
        elif style == 2:
            twins = [Fraction(1, 2 ** 32), Fraction(3, 2 ** 32), Fraction(-1, 2 ** 34)]  # all "zero" for allclose / round(c * 1e6)
        elif style == 3:
            twins = [c0, c0, c0]
        else:
            twins = [c0, -c0, c0 * (1 - Fraction(1, 2 ** 30))]
        terms = [{"coeff": rat(x), "ops": [list(o) for o in sup]} for x in twins] + _terms(rng, w, rng.randrange(0, 3), True)
        rng.shuffle(terms)
        shots = _shots(rng, w, rng.choice([2, 3, 5, 8]))
        cases.append({"kind": "ev", "shots": shots, "terms": terms, "bessel": rng.random() < 0.3, "exact": False})
    # -- reshape twins, one after the other in this process: the same stream of bits cut into rows of another width,
    #    the same marked qubits (whatever is remembered per content must also know the width)
    for i in range(12 if big else 4):
        w1, w2 = rng.choice([(2, 3), (3, 2), (2, 4), (4, 2), (3, 6), (6, 3), (4, 6)])
        total = w1 * w2 * rng.randrange(1, 3)
        stream = "".join(rng.choice("01") for _ in range(total))
        marked = rng.sample(range(min(w1, w2)), rng.randrange(1, min(w1, w2) + 1))
        for w in (w1, w2):
            rows = [stream[k:k + w] for k in range(0, total, w)]
            cases.append({"kind": "parity_vec", "rows": rows, "marked": marked})
            keys = list(dict.fromkeys(rows))
            cases.append({"kind": "freq", "marked": marked, "freq": [[kk, 1 + j] for j, kk in enumerate(keys)]})
            cases.append({"kind": "parities", "shots": rows, "terms": [{"coeff": 1, "ops": [[q, "Z"] for q in marked]}, {"coeff": 2, "ops": [[marked[0], "Z"]]}]})
    # -- the histogram / the marked qubits in the forms a caller may hold them
    for i in range(30 if big else 10):
        w = rng.randrange(1, 7)
        keys = list(dict.fromkeys(_shots(rng, w, rng.randrange(1, 6))))
        pairs = [[kk, rng.randrange(1, 6)] for kk in keys]
        form = ["Counter", "np", "OrderedDict"][i % 3]
        cases.append({"kind": "add_counts", "shots": _shots(rng, w, rng.randrange(0, 3)), "counts": pairs, "counts_as": form})
        cases.append({"kind": "freq", "marked": rng.sample(range(w), rng.randrange(0, w + 1)), "freq": pairs, "freq_as": form,
                      "marked_as": ["tuple", "frozenset", "set", "list"][i % 4]})
    return cases


def _pow2_shots(rng, w, kmax=6):
    return _shots(rng, w, 2 ** rng.randrange(0, kmax + 1))


# bits as UNSIGNED numpy integers were excluded from get_parities_from_measurements while the library's pair tallies wrapped around
# (np.abs(parity1 - parity2) on uint64: 0 - 1 = 2^64 - 1); repaired in /repo (4a0b079), so they are generated like every other type
UNSIGNED_BITS = ()


def _types(rng, big):
    """NUMBER TYPES of the values the quantifier covers, on every API: the bits of a shot as Python bool / numpy bool / numpy
    signed and unsigned integers of every width / mixed within one tuple / rows of a typed 2-d array; counts and frequencies
    as numpy integers of every width and as bools (values up to the type's maximum); coefficients as numpy float32 / complex64
    / int8..uint64 (magnitudes up to the type's maximum: the PRODUCT of two leaves the type) / Fraction / bool /
    one type per term; the bit array of check_parity_of_vector in every integer dtype and bool; marked qubits as numpy ints.
    The VALUES are ordinary (and exactly representable in the type), so every sentence is judged as for Python numbers."""
    cases = []
    reps = 3 if big else 1
    # -- bits: every type x every API (fresh objects) + one history per type
    for bt in BIT_TYPES * reps:
        w = rng.randrange(1, 7) if rng.random() < 0.8 else rng.choice([9, 17, 33, 65])
        n = rng.choice([1, 2, 3, 5, 8, 13])
        shots = _shots(rng, w, n)
        terms = _terms(rng, min(w, 6), rng.randrange(2, 5), True)
        cases.append({"kind": "ev", "shots": shots, "terms": terms, "bessel": n > 1 and rng.random() < 0.4, "exact": False, "bit_ty": bt})
        if bt not in UNSIGNED_BITS:
            cases.append({"kind": "parities", "shots": _shots(rng, w, n), "terms": terms, "bit_ty": bt})
        cases.append({"kind": "counts", "shots": shots, "bit_ty": bt})
        cases.append({"kind": "dist", "shots": _shots(rng, w, n), "bit_ty": bt})
        cases.append({"kind": "save", "shots": shots, "bit_ty": bt})
        keys = list(dict.fromkeys(_shots(rng, w, rng.randrange(1, 4))))
        cases.append({"kind": "add_counts", "shots": shots[: rng.randrange(0, 3)], "counts": [[kk, rng.randrange(1, 4)] for kk in keys],
                      "bit_ty": bt, "counts_as": rng.choice(COUNT_TYPES + ["np", None])})
        h = _history(rng, big)
        h["bit_ty"] = bt
        if bt in UNSIGNED_BITS:
            h["steps"] = [st for st in h["steps"] if st["do"] != "parities"]
        cases.append(h)
    # -- the all-ones / all-zeros / one-hot shots in every bit type (True, np.True_, np.uint8(1) ... all mean 1)
    for bt in BIT_TYPES:
        w = rng.randrange(2, 6)
        shots = ["1" * w, "0" * w, "1" * w, "0" * (w - 1) + "1"]
        terms = [{"coeff": 1, "ops": [[q, "Z"] for q in range(w)]}, {"coeff": 2, "ops": [[w - 1, "Z"]]}, {"coeff": 3, "ops": []}]
        cases.append({"kind": "ev", "shots": shots, "terms": terms, "bessel": False, "exact": True, "bit_ty": bt})
        if bt not in UNSIGNED_BITS:
            cases.append({"kind": "parities", "shots": shots, "terms": terms, "bit_ty": bt})
    # -- counts / frequencies: numpy integers of every width, bools; values up to the maximum of the type
    tops = {"np:int8": 127, "np:uint8": 255, "np:int16": 32767, "np:int32": 2 ** 31 - 1, "np:uint32": 2 ** 32 - 1, "np:uint64": 2 ** 64 - 1, "bool": 1}
    for form in COUNT_TYPES * reps:
        w = rng.randrange(1, 6)
        keys = list(dict.fromkeys(_shots(rng, w, rng.randrange(2, 6))))
        top = tops[form]
        # add_counts / from_counts: each count fits the type (the library repeats a tuple that many times: keep it small)
        small = [[kk, rng.choice([0, 1, 1, 2, 3, min(top, 100), min(top, 127), min(top, 128), min(top, 200), min(top, 255), min(top, 300)])] for kk in keys]
        cases.append({"kind": "add_counts", "shots": _shots(rng, w, rng.randrange(0, 3)), "counts": small, "counts_as": form})
        # frequencies: every value AND the total fit the type; one run near the top of the type
        budget = min(top, 2 ** 52)
        freq, left = [], budget
        for j, kk in enumerate(keys):
            v = 1 if form == "bool" else rng.randrange(1, max(2, left // (len(keys) - j)) + 1) if rng.random() < 0.5 else rng.randrange(1, min(left - (len(keys) - j - 1), 9) + 1)
            v = max(0, min(v, left - (len(keys) - j - 1)))
            left -= v
            freq.append([kk, v])
        if form == "bool":
            freq = [[kk, rng.choice([1, 1, 0])] for kk in keys]
            if not any(v for _, v in freq):
                freq[0][1] = 1
        marked = rng.sample(range(w), rng.randrange(0, w + 1))
        cases.append({"kind": "freq", "marked": marked, "freq": freq, "freq_as": form, "marked_as": rng.choice(["tuple", "nptuple", "set", "list"])})
        cases.append({"kind": "freq", "marked": rng.sample(range(w), rng.randrange(1, w + 1)), "freq": [[kk, rng.randrange(1, 4) if form != "bool" else 1] for kk in keys],
                      "freq_as": form, "marked_as": "nptuple"})
    # -- coefficients: every type, small values and values next to the type's maximum; float32 / complex64 / float16 with
    #    dyadic coefficients and 2^k shots (every intermediate result is exactly representable in the type)
    mags = {"i8": [127, -128, 100, 90, 12], "i16": [32767, -32768, 30000, 182], "i32": [2 ** 31 - 1, -2 ** 31, 3 * 10 ** 9 // 2, 46341],
            "u8": [255, 200, 128, 16], "u64": [2 ** 64 - 1, 2 ** 63 + 5, 2 ** 32, 3037000500]}
    for form in COEF_TYPES * (2 * reps):
        w = rng.randrange(1, 6)
        nt = rng.randrange(1, 5)
        terms = _terms(rng, w, nt, True)
        pow2 = form in ("f32", "c64", "typemix") or rng.random() < 0.3
        for t in terms:
            if form in mags and rng.random() < 0.7:
                t["coeff"] = rng.choice(mags[form])
            elif form in ("bool", "np.bool_"):
                t["coeff"] = rng.choice([1, 1, 1, 0])
            elif form in ("f32", "c64"):
                t["coeff"] = rat(_dyadic(rng) * Fraction(2) ** rng.choice([0, 0, -8, 8, -20, 20]))
            elif form == "Fraction":
                t["coeff"] = rat(Fraction(rng.randrange(-30, 31), rng.randrange(1, 13)))
            elif form == "typemix":
                t["coeff"] = rng.choice([rat(_dyadic(rng)), rng.choice([0, 1]), rng.randrange(-128, 256), rat(Fraction(rng.randrange(-9, 10), 7)), 2 ** 63 + rng.randrange(5)])
            else:
                t["coeff"] = rng.randrange(-9, 10)
        shots = _pow2_shots(rng, w, 6) if pow2 else _shots(rng, w, rng.choice([3, 5, 6, 7, 11]))
        bessel = (not pow2) and rng.random() < 0.4
        c = {"kind": "ev", "shots": shots, "terms": terms, "bessel": bessel, "exact": False, "coef": form,
             "single": len(terms) == 1 and rng.random() < 0.5}
        if rng.random() < 0.3:
            c["bit_ty"] = rng.choice(BIT_TYPES)
        cases.append(c)
        if rng.random() < 0.3:
            cases.append({"kind": "parities", "shots": shots, "terms": terms, "coef": form})
    # -- one Measurements object asked with the SAME operator in several coefficient types (equal values, equal hashes)
    for _ in range(4 * reps):
        w = rng.randrange(1, 5)
        base = [{"coeff": rng.choice([1, 1, 0, 2, 3, -1, 100]), "ops": [[q, "Z"] for q in rng.sample(range(w), rng.randrange(0, w + 1))]} for _ in range(rng.randrange(1, 4))]
        forms = rng.sample(["f32", "i8", "Fraction", "bool", "c64", "u8", "typemix", "int", "np"], 3)
        h = {"kind": "history", "init": [_pow2_shots(rng, w, 4)], "operators": [base], "steps": []}
        cases += [dict(h, coef=f, steps=[{"do": "ev", "op": 0, "bessel": False}, {"do": "counts"}, {"do": "parities", "op": 0},
                                           {"do": "setitem", "index": 0, "shot": _flip(h["init"][0][0], rng.randrange(w))},
                                           {"do": "ev", "op": 0, "bessel": False}, {"do": "dist"}]) for f in forms]
    # -- the bit array of the vectorised parity in every dtype (a sum in the array's own dtype is not a parity for bool)
    for dt in PV_DTYPES * reps:
        w = rng.choice([1, 2, 3, 5, 8, 9])
        rows = _shots(rng, w, rng.randrange(1, 8)) + ["1" * w]
        cases.append({"kind": "parity_vec", "rows": rows, "marked": rng.sample(range(w), rng.randrange(0, w + 1)), "dtype": dt})
        cases.append({"kind": "parity_vec", "rows": rows, "marked": list(range(w)), "dtype": dt})
        pv = _pv_history(rng)
        pv["dtype"] = dt
        cases.append(pv)
    # -- very many marked ones in a narrow dtype (300 ones: beyond int8 / uint8)
    for dt in ["int8", "uint8", "bool"]:
        w = rng.choice([130, 257, 300])
        rows = ["1" * w, "1" * (w - 1) + "0", "0" * w, "01" * (w // 2) + "1" * (w % 2)]
        cases.append({"kind": "parity_vec", "rows": rows, "marked": list(range(w)), "dtype": dt})
    return cases


def _degenerate(rng, big):
    """DEGENERATE DENOMINATORS on every route: the number of shots (sample means, correlations, plain covariances, the empirical
    distribution), one less (Bessel's correction), the total of the frequencies, the tallies of one term - each AT 0 and right
    next to it (1, 2), for several operators (several terms with constants among them, constants only, one term as PauliTerm /
    PauliSum, repeated supports, zero coefficients, other magnitudes, typed bits / coefficients), on fresh objects and on ONE
    long-lived Measurements object / frequency dict that passes through the degenerate content"""
    cases = []
    z = lambda *qs: [[q, "Z"] for q in qs]  # noqa: E731

    def operators(w):
        full = _terms(rng, w, rng.randrange(3, 6), True)
        full.insert(rng.randrange(len(full) + 1), {"coeff": rat(_dyadic(rng) or Fraction(5, 2)), "ops": []})
        a, b = rng.randrange(w), rng.randrange(w)
        full += [{"coeff": rat(_dyadic(rng) or Fraction(1)), "ops": z(a)}, {"coeff": rat(_dyadic(rng) or Fraction(-3)), "ops": z(*dict.fromkeys([a, b]))}]
        const = [{"coeff": rat(x), "ops": []} for x in rng.sample([Fraction(1, 2), Fraction(2), Fraction(-3), Fraction(0)], rng.randrange(1, 4))]
        one = [{"coeff": rat(_dyadic(rng) or Fraction(3, 2)), "ops": z(*rng.sample(range(w), rng.randrange(1, w + 1)))}]
        scaled, _ = _rescale(rng, full[: rng.randrange(2, len(full) + 1)], rng.choice(["pow2", "mixed2"]))
        return [("full", full), ("const", const), ("one", one), ("scaled", scaled)]

    for rep in range(3 if big else 1):
        for n in (0, 1, 2):
            w = rng.randrange(1, 6)
            shots = _shots(rng, w, n) if n else []
            if n == 2 and rng.random() < 0.7 and shots[0] == shots[1]:
                shots[1] = _flip(shots[1], rng.randrange(w))
            for name, terms in operators(w):
                for bessel in (False, True):
                    c = {"kind": "ev", "shots": list(shots), "terms": terms, "bessel": bessel, "exact": False, "degenerate": f"shots={n}"}
                    if name == "one":
                        c["single"] = bessel
                    if name == "full" and n and rng.random() < 0.5:
                        c["coef"] = rng.choice(["int", "np"]) if all(unrat(t["coeff"]).denominator == 1 for t in terms) else "arith"
                    if name == "const" and n and rng.random() < 0.5:
                        c["bit_ty"] = rng.choice(["bool", "uint8", "arr:int8"])
                    cases.append(c)
                cases.append({"kind": "parities", "shots": list(shots), "terms": terms, "degenerate": f"shots={n}"})
            cases.append({"kind": "dist", "shots": list(shots), "degenerate": f"shots={n}"})
    # -- ONE Measurements object that shrinks to one shot, to none, and grows again; both flags at every size
    for rep in range(6 if big else 2):
        w = rng.randrange(1, 5)
        ops = [t for _, t in operators(w)][:2]
        init = _shots(rng, w, 3)
        both = lambda op: [{"do": "ev", "op": op, "bessel": b} for b in rng.sample([False, True], 2)]  # noqa: E731
        steps = both(0) + [{"do": "swap", "drop": 2, "shots": []}] + both(0) + both(1) + [{"do": "parities", "op": 0}, {"do": "dist"}]
        steps += [{"do": "extend", "shots": _shots(rng, w, 1)}] + both(0) + [{"do": "swap", "drop": 2, "shots": []}] + both(rep % 2) + [{"do": "parities", "op": 1}]
        steps += [{"do": "new", "shots": _shots(rng, w, 1)}] + both(1) + [{"do": "counts"}, {"do": "add_counts", "counts": [[init[0], 1]]}] + both(0)
        cases.append({"kind": "history", "init": [init], "init_via": [rng.choice(["list", "from_counts"])], "operators": ops, "steps": steps,
                      "degenerate": "history"})
    # -- frequencies whose total is 0 (every frequency 0; no keys at all), next to totals of 1 and 2
    for rep in range(12 if big else 6):
        w = rng.randrange(1, 6)
        keys = list(dict.fromkeys(_shots(rng, w, rng.randrange(1, 5))))
        marked = rng.sample(range(w), rng.randrange(0, w + 1))
        form = rng.choice([None, "Counter", "OrderedDict", "np", "np:uint8"])
        for tot in (0, 0, 1, 2)[rep % 2:][:3]:
            vals = [0] * len(keys)
            for _ in range(tot):
                vals[rng.randrange(len(keys))] += 1
            c = {"kind": "freq", "marked": marked, "freq": [[kk, v] for kk, v in zip(keys, vals)], "degenerate": f"total={tot}",
                 "marked_as": rng.choice(["tuple", "frozenset", "set", "list"])}
            if form:
                c["freq_as"] = form
            cases.append(c)
    cases.append({"kind": "freq", "marked": [0] if rng.random() < 0.5 else [], "freq": [], "degenerate": "total=0"})
    for rep in range(4 if big else 2):  # ONE dict whose total passes through 0
        w = rng.randrange(1, 5)
        keys = list(dict.fromkeys(_shots(rng, w, 3)))
        marked = rng.sample(range(w), rng.randrange(1, w + 1))
        steps = [{"do": "query", "marked": marked}]
        for kk in keys:
            steps.append({"do": "set", "key": kk, "value": 0})
        steps += [{"do": "query", "marked": marked}, {"do": "query", "marked": [], "as_set": True},
                  {"do": "set", "key": rng.choice(keys), "value": 1}, {"do": "query", "marked": marked},
                  {"do": "copy"}, {"do": "set", "key": keys[0], "value": 0}, {"do": "query", "marked": marked}]
        cases.append({"kind": "freq_history", "freq": [[kk, rng.randrange(1, 4)] for kk in keys], "steps": steps, "degenerate": "history"})
    # -- parity tallies -> expectation values: terms without any sample next to terms with 1, 2, many
    for rep in range(24 if big else 10):
        nt = rng.randrange(1, 6)
        tallies = []
        for i in range(nt):
            tot = rng.choice([0, 1, 2, 3, 100, 257])
            e = rng.randrange(tot + 1)
            tallies.append([e, tot - e])
        if rep % 3 == 0:
            tallies[rng.randrange(nt)] = [0, 0]
        elif rep % 3 == 1:
            tallies = [t if t[0] + t[1] else [1, 0] for t in tallies]
        c = {"kind": "from_parities", "tallies": tallies, "dtype": rng.choice(["int", "float", "int32", "uint8" if max(sum(t) for t in tallies) < 256 else "int"]),  # the tallies AND their totals fit the type
             "pairs": rng.random() < 0.5, "degenerate": "tally=0" if any(t[0] + t[1] == 0 for t in tallies) else "tally>0"}
        cases.append(c)
    return cases


def generate(rng, tier):
    big = tier == "thorough"
    maxw, maxn, maxt = (8, 200, 7) if big else (6, 60, 5)
    cases = []
    # ---- expectation values / parities: valid stream
    for i in range(900 if big else 150):
        w = rng.randrange(1, maxw + 1)
        exact = rng.random() < 0.4
        if exact:
            n = rng.choice([1, 2, 4, 8, 16, 32, 64] + ([128] if big else []))
        else:
            n = rng.choice([1, 2, 3, rng.randrange(1, maxn + 1), rng.randrange(1, maxn + 1)])
        nt = rng.randrange(0, maxt + 1) if rng.random() < 0.1 else rng.randrange(2, maxt + 1)
        terms = _terms(rng, w, nt, exact)
        bessel = rng.random() < 0.4
        c = {"kind": "ev", "shots": _shots(rng, w, n), "terms": terms, "bessel": bessel, "exact": exact and not bessel}
        if nt == 1:
            c["single"] = rng.random() < 0.5
        cases.append(c)
    # ---- wide registers: qubit indices of several digits, supports that differ only in how their digits group
    #      ({1,2} vs {12}, {1,13} vs {11,3}); few shots keep it cheap
    for i in range(60 if big else 12):
        w = rng.randrange(13, 25)
        n = rng.choice([1, 2, 4, 8, rng.randrange(1, 12)])
        a, b = rng.randrange(1, 3), rng.randrange(0, 10)
        pairs = [[[a, b], [10 * a + b]]] if 10 * a + b < w and a != b else []
        terms = _terms(rng, w, rng.randrange(1, 4), True)
        for grp in pairs:
            for qs in grp:
                terms.append({"coeff": rat(Fraction(rng.randrange(-12, 13), 4)), "ops": [[q, "Z"] for q in qs]})
        rng.shuffle(terms)
        cases.append({"kind": "ev", "shots": _shots(rng, w, n), "terms": terms, "bessel": False, "exact": n in (1, 2, 4, 8)})
        cases.append({"kind": "parities", "shots": _shots(rng, w, n), "terms": terms})
    for i in range(500 if big else 80):
        w = rng.randrange(1, maxw + 1)
        n = rng.choice([1, 2, rng.randrange(1, maxn + 1)])
        cases.append({"kind": "parities", "shots": _shots(rng, w, n), "terms": _terms(rng, w, rng.randrange(1, maxt + 1), True)})
    # ---- counts / add_counts / distribution
    for i in range(400 if big else 60):
        w = rng.randrange(0 if rng.random() < 0.05 else 1, maxw + 1)
        n = rng.choice([0, 1, 2, rng.randrange(1, maxn + 1), rng.randrange(1, maxn + 1)])
        shots = _shots(rng, w, n)
        cases.append({"kind": "counts", "shots": shots})
        cases.append({"kind": "dist", "shots": shots})
        keys = list(dict.fromkeys(_shots(rng, w, rng.randrange(0, 6))))
        counts = [[k, rng.choice([0, 1, 1, 2, 3, 7, -1]) if rng.random() < 0.3 else rng.randrange(1, 9)] for k in keys]
        cases.append({"kind": "add_counts", "shots": shots[: rng.randrange(0, 4)], "counts": counts})
    # ---- frequencies observable and the vectorised parity
    for i in range(400 if big else 60):
        w = rng.randrange(1, maxw + 1)
        keys = list(dict.fromkeys(_shots(rng, w, rng.randrange(1, 8))))
        freq = [[k, rng.randrange(1, 40)] for k in keys]
        marked = rng.sample(range(w), rng.randrange(0, w + 1))
        cases.append({"kind": "freq", "marked": marked, "freq": freq, "as_set": rng.random() < 0.5})
        rows = _shots(rng, w, rng.randrange(1, 10))
        cases.append({"kind": "parity_vec", "rows": rows, "marked": rng.sample(range(w), rng.randrange(0, w + 1))})
    # ---- malformed / boundary stream
    for i in range(200 if big else 40):
        w = rng.randrange(1, 5)
        n = rng.randrange(1, 10)
        r = rng.randrange(8)
        terms = _terms(rng, w, rng.randrange(1, 4), True)
        shots = _shots(rng, w, n)
        kind = rng.choice(["ev", "parities"])
        if r == 0:  # non-Ising
            terms[rng.randrange(len(terms))]["ops"] = [[rng.randrange(w), rng.choice(["X", "Y"])]]
        elif r == 1:  # a qubit outside the measured width
            terms[rng.randrange(len(terms))]["ops"].append([w + rng.randrange(0, 2), "Z"])
        elif r == 2:  # zero shots
            shots = []
        elif r == 3:  # a single shot with Bessel's correction: covariances undefined
            shots, kind = shots[:1], "ev"
        elif r == 4:  # width 0 (only constant operators make sense)
            shots = [""] * n
            terms = [{"coeff": t["coeff"], "ops": []} for t in terms]
        elif r == 5:  # frequencies with ragged keys / zero totals
            keys = list(dict.fromkeys(_shots(rng, w, 3) + _shots(rng, rng.randrange(0, 4), 2)))
            zero = rng.random() < 0.3
            cases.append({"kind": "freq", "marked": [0] if rng.random() < 0.7 else [],
                          "freq": [[k, 0 if zero else rng.randrange(0, 4)] for k in keys]})
            continue
        elif r == 6:  # frequencies: marked qubit outside, repeated marks
            keys = list(dict.fromkeys(_shots(rng, w, 3)))
            cases.append({"kind": "freq", "marked": [rng.randrange(0, w + 2) for _ in range(rng.randrange(1, 4))],
                          "freq": [[k, rng.randrange(1, 5)] for k in keys]})
            continue
        else:  # empty operator
            terms = []
        c = {"kind": kind, "shots": shots, "terms": terms}
        if kind == "ev":
            c.update({"bessel": r == 3 or rng.random() < 0.3, "exact": False})
        cases.append(c)
    # ---- histories on ONE long-lived object: read a statistic, change the shots (mostly keeping their number),
    #      read every statistic again; the same operator objects are reused for all calls of a history
    for i in range(260 if big else 45):
        cases.append(_history(rng, big))
    for i in range(80 if big else 15):
        cases.append(_freq_history(rng))
        cases.append(_pv_history(rng))
    # ---- the same statistics at other magnitudes (a fresh generator: the streams above stay as they were)
    import random as _random
    cases += _magnitudes(_random.Random(rng.getrandbits(64)), big)
    # ---- wide registers x nearly equal outcomes (differences only beyond / only before a position boundary)
    cases += _boundary_siblings(_random.Random(rng.getrandbits(64)), big)
    # ---- twins on ONE Measurements / operator object; special shapes and forms of legal input
    r3 = _random.Random(rng.getrandbits(64))
    for i in range(120 if big else 30):
        cases.append(_twin_history(r3, big))
    cases += _forms(_random.Random(rng.getrandbits(64)), big)
    # ---- number types of bits / counts / coefficients / bit arrays (a fresh generator: the streams above stay as they were)
    cases += _types(_random.Random(rng.getrandbits(64)), big)
    # ---- degenerate denominators (0 / 1 / 2 shots x both Bessel settings, zero totals, zero tallies) on every route
    cases += _degenerate(_random.Random(rng.getrandbits(64)), big)
    return cases


def _different_batch(rng, w, n, cur):
    for _ in range(6):
        b = _shots(rng, w, n)
        if Counter(b) != Counter(cur):
            return b
    return [("1" if ch == "0" else "0") + s[1:] for s in cur for ch in s[:1]] if w else list(cur)


def _history(rng, big):
    w = rng.randrange(1, 6)
    n = rng.choice([1, 2, 3, 4, 4, rng.randrange(1, 25 if big else 13)])
    nobj = 2 if rng.random() < 0.3 else 1
    shadows = [_shots(rng, w, n) for _ in range(nobj)]
    init = [list(x) for x in shadows]
    operators = [_terms(rng, w, rng.randrange(1, 4), True) for _ in range(rng.randrange(1, 3))]
    if rng.random() < 0.4:  # siblings of the first operator that differ from it in the magnitude of the coefficients only
        for _ in range(rng.randrange(1, 3)):
            operators.append(_rescale(rng, operators[0])[0])
    steps = []

    def query(kind, j):
        st = {"do": kind, "obj": j}
        if kind in ("ev", "parities"):
            st["op"] = rng.randrange(len(operators))
        if kind == "ev":
            st["bessel"] = rng.random() < 0.3
        steps.append(st)

    def mutate(j):
        cur = shadows[j]
        r = rng.random()
        if r < 0.4 or not cur:
            st = {"do": "replace", "shots": _different_batch(rng, w, len(cur) if rng.random() < 0.85 else rng.randrange(1, 9), cur)}
        elif r < 0.65:
            k = rng.randrange(len(cur))
            bits = list(cur[k])
            q = rng.randrange(w)
            bits[q] = "1" if bits[q] == "0" else "0"
            st = {"do": "setitem", "index": k, "shot": "".join(bits)}
        elif r < 0.8:
            k = rng.randrange(1, len(cur) + 1)
            st = {"do": "swap", "drop": k, "shots": _shots(rng, w, k)}
        elif r < 0.85:
            st = {"do": "extend", "shots": _shots(rng, w, rng.randrange(1, 4))}
        elif r < 0.93:
            keys = list(dict.fromkeys(_shots(rng, w, rng.randrange(1, 4))))
            st = {"do": "add_counts", "counts": [[kk, rng.randrange(1, 4)] for kk in keys]}
        else:
            st = {"do": "new", "shots": _different_batch(rng, w, len(cur), cur)}
        st["obj"] = j
        steps.append(st)
        shadows[j] = _apply(cur, st)

    for j in range(nobj):  # prime whatever might be remembered
        for kind in rng.sample(["counts", "dist", "ev", "save", "parities"], rng.randrange(1, 3)):
            query(kind, j)
    for _ in range(rng.randrange(2, 4)):
        j = rng.randrange(nobj)
        mutate(j)
        kinds = ["counts", "dist", "ev", "parities"] + (["save"] if rng.random() < 0.25 else [])
        rng.shuffle(kinds)
        for kind in kinds:
            query(kind, j)
        if nobj == 2 and rng.random() < 0.5:  # the other object must be unaffected
            query(rng.choice(["counts", "ev", "dist"]), 1 - j)
    return {"kind": "history", "init": init, "operators": operators, "steps": steps}


def _freq_history(rng):
    w = rng.randrange(1, 6)
    keys = list(dict.fromkeys(_shots(rng, w, rng.randrange(1, 6))))
    freq = [[k, rng.randrange(1, 20)] for k in keys]
    cur = dict(map(tuple, freq))
    steps = []
    for _ in range(rng.randrange(2, 5)):
        steps.append({"do": "query", "marked": rng.sample(range(w), rng.randrange(0, w + 1)), "as_set": rng.random() < 0.5,
                      "marked_as": rng.choice([None, None, "tuple", "frozenset"])})
        r = rng.random()
        if r < 0.45:  # same keys, same number of entries, other frequencies
            k = rng.choice(list(cur))
            cur[k] = cur[k] + rng.randrange(1, 30)
            steps.append({"do": "set", "key": k, "value": cur[k]})
        elif r < 0.7:
            k = format(rng.randrange(2 ** w), f"0{w}b")
            cur[k] = rng.randrange(1, 20)
            steps.append({"do": "set", "key": k, "value": cur[k]})
        elif r < 0.8 and len(cur) > 1:
            k = rng.choice(list(cur))
            del cur[k]
            steps.append({"do": "del", "key": k})
        elif r < 0.88:  # same weights in the same order, one outcome renamed
            k = rng.choice(list(cur))
            new = format(rng.randrange(2 ** w), f"0{w}b")
            if new not in cur:
                cur = {(new if kk == k else kk): v for kk, v in cur.items()}
                steps.append({"do": "rekey", "key": k, "new": new})
        elif r < 0.94 and len(set(cur.values())) > 1:  # same outcomes, two weights exchanged
            a, b = rng.sample(list(cur), 2)
            if cur[a] != cur[b]:
                cur[a], cur[b] = cur[b], cur[a]
                steps.append({"do": "swap_values", "a": a, "b": b})
        else:
            steps.append({"do": "copy"})
    steps.append({"do": "query", "marked": rng.sample(range(w), rng.randrange(0, w + 1)), "as_set": False})
    return {"kind": "freq_history", "freq": freq, "steps": steps}


def _pv_history(rng):
    w = rng.randrange(1, 6)
    rows = _shots(rng, w, rng.randrange(1, 7))
    steps = []
    for _ in range(rng.randrange(2, 5)):
        steps.append({"do": "query", "marked": rng.sample(range(w), rng.randrange(0, w + 1))})
        steps.append({"do": "flip", "row": rng.randrange(len(rows)), "col": rng.randrange(w)})
    steps.append({"do": "query", "marked": rng.sample(range(w), rng.randrange(1, w + 1))})
    return {"kind": "pv_history", "rows": rows, "steps": steps}


def _overlap(terms):
    sup = [set(q for q, _ in t["ops"]) for t in terms]
    return any(sup[i] & sup[j] for i in range(len(sup)) for j in range(i))


def nontrivial(c):
    c = _norm(c)
    k = c["kind"]
    if k == "history":  # a query, a change of the shots that keeps their number, a query
        seen_q = False
        for st in c["steps"]:
            if st["do"] in QUERIES:
                seen_q = True
            elif seen_q and st["do"] in ("replace", "setitem", "swap", "new", "assign") + OP_STEPS:
                return True
        return False
    if k in ("freq_history", "pv_history"):
        return sum(1 for st in c["steps"] if st["do"] == "query") >= 2
    if k in ("ev", "parities"):
        return len(c["terms"]) >= 2 and _overlap(c["terms"]) and len(set(c["shots"])) >= 2
    if k in ("counts", "dist"):
        return len(set(c["shots"])) >= 2 and len(set(c["shots"])) < len(c["shots"])
    if k == "add_counts":
        return len(c["counts"]) >= 2 and any(v >= 2 for _, v in c["counts"])
    if k == "freq":
        return len(c["marked"]) >= 2 and len(c["freq"]) >= 2
    if k == "parity_vec":
        return len(c["marked"]) >= 2 and len(set(c["rows"])) >= 2
    return False


# ------------------------------------------------------------------ implementation
BIT_TYPES = ["bool", "np.bool_", "int8", "uint8", "int16", "int32", "int64", "uint64", "mixed",
             "arr:int8", "arr:uint8", "arr:bool", "arr:int64", "arr:int32"]


def _bit_caster(bit_ty):
    """bit_ty -> function (shot index, position, 0/1) -> the bit as an object of that type (True == 1, np.int8(1) == 1, ...)"""
    np = _mods()[0]
    if bit_ty == "bool":
        return lambda i, k, b: bool(b)
    if bit_ty == "np.bool_":
        return lambda i, k, b: np.bool_(b)
    if bit_ty == "mixed":  # every bit of a shot another integer-like type (what concatenated sources hand over)
        ty = [np.int8, bool, np.uint8, int, np.int64, np.bool_, np.uint64, np.int16]
        return lambda i, k, b: ty[(i + k) % len(ty)](b)
    t = getattr(np, bit_ty)
    return lambda i, k, b: t(b)


def _tuples(shots, np_bits=False, bit_ty=None):
    """the measured bitstrings as the list of tuples a caller hands over.  bit_ty (see BIT_TYPES): the TYPE of the bits - Python
    bool, numpy bool / signed / unsigned integers of every width, mixed, or "arr:<dtype>": the rows of a 2-d numpy array of
    that dtype turned into tuples (tuples of numpy scalars; the array itself / its rows are unhashable and are refused by the
    library with TypeError)"""
    if bit_ty:
        np = _mods()[0]
        if bit_ty.startswith("arr:"):
            distinct = list(dict.fromkeys(shots))
            if not distinct or not distinct[0]:
                return [() for _ in shots]
            arr = np.array([[int(ch) for ch in s] for s in distinct], dtype=bit_ty[4:])
            memo = {s: tuple(row) for s, row in zip(distinct, arr)}
            return [memo[s] for s in shots]
        cast = _bit_caster(bit_ty)
        memo = {}
        out = []
        for i, s in enumerate(shots):
            if s not in memo:
                memo[s] = tuple(cast(i, k, int(ch)) for k, ch in enumerate(s))
            out.append(memo[s])
        return out
    if np_bits:  # bits as numpy integers of mixed width (what a simulator hands over); still 0/1
        np = _mods()[0]
        ty = [np.int8, np.int64, np.uint8, np.int32]
        return [tuple(ty[(i + k) % 4](int(ch)) for k, ch in enumerate(s)) for i, s in enumerate(shots)]
    memo = {}
    return [memo.setdefault(s, tuple(int(ch) for ch in s)) for s in shots]


def _forget_bitstrings():
    """the library remembers tuple -> text per tuple VALUE (functools.lru_cache); (True, False), (np.int8(1), 0) and (1, 0) are
    one key there, so a typed case is run with nothing remembered and leaves nothing behind for the cases after it"""
    try:
        from orquestra.quantum import utils
        for name in ("tuple_to_bitstring", "bitstring_to_tuple"):
            getattr(getattr(utils, name, None), "cache_clear", lambda: None)()
    except Exception:  # noqa: BLE001
        pass


def _norm(c):
    """cases with very many shots carry them run-length coded ("rle": [[bitstring, multiplicity], ...])"""
    if "rle" in c and "shots" not in c:
        c = dict(c)
        c["shots"] = [s for s, k in c["rle"] for _ in range(k)]
    return c


def _strs(tuples):
    memo = {}
    out = []
    for t in tuples:
        t = tuple(t)
        if t not in memo:
            memo[t] = "".join(str(int(b)) for b in t)
        out.append(memo[t])
    return out


def _num(x):
    """exact value of a python/numpy real as 'p/q'; non-finite -> None"""
    x = float(x)
    if not math.isfinite(x):
        return None
    return rat(Fraction(x))


def _cnum(z):
    """a complex entry: (real part, imaginary part is exactly zero?)"""
    z = complex(z)
    if not (math.isfinite(z.real) and math.isfinite(z.imag)):
        return None
    return [rat(Fraction(z.real)), rat(Fraction(z.imag))]


COEF_TYPES = ["f32", "c64", "i8", "i16", "i32", "u8", "u64", "Fraction", "bool", "np.bool_", "typemix"]
_INT_FORMS = {"i8": "int8", "i16": "int16", "i32": "int32", "u8": "uint8", "u64": "uint64"}


def _typed_coef(f, form, salt=0):
    """the rational f as an object of the number type `form`, or None when that type cannot hold f exactly"""
    np = _mods()[0]
    if form == "typemix":
        order = ["Fraction", "i8", "f32", "bool", "c64", "u8", "i32", "np.bool_", "u64", "i16"]
        for j in range(len(order)):
            v = _typed_coef(f, order[(salt + j) % len(order)])
            if v is not None:
                return v
        return None
    if form == "Fraction":
        return Fraction(f)
    if form in ("bool", "np.bool_"):
        if f in (0, 1):
            return bool(f) if form == "bool" else np.bool_(bool(f))
        return None
    if form in _INT_FORMS:
        info = np.iinfo(_INT_FORMS[form])
        if f.denominator == 1 and info.min <= f <= info.max:
            return getattr(np, _INT_FORMS[form])(int(f))
        return None
    if form in ("f32", "c64", "f16"):
        t = {"f32": np.float32, "c64": np.float32, "f16": np.float16}[form]
        with warnings.catch_warnings():
            warnings.simplefilter("ignore")
            x = t(float(f))
        if not math.isfinite(float(x)) or Fraction(float(x)) != f:
            return None
        return np.complex64(complex(float(f), 0.0)) if form == "c64" else x
    return None


def _coef_value(f, exact, form, salt=0):
    """the Python object handed to PauliTerm as coefficient: float (default), python int for integers ("exact" cases and
    form "int"), numpy scalars (form "np"), or a value of one of COEF_TYPES where that type holds the number exactly"""
    if form in COEF_TYPES:
        v = _typed_coef(Fraction(f), form, salt)
        if v is not None:
            return v
        return int(f) if f.denominator == 1 and exact else float(f)
    if form == "np":
        np = _mods()[0]
        return np.int64(int(f)) if (f.denominator == 1 and abs(f) < 2 ** 62) else np.float64(float(f))
    if f.denominator == 1 and (exact or form == "int"):
        return int(f)
    return float(f)


def _operator(c, PauliSum, PauliTerm):
    """the operator in the form the case asks for: PauliTerm objects with float / int / numpy / complex-typed coefficients
    ("coef"), every term written as text and parsed ("str"), or built by multiplying one-qubit terms and a number ("arith":
    the library then stores a complex coefficient and the qubits in the order of the factors)"""
    form = c.get("coef")
    ts = []
    for t in c["terms"]:
        f = unrat(t["coeff"])
        ops = [(int(q), l) for q, l in t["ops"]]
        text = repr(float(f)) + "*" + ("*".join(f"{l}{q}" for q, l in ops) if ops else "I0")
        if form == "str" and "+" not in text and "inf" not in text:
            term = PauliTerm(text)
        elif form == "arith" and all(l == "Z" for _, l in ops):
            term = PauliTerm("I0", 1.0)
            for q, l in ops:
                term = term * PauliTerm({q: l})
            term = term * float(f)
            if not isinstance(term, PauliTerm):  # a product of two terms is a term; anything else is not what we want to test
                term = PauliTerm(dict(ops), complex(float(f), 0.0))
        elif form in ("complex", "str", "arith"):
            term = PauliTerm(dict(ops), complex(float(f), 0.0))
        else:
            term = PauliTerm(dict(ops), _coef_value(f, c.get("exact"), form, len(ts)))
        ts.append(term)
    if c.get("single") and len(ts) == 1:
        return ts[0]
    return PauliSum(ts)


def _guard(fn):
    """expected exceptions -> small strings; anything else propagates to the runner"""
    try:
        with warnings.catch_warnings():
            warnings.simplefilter("ignore")
            return fn()
    except TypeError as e:
        return {"err": "err:type", "msg": str(e)[:100]}
    except IndexError as e:
        return {"err": "err:index", "msg": str(e)[:100]}
    except ValueError as e:
        return {"err": "err:value", "msg": str(e)[:100]}
    except RuntimeError as e:
        return {"err": "err:runtime", "msg": str(e)[:100]}


POISON = 123456.0


class _Held:
    """everything a call handed out is overwritten right after it was read (a later call must not hand the same storage
    out again) and remembered: a later call must not write into it either (an earlier report stays what it was)"""

    def __init__(self):
        self.arrays = []
        self.dicts = []
        self.ok = True

    def check(self):
        """called right after a library call, before its own results are overwritten"""
        if not self.intact():
            self.ok = False

    def poison_arrays(self, arrs):
        for a in arrs:
            try:
                a.fill(POISON)
                self.arrays.append(a)
            except Exception:
                pass

    def poison_dict(self, d, bump):
        try:
            for kk in list(d):
                d[kk] = bump(d[kk])
            self.dicts.append((d, dict(d)))
        except Exception:
            pass

    def intact(self):
        for a in self.arrays:
            try:
                if not bool((a == POISON).all()):
                    return False
            except Exception:
                return False
        return all(d == snap and list(d) == list(snap) for d, snap in self.dicts)


def _ev_once(m, op, bessel, held):
    np = _mods()[0]
    before = list(m.bitstrings)
    ev = m.get_expectation_values(op, bessel)
    held.check()
    vals = np.asarray(ev.values)
    out = {"values": [_cnum(v) for v in vals.tolist()] if vals.size else [],
           "n_corr": len(ev.correlations), "n_cov": len(ev.estimator_covariances),
           "correlations": [[_cnum(x) for x in row] for row in np.asarray(ev.correlations[0]).tolist()],
           "covariances": [[_cnum(x) for x in row] for row in np.asarray(ev.estimator_covariances[0]).tolist()],
           "shape": [list(vals.shape), list(np.asarray(ev.correlations[0]).shape),
                     list(np.asarray(ev.estimator_covariances[0]).shape)],
           "shots_intact": before == m.bitstrings}
    held.poison_arrays([ev.values] + list(ev.correlations) + list(ev.estimator_covariances))
    return out


def _obs_ev(m, op, bessel, held=None):
    """the call, then the same objects again with the other flag, then with the first flag once more"""
    held = held if held is not None else _Held()
    out = _ev_once(m, op, bessel, held)
    if 1 <= len(m.bitstrings) <= 40000:  # with ONE shot too: the other flag is the one whose divisor is 0 (or the one whose is not)
        out["again"] = []
        for b in (not bessel, bessel):
            o = _ev_once(m, op, b, held)
            o["bessel"] = b
            out["again"].append(o)
    out["earlier_intact"] = held.ok and held.intact()
    return out


def _parities_once(measurements, op, held):
    np, _, _, pp, _, _ = _mods()
    from orquestra.quantum.measurements import expectation_values as evm
    before = list(measurements)
    p = pp.get_parities_from_measurements(measurements, op)
    held.check()
    vals = np.asarray(p.values)
    out = {"values": [[_num(a), _num(b)] for a, b in vals.tolist()] if vals.size else [],
           "n_corr": len(p.correlations),
           "correlations": [[[_num(a), _num(b)] for a, b in row] for row in np.asarray(p.correlations[0]).tolist()],
           "measurements_intact": before == list(measurements)}
    # the second route to the same means: expectation values from the tallies, (even - odd) / (even + odd)
    try:
        with warnings.catch_warnings():
            warnings.simplefilter("ignore")
            route = evm.get_expectation_values_from_parities(p)
        out["route"] = [_num(v) for v in np.asarray(route.values).tolist()]
    except ValueError as e:
        out["route_err"] = str(e)[:80]
    held.poison_arrays([p.values] + list(p.correlations))
    return out


def _obs_parities(measurements, op, held=None):
    """`measurements` is passed as the very list object the caller holds; asked twice"""
    held = held if held is not None else _Held()
    out = _parities_once(measurements, op, held)
    if len(measurements) <= 40000:
        out["again"] = [_parities_once(measurements, op, held)]
    out["earlier_intact"] = held.ok and held.intact()
    return out


def _obs_from_parities(np, pp, c):
    """expectation values straight from parity tallies (a Parities object as its users build it: an N x 2 array, optionally the pair
    tallies); asked twice on the same object"""
    from orquestra.quantum.measurements import expectation_values as evm
    vals = np.array(c["tallies"], dtype=c.get("dtype") or int).reshape(-1, 2)
    corr = None
    if c.get("pairs"):
        nt = len(c["tallies"])
        corr = [np.array([[[max(a[0] + a[1], b[0] + b[1]), 0] for b in c["tallies"]] for a in c["tallies"]], dtype=c.get("dtype") or int).reshape(nt, nt, 2)]
    p = pp.Parities(vals, corr)
    outs = []
    for _ in range(2):
        e = evm.get_expectation_values_from_parities(p)
        cov = e.estimator_covariances
        outs.append({"values": [_num(v) for v in np.asarray(e.values).tolist()],
                     "cov": ["absent"] * len(c["tallies"]) if cov is None else [_num(np.asarray(x).reshape(-1)[0]) for x in cov],
                     "arg_intact": np.asarray(p.values).tolist() == np.array(c["tallies"]).tolist()})
    out = outs[0]
    out["again"] = outs[1:]
    return out


COUNT_TYPES = ["np:int8", "np:uint8", "np:int16", "np:int32", "np:uint32", "np:uint64", "bool"]


def _counts_form(pairs, form, total_in_type=False):
    """the histogram argument in the forms a caller may hold it: dict, Counter, OrderedDict, numpy integer counts of every
    width ("np" = int64, "np:<dtype>"), Python bools for counts 0 / 1.  A count the type cannot hold stays a Python int;
    total_in_type: the TOTAL must fit the type too (frequencies: the unchanged library adds them up in their own type)"""
    import collections
    if form == "Counter":
        d = collections.Counter()
        for kk, v in pairs:
            d[kk] = v
        return d
    if form == "OrderedDict":
        return collections.OrderedDict((kk, v) for kk, v in pairs)
    if form == "np":
        np = _mods()[0]
        return {kk: np.int64(v) for kk, v in pairs}
    if form == "bool":
        return {kk: (bool(v) if v in (0, 1) else v) for kk, v in pairs}
    if form and form.startswith("np:"):
        np = _mods()[0]
        if form.endswith("!"):      # (corpus only) the type is forced although the TOTAL leaves it: the known finding
            form, total_in_type = form[:-1], False
        info = np.iinfo(form[3:])
        t = getattr(np, form[3:])
        if total_in_type and not (sum(max(v, 0) for _, v in pairs) <= info.max and sum(min(v, 0) for _, v in pairs) >= info.min):
            return {kk: v for kk, v in pairs}
        return {kk: (t(v) if info.min <= v <= info.max else v) for kk, v in pairs}
    return {kk: v for kk, v in pairs}


def _counts_once(m, held):
    Measurements = _mods()[1]
    counts = m.get_counts()
    held.check()
    out = {"counts": [[kk, int(v)] for kk, v in counts.items()], "is_dict": isinstance(counts, dict)}
    back = Measurements.from_counts(counts)
    out["arg_intact"] = [[kk, int(v)] for kk, v in counts.items()] == out["counts"]
    out["back"] = _strs(back.bitstrings)
    out["back_counts"] = [[kk, int(v)] for kk, v in back.get_counts().items()]
    held.poison_dict(counts, lambda v: v + 3)  # poison the returned dict
    return out


def _obs_counts(m, held=None):
    held = held if held is not None else _Held()
    out = _counts_once(m, held)
    if len(m.bitstrings) <= 40000:
        out["again"] = [_counts_once(m, held)]
    out["earlier_intact"] = held.ok and held.intact()
    return out


def _obs_add_counts(m, pairs, form=None):
    Measurements = _mods()[1]
    arg = _counts_form(pairs, form)
    m.add_counts(arg)
    fresh = Measurements.from_counts(arg)
    return {"bitstrings": _strs(m.bitstrings), "counts": [[kk, int(v)] for kk, v in m.get_counts().items()],
            "from_counts": _strs(fresh.bitstrings), "arg_intact": [[kk, int(v)] for kk, v in arg.items()] == [list(x) for x in pairs]}


def _dist_once(m, held):
    d = m.get_distribution()
    held.check()
    out = {"dist": [["".join(str(int(b)) for b in kk), _num(v)] for kk, v in d.distribution_dict.items()]}
    held.poison_dict(d.distribution_dict, lambda v: 0.123)
    return out


def _obs_dist(m, held=None):
    held = held if held is not None else _Held()
    out = _dist_once(m, held)
    if len(m.bitstrings) <= 40000:
        out["again"] = [_dist_once(m, held)]
    out["earlier_intact"] = held.ok and held.intact()
    return out


def _obs_save(m):
    import json
    import os
    import tempfile
    fd, path = tempfile.mkstemp(suffix=".json", prefix="c10_")
    os.close(fd)
    try:
        m.save(path)
        with open(path) as f:
            data = json.load(f)
    finally:
        os.remove(path)
    return {"counts": [[kk, int(v)] for kk, v in data["counts"].items()],
            "bitstrings": ["".join(str(int(b)) for b in t) for t in data["bitstrings"]]}


def _marked_form(marked, form):
    if form == "set":
        return set(marked)
    if form == "frozenset":
        return frozenset(marked)
    if form == "tuple":
        return tuple(marked)
    if form == "nptuple":  # qubit indices as numpy integers of several widths
        np = _mods()[0]
        ty = [np.int64, np.int8 if all(q < 128 for q in marked) else np.int32, np.uint8 if all(q < 256 for q in marked) else np.uint32, np.intp]
        return tuple(ty[i % 4](q) for i, q in enumerate(marked))
    return list(marked)


def _obs_freq(mm, marked, form, d):
    """asked twice with the very same `marked` and dict objects"""
    arg = _marked_form(marked, "set" if form is True else form)
    outs = []
    for _ in range(2):
        before = list(d.items())
        v = mm.get_expectation_value_from_frequencies(arg, d)
        outs.append({"value": _num(v), "is_float": isinstance(v, float), "arg_intact": before == list(d.items())})
    out = outs[0]
    out["again"] = outs[1:]
    return out


def _obs_parity_vec(np, pp, arr, marked):
    held = _Held()
    arg = list(marked)
    outs = []
    for _ in range(2):
        before = arr.copy()
        v = pp.check_parity_of_vector(arr, arg)
        held.check()
        outs.append({"parity": [_num(x) for x in np.asarray(v).tolist()], "arg_intact": bool((before == arr).all())})
        held.poison_arrays([v])
    out = outs[0]
    out["again"] = outs[1:]
    out["earlier_intact"] = held.ok and held.intact()
    return out


QUERIES = ("counts", "dist", "ev", "parities", "save")


def _apply(shadow, st):
    """effect of a mutation step of a history on the list of shots (plain list semantics)"""
    do = st["do"]
    if do in ("replace", "new", "assign"):
        return list(st["shots"])
    if do == "setitem":
        out = list(shadow)
        out[st["index"]] = st["shot"]
        return out
    if do == "swap":
        return list(shadow[st["drop"]:]) + list(st["shots"])
    if do == "extend":
        return list(shadow) + list(st["shots"])
    if do == "add_counts":
        return list(shadow) + [kk for kk, v in st["counts"] for _ in range(max(v, 0))]
    return shadow


OP_STEPS = ("op_coeff", "op_append", "op_pop", "op_swap")


def _apply_op(terms, st):
    """effect of an in-place edit of a PauliSum (its public `terms` list, a term's public `coefficient`)"""
    terms = [dict(t) for t in terms]
    do = st["do"]
    if do == "op_coeff":
        terms[st["term"]]["coeff"] = st["coeff"]
    elif do == "op_append":
        terms.append(dict(st["new"]))
    elif do == "op_pop":
        terms.pop(st["term"])
    elif do == "op_swap":
        terms[st["i"]], terms[st["j"]] = terms[st["j"]], terms[st["i"]]
    return terms


def _init_shots(c, j):
    """the shots object j holds at the start, in the order it holds them"""
    via = (c.get("init_via") or [])[j] if j < len(c.get("init_via") or []) else "list"
    shots = list(c["init"][j])
    if via in ("from_counts", "add_counts"):  # grouped by outcome, first occurrence first
        return [kk for kk, v in Counter(shots).items() for _ in range(v)]
    return shots


def _subcase(st, shadow, ops_now):
    do = st["do"]
    if do == "ev":
        return {"kind": "ev", "shots": list(shadow), "terms": ops_now[st["op"]], "bessel": st["bessel"], "exact": False}
    if do == "parities":
        return {"kind": "parities", "shots": list(shadow), "terms": ops_now[st["op"]]}
    if do in ("counts", "dist", "save"):
        return {"kind": do, "shots": list(shadow)}
    if do == "add_counts":
        return {"kind": "add_counts", "shots": list(shadow), "counts": st["counts"], "counts_as": st.get("counts_as")}
    return None


def _walk(c):
    """yields (step index, step, sub-case judged on the shots the object holds - and on the terms the operator has - at
    that moment, or None)"""
    shadows = [_init_shots(c, j) for j in range(len(c["init"]))]
    ops_now = [[dict(t) for t in terms] for terms in c["operators"]]
    for i, st in enumerate(c["steps"]):
        j = st.get("obj", 0)
        sub = _subcase(st, shadows[j], ops_now)
        yield i, st, sub
        if st["do"] in OP_STEPS:
            ops_now[st["op"]] = _apply_op(ops_now[st["op"]], st)
        else:
            shadows[j] = _apply(shadows[j], st)


def _run_history(c):
    import gc
    np, Measurements, mm, pp, PauliSum, PauliTerm = _mods()
    bt = c.get("bit_ty")   # every shot this history hands over has bits of this type

    def _tuples(shots, _inner=globals()["_tuples"]):
        return _inner(shots, False, bt)
    objs = []
    for j, x in enumerate(c["init"]):
        via = (c.get("init_via") or [])[j] if j < len(c.get("init_via") or []) else "list"
        if via == "from_counts":
            objs.append(Measurements.from_counts(dict(Counter(x))))
        elif via == "add_counts":
            m0 = Measurements()
            m0.add_counts(dict(Counter(x)))
            objs.append(m0)
        else:
            objs.append(Measurements(_tuples(x)))
    ops = [_operator({"terms": t, "exact": False, "coef": c.get("coef")}, PauliSum, PauliTerm) for t in c["operators"]]  # reused objects
    held = _Held()
    outs = []
    for st in c["steps"]:
        j = st.get("obj", 0)
        m = objs[j]
        do = st["do"]
        o = None
        if do == "counts":
            o = _guard(lambda: _obs_counts(m, held))
        elif do == "dist":
            o = _guard(lambda: _obs_dist(m, held))
        elif do == "ev":
            o = _guard(lambda: _obs_ev(m, ops[st["op"]], st["bessel"], held))
        elif do == "parities":
            o = _guard(lambda: _obs_parities(m.bitstrings, ops[st["op"]], held))
        elif do == "save":
            o = _guard(lambda: _obs_save(m))
        elif do == "add_counts":
            o = _guard(lambda: _obs_add_counts(m, st["counts"], st.get("counts_as")))
        elif do == "replace":
            m.bitstrings = _tuples(st["shots"])
        elif do == "assign":  # the same list object gets other content
            m.bitstrings[:] = _tuples(st["shots"])
        elif do == "setitem":
            m.bitstrings[st["index"]] = _tuples([st["shot"]])[0]
        elif do == "swap":
            del m.bitstrings[: st["drop"]]
            m.bitstrings += _tuples(st["shots"])
        elif do == "extend":
            m.bitstrings += _tuples(st["shots"])
        elif do == "new":  # the old object dies, a new one (possibly at the same address) takes its place
            objs[j] = None
            del m
            gc.collect()
            objs[j] = Measurements(_tuples(st["shots"]))
        elif do == "op_coeff":  # the caller edits the operator it holds, in place
            ops[st["op"]].terms[st["term"]].coefficient = float(unrat(st["coeff"]))
        elif do == "op_append":
            ops[st["op"]].terms.append(PauliTerm({int(q): l for q, l in st["new"]["ops"]}, float(unrat(st["new"]["coeff"]))))
        elif do == "op_pop":
            ops[st["op"]].terms.pop(st["term"])
        elif do == "op_swap":
            ts = ops[st["op"]].terms
            ts[st["i"]], ts[st["j"]] = ts[st["j"]], ts[st["i"]]
        else:
            raise AssertionError("unknown step " + do)
        if isinstance(o, dict) and objs[j] is not None:
            o["held"] = _strs(objs[j].bitstrings)
        outs.append(o)
    return {"steps": outs}


def _fh_walk(c):
    cur = [list(x) for x in c["freq"]]
    for i, st in enumerate(c["steps"]):
        if st["do"] == "query":
            yield i, st, {"kind": "freq", "marked": st["marked"], "freq": [list(x) for x in cur], "as_set": st.get("as_set", False),
                          "marked_as": st.get("marked_as")}
        else:
            yield i, st, None
            d = dict(map(tuple, cur))
            if st["do"] == "set":
                d[st["key"]] = st["value"]
            elif st["do"] == "del":
                d.pop(st["key"], None)
            elif st["do"] == "rekey":  # the same weights in the same order, one outcome renamed
                d = {(st["new"] if kk == st["key"] else kk): v for kk, v in d.items()}
            elif st["do"] == "swap_values":  # the same outcomes, two weights exchanged
                d[st["a"]], d[st["b"]] = d[st["b"]], d[st["a"]]
            cur = [[kk, v] for kk, v in d.items()]


def _pv_walk(c):
    rows = list(c["rows"])
    for i, st in enumerate(c["steps"]):
        if st["do"] == "query":
            yield i, st, {"kind": "parity_vec", "rows": list(rows), "marked": st["marked"]}
        else:
            yield i, st, None
            r = list(rows[st["row"]])
            r[st["col"]] = "1" if r[st["col"]] == "0" else "0"
            rows[st["row"]] = "".join(r)


def _obs_bool_bits(c):
    """shots whose bits are Python / numpy booleans (True == 1, False == 0), then the same shots with int bits"""
    np, Measurements = _mods()[:2]
    from orquestra.quantum import utils
    clear = getattr(getattr(utils, "tuple_to_bitstring", None), "cache_clear", lambda: None)
    clear()
    ty = np.bool_ if c.get("numpy") else bool
    try:
        first = Measurements([tuple(ty(int(ch)) for ch in s) for s in c["shots"]]).get_counts()
        second = Measurements(_tuples(c["shots"])).get_counts()
        return {"bool": [[str(kk), int(v)] for kk, v in first.items()], "int_after": [[str(kk), int(v)] for kk, v in second.items()]}
    finally:
        clear()  # whatever was remembered for the boolean tuples must not reach the other cases of this run


PV_DTYPES = ["int8", "uint8", "bool", "int16", "int32", "int64", "uint64"]


def run_impl(c):
    typed = bool(c.get("bit_ty") or c.get("np_bits"))
    if typed:
        _forget_bitstrings()
    try:
        return _run_impl(c)
    finally:
        if typed:
            _forget_bitstrings()


def _run_impl(c):
    np, Measurements, mm, pp, PauliSum, PauliTerm = _mods()
    c = _norm(c)
    k = c["kind"]
    npb = bool(c.get("np_bits"))
    bt = c.get("bit_ty")
    if k == "history":
        return _run_history(c)
    if k == "freq_history":  # ONE dict object, edited in place between the calls
        d = {kk: v for kk, v in c["freq"]}
        outs = []
        for st in c["steps"]:
            if st["do"] == "query":
                outs.append(_guard(lambda: _obs_freq(mm, st["marked"], st.get("marked_as") or st.get("as_set", False), d)))
            elif st["do"] == "set":
                d[st["key"]] = st["value"]
                outs.append(None)
            elif st["do"] == "del":
                d.pop(st["key"], None)
                outs.append(None)
            elif st["do"] == "rekey":  # same dict object
                items = [((st["new"] if kk == st["key"] else kk), v) for kk, v in d.items()]
                d.clear()
                d.update(items)
                outs.append(None)
            elif st["do"] == "swap_values":
                d[st["a"]], d[st["b"]] = d[st["b"]], d[st["a"]]
                outs.append(None)
            elif st["do"] == "copy":  # an equal dict at (possibly) the address of the old one
                d2 = dict(d)
                del d
                d = d2
                outs.append(None)
        return {"steps": outs}
    if k == "pv_history":  # ONE array, bits flipped in place between the calls
        arr = np.array(_tuples(c["rows"]), dtype=c.get("dtype") or int)
        outs = []
        for st in c["steps"]:
            if st["do"] == "query":
                outs.append(_guard(lambda: _obs_parity_vec(np, pp, arr, st["marked"])))
            else:
                arr[st["row"], st["col"]] = 1 - int(arr[st["row"], st["col"]])
                outs.append(None)
        return {"steps": outs}
    if k == "ev":
        return _guard(lambda: _obs_ev(Measurements(_tuples(c["shots"], npb, bt)), _operator(c, PauliSum, PauliTerm), c["bessel"]))
    if k == "parities":
        return _guard(lambda: _obs_parities(_tuples(c["shots"], npb, bt), _operator(c, PauliSum, PauliTerm)))
    if k == "counts":
        return _guard(lambda: _obs_counts(Measurements(_tuples(c["shots"], npb, bt))))
    if k == "add_counts":
        return _guard(lambda: _obs_add_counts(Measurements(_tuples(c["shots"], npb, bt)), c["counts"], c.get("counts_as")))
    if k == "dist":
        return _guard(lambda: _obs_dist(Measurements(_tuples(c["shots"], npb, bt))))
    if k == "save":
        return _guard(lambda: _obs_save(Measurements(_tuples(c["shots"], npb, bt))))
    if k == "freq":
        return _guard(lambda: _obs_freq(mm, c["marked"], c.get("marked_as") or c.get("as_set"), _counts_form(c["freq"], c.get("freq_as"), True)))
    if k == "bool_bits":
        return _obs_bool_bits(c)
    if k == "from_parities":
        return _guard(lambda: _obs_from_parities(np, pp, c))
    if k == "parity_vec":
        return _guard(lambda: _obs_parity_vec(np, pp, np.array(_tuples(c["rows"]), dtype=c.get("dtype") or int), c["marked"]))
    raise AssertionError("unknown kind")


WALKS = {"history": _walk, "freq_history": _fh_walk, "pv_history": _pv_walk}


# ------------------------------------------------------------------ model
def requests(c, out):
    c = _norm(c)
    k = c["kind"]
    if k in WALKS:
        rs = []
        for i, st, sub in WALKS[k](c):
            if sub is not None and isinstance(out.get("steps", [None] * (i + 1))[i], dict):
                rs += requests(sub, out["steps"][i])
        return rs
    if k == "ev":
        rs = [("expectation_values", {"shots": c["shots"], "terms": c["terms"], "bessel": c["bessel"]})]
        for o in (out.get("again") or []) if isinstance(out, dict) and "err" not in out else []:
            rs.append(("expectation_values", {"shots": c["shots"], "terms": c["terms"], "bessel": o["bessel"]}))
        return rs
    if k == "parities":
        return [("parities", {"shots": c["shots"], "terms": c["terms"]})]
    if k == "counts":
        r = [("counts", {"shots": c["shots"]})]
        if "counts" in out:
            r.append(("add_counts", {"shots": [], "counts": out["counts"]}))
        return r
    if k == "add_counts":
        return [("add_counts", {"shots": c["shots"], "counts": c["counts"]}),
                ("add_counts", {"shots": [], "counts": c["counts"]})]
    if k == "dist":
        return [("distribution", {"shots": c["shots"]})]
    if k == "freq":
        return [("freq_expectation", {"marked": c["marked"], "freq": c["freq"]})]
    if k == "parity_vec":
        return [("check_parity", {"rows": c["rows"], "marked": c["marked"]})]
    return []


def _close(impl, model, exact):
    """impl: 'p/q' (exact value of the double) or None; model: 'p/q' or None"""
    if impl is None or model is None:
        return impl is None and model is None
    a, b = unrat(impl), unrat(model)
    if exact:
        return a == b
    return abs(a - b) <= Fraction(TOL) * (1 + abs(b))


def _cclose(impl, model, exact, tol=None):
    if impl is None or model is None:
        return impl is None and model is None
    if unrat(impl[1]) != 0:
        return False
    if exact or tol is None:
        return _close(impl[0], model, exact)
    return abs(unrat(impl[0]) - unrat(model)) <= tol


def _ev_tols(c):
    """rounding allowances of get_expectation_values, each proportional to the natural scale of the entry (never absolute:
    a coefficient of 1e-6 is as legitimate as one of 1e6): |c_i| for a value, |c_i c_j| for a correlation,
    4 |c_i c_j| / denominator for a covariance.  Returns (coefficients the code saw, tol_value, tol_corr, tol_cov)."""
    cs = [unrat(t["coeff"]) for t in c["terms"]]
    if c.get("exact") is False:
        cs = [Fraction(float(x)) for x in cs]
    n = len(c["shots"])
    den = n - 1 if c["bessel"] else n
    tv = [REL * abs(x) + TINY for x in cs]
    tc = [[REL * abs(x * y) + TINY for y in cs] for x in cs]
    tk = [[(4 * REL * abs(x * y) / den + TINY) if den > 0 else None for y in cs] for x in cs]
    return cs, tv, tc, tk


def _freq_tol(c):
    """the mean of +/-1 values weighted by k frequencies is a sum of k quotients of magnitude <= 1 that add up to at most 1
    in magnitude: the double result is within a few k ulp(1) of the exact one, however small that is"""
    return Fraction(len(c["freq"]) + 2, 10 ** 14)


def compare(c, out, resp):
    c = _norm(c)
    if c["kind"] in WALKS:
        pos = 0
        for i, st, sub in WALKS[c["kind"]](c):
            if sub is None or not isinstance(out["steps"][i], dict):
                continue
            n = len(requests(sub, out["steps"][i]))
            if n:
                msg = compare(sub, out["steps"][i], resp[pos:pos + n])
                pos += n
                if msg:
                    return f"step {i} ({st['do']}): {msg}"
        return None
    for r in resp:
        if isinstance(r, dict) and "driver_error" in r:
            return "driver error: " + r["driver_error"]
    k = c["kind"]
    msg = _compare_one(c, out, resp)
    if msg or "err" in out:
        return msg
    for idx, o in enumerate(out.get("again") or []):  # the repeated calls on the same objects
        if k == "ev":
            msg = _compare_one(dict(c, bessel=o["bessel"], exact=bool(c.get("exact")) and not o["bessel"]), o, resp[1 + idx:2 + idx])
        else:
            msg = _compare_one(c, o, resp)
        if msg:
            return f"call {idx + 2} on the same objects: {msg}"
    return None


def _compare_one(c, out, resp):
    k = c["kind"]
    r = resp[0]
    if isinstance(r, str) and (r.startswith("err:") or r == "nan"):  # the model predicts an exception (or NaN)
        got = out.get("err")
        if k == "freq" and r == "nan":
            return None if ("value" in out and out["value"] is None) else f"model: NaN, impl {out}"
        if got != r:
            return f"{k}: model predicts {r}, impl {out}"
        return None
    if "err" in out:
        return f"{k}: impl raised {out}, model returned {str(r)[:200]}"
    if k == "ev":
        ex = bool(c.get("exact"))
        nt = len(c["terms"])
        if out["shape"] != [[nt], [nt, nt], [nt, nt]] or out["n_corr"] != 1 or out["n_cov"] != 1:
            return f"get_expectation_values: shapes {out['shape']} for {nt} terms"
        _, tv, tc, tk = _ev_tols(c)
        if len(r["values"]) != nt or any(not _cclose(a, b, ex, t) for a, b, t in zip(out["values"], r["values"], tv)):
            return f"get_expectation_values: values impl {out['values']} model {r['values']}"
        for name, tols in (("correlations", tc), ("covariances", tk)):
            for ri, rm, rt in zip(out[name], r[name], tols):
                if len(ri) != len(rm) or any(not _cclose(a, b, ex, t) for a, b, t in zip(ri, rm, rt)):
                    return f"get_expectation_values: {name} impl {out[name]} model {r[name]}"
    elif k == "parities":
        want_v = [[rat(a), rat(b)] for a, b in r["values"]]
        want_c = [[[rat(a), rat(b)] for a, b in row] for row in r["correlations"]]
        if out["values"] != want_v or out["correlations"] != want_c or out["n_corr"] != 1:
            return f"get_parities_from_measurements: impl {out} model {r}"
    elif k == "counts":
        if out["counts"] != r["counts"] or r["total"] != [len(c["shots"])]:
            return f"get_counts: impl {out['counts']} model {r}"
        r2 = resp[1]
        if out["back"] != r2["bitstrings"] or out["back_counts"] != r2["counts"]:
            return f"from_counts(get_counts()): impl {out['back']} model {r2}"
    elif k == "add_counts":
        if out["bitstrings"] != r["bitstrings"] or out["counts"] != r["counts"]:
            return f"add_counts: impl {out} model {r}"
        if out["from_counts"] != resp[1]["bitstrings"]:
            return f"from_counts: impl {out['from_counts']} model {resp[1]['bitstrings']}"
    elif k == "dist":
        if [kk for kk, _ in out["dist"]] != [kk for kk, _ in r]:
            return f"get_distribution: keys impl {out['dist']} model {r}"
        for (_, a), (_, b) in zip(out["dist"], r):
            if a is None or abs(unrat(a) - unrat(b)) > REL * abs(unrat(b)):
                return f"get_distribution: impl {out['dist']} model {r}"
    elif k == "freq":
        if out["value"] is None or abs(unrat(out["value"]) - unrat(r)) > _freq_tol(c):
            return f"get_expectation_value_from_frequencies: impl {out} model {r}"
    elif k == "parity_vec":
        if out["parity"] != [rat(x) for x in r]:
            return f"check_parity_of_vector: impl {out} model {r}"
    return None


# ------------------------------------------------------------------ oracle (the property's sentences, by loops)
def _eig(shot, qubits):
    v = 1
    for q in qubits:
        v *= 1 - 2 * int(shot[q])
    return v


def _domain(c):
    """(in_domain, width) for shot lists + operators"""
    shots = c["shots"]
    ws = {len(s) for s in shots}
    if len(ws) > 1:
        return False, None
    w = ws.pop() if ws else None
    for t in c["terms"]:
        for q, l in t["ops"]:
            if l != "Z" or (w is not None and q >= w):
                return False, w
    return True, w


def _within(impl, want, tol):
    """impl: [real, imaginary] as exact rationals of the doubles (None: not finite)"""
    if impl is None or tol is None:
        return False
    if unrat(impl[1]) != 0:
        return False
    return abs(unrat(impl[0]) - want) <= tol


def _show(x):
    x = Fraction(x)
    return str(x) if x.denominator < 10 ** 6 and abs(x.numerator) < 10 ** 9 else repr(float(x))


def _showc(z):
    if z is None:
        return "a non-finite number"
    re_, im = float(unrat(z[0])), float(unrat(z[1]))
    return repr(re_) if im == 0 else repr(complex(re_, im))


def _describe(st):
    do = st["do"]
    if do in ("replace", "new", "extend", "assign"):
        return f"{do} with {len(st['shots'])} shots"
    if do in OP_STEPS:
        return f"the caller's operator {st['op']} edited in place ({do}: {dict((kk, v) for kk, v in st.items() if kk not in ('do', 'op'))})"
    if do == "setitem":
        return f"bitstrings[{st['index']}] = {st['shot']!r}"
    if do == "swap":
        return f"drop {st['drop']} shots, append {len(st['shots'])}"
    if do in ("set", "del"):
        return f"{do} {st.get('key')!r}"
    if do == "flip":
        return f"flip bit [{st['row']},{st['col']}]"
    return do


def _oracle_history(c, out):
    """every query of a history is judged on what the SAME object (dict, array) holds at that moment"""
    k = c["kind"]
    steps = out.get("steps")
    if steps is None or len(steps) != len(c["steps"]):
        return (f"{k}-shape", f"history of {len(c['steps'])} steps produced {out}")
    last = {}
    for i, st, sub in WALKS[k](c):
        j = st.get("obj", 0)
        if sub is None:
            last[j] = st
            continue
        o = steps[i]
        if not isinstance(o, dict):
            return (f"{k}-shape", f"step {i} produced {o}")
        r = oracle(sub, o)
        ctx = f"step {i} ({st['do']}" + (f" on object {j}" if len(c.get("init", [])) > 1 else "") + ")" + \
            (f" after {_describe(last[j])}" if j in last else "")
        if r is not None:
            return (f"{k}-{r[0]}", f"{ctx}: {r[1]} [current content: {sub.get('shots', sub.get('freq', sub.get('rows')))}]")
        if k == "history" and "held" in o:
            want = sub["shots"] if st["do"] != "add_counts" else _apply(sub["shots"], st)
            if sorted(o["held"]) != sorted(want):
                return ("history-shots-changed", f"{ctx}: the object now holds {sorted(o['held'])}, it was given {sorted(want)}")
        if st["do"] == "add_counts":
            last[j] = st
    return None


def oracle(c, out):
    c = _norm(c)
    k = c["kind"]
    if "exc" in out:
        return (f"{k}-unexpected-exception", f"{k}: implementation raised {out}")
    if k in WALKS:
        return _oracle_history(c, out)
    if k == "bool_bits":  # True == 1 and False == 0: the shots are the bitstrings c["shots"]
        want = dict(Counter(c["shots"]))
        if dict(map(tuple, out["bool"])) != want:
            return ("counts-bool-bits", f"get_counts on shots with boolean bits gives {out['bool']}, the shots are {want}")
        if dict(map(tuple, out["int_after"])) != want:
            return ("counts-value", f"get_counts on int bits after a call with boolean bits gives {out['int_after']}, the shots are {want}")
        return None
    r = _judge(c, out)
    if r is not None or "err" in out:
        return r
    for idx, o in enumerate(out.get("again") or []):  # the same sentence on every repeated call with the very same objects
        r = _judge(dict(c, bessel=o["bessel"]) if k == "ev" else c, o)
        if r is not None:
            flag = f", use_bessel_correction={o['bessel']}" if k == "ev" else ""
            return (r[0], f"asked again on the very same objects (call {idx + 2}{flag}): {r[1]}")
    if out.get("earlier_intact") is False and _in_domain(c):
        return (f"{k}-earlier-result-overwritten", "a later call wrote into the arrays / dictionary an earlier call had handed out: "
                "what was reported earlier is no longer what the statistics were")
    return None


def _in_domain(c):
    k = c["kind"]
    if k in ("ev", "parities"):
        return _domain(c)[0] and len(c["shots"]) > 0
    if k in ("counts", "dist"):
        return len({len(s) for s in c["shots"]}) <= 1
    return k == "parity_vec"


def _judge(c, out):
    k = c["kind"]
    if k == "save":
        shots = c["shots"]
        if "err" in out:
            return ("save-raise", f"save raised {out}")
        if dict(map(tuple, out["counts"])) != dict(Counter(shots)) or len(out["counts"]) != len(Counter(shots)):
            return ("save-counts", f"saved counts {out['counts']}, the shots have {dict(Counter(shots))}")
        if sorted(out["bitstrings"]) != sorted(shots):
            return ("save-bitstrings", f"saved bitstrings {sorted(out['bitstrings'])}, shots {sorted(shots)}")
        return None
    if k == "ev":
        ok, w = _domain(c)
        shots, n = c["shots"], len(c["shots"])
        if ok and n == 0:
            return _judge_ev_zero_shots(c, out)
        if not ok:
            return None  # non-Ising, qubit outside the register: the sample mean is undefined
        if "err" in out:
            if w == 0:
                return ("ev-width0-raises", f"get_expectation_values on {n} shots of width 0 with a constant operator raised {out}; "
                        "a constant term must contribute exactly its coefficient")
            return ("ev-raises", f"get_expectation_values raised {out} on an in-domain input")
        if not out.get("shots_intact", True):
            return ("ev-mutates-shots", "get_expectation_values modified the measured bitstrings")
        cs, tv, tc, tk = _ev_tols(c)
        qs = [[q for q, _ in t["ops"]] for t in c["terms"]]
        nt = len(cs)
        if len(out["values"]) != nt or len(out["correlations"]) != nt or len(out["covariances"]) != nt:
            return ("ev-shape", f"{nt} terms but result shapes {out['shape']}")
        multi = list(Counter(shots).items())  # the multiset of shots: (bitstring, how many shots show it)
        eig = [[_eig(s, qs[i]) for s, _ in multi] for i in range(nt)]
        means = []
        for i in range(nt):
            tot = 0
            for (s, mult), e in zip(multi, eig[i]):
                tot += mult * e  # sum over the shots of the term's +/-1 eigenvalue
            want = cs[i] * Fraction(tot, n)
            means.append(want)
            if not _within(out["values"][i], want, tv[i]):
                sig = "ev-constant-term" if not qs[i] else "ev-value"
                return (sig, f"term {i} (qubits {qs[i]}, coefficient {_show(cs[i])}): reported {_showc(out['values'][i])}, "
                        f"coefficient x sample mean = {_show(want)} ({n} shots)")
        den = n - 1 if c["bessel"] else n
        for i in range(nt):
            for j in range(nt):
                tot = 0
                for (s, mult), ei, ej in zip(multi, eig[i], eig[j]):
                    tot += mult * ei * ej  # sum over the shots of the product of the two terms' eigenvalues
                corr = cs[i] * cs[j] * Fraction(tot, n)
                if len(out["correlations"][i]) != nt or not _within(out["correlations"][i][j], corr, tc[i][j]):
                    return ("ev-correlation", f"correlation[{i}][{j}] reported {_showc(out['correlations'][i][j])}, "
                            f"sample mean of the product = {_show(corr)} (coefficients {_show(cs[i])}, {_show(cs[j])}; {n} shots)")
                if den != 0:
                    cov = (corr - means[i] * means[j]) / den
                    if len(out["covariances"][i]) != nt or not _within(out["covariances"][i][j], cov, tk[i][j]):
                        return ("ev-covariance", f"covariance[{i}][{j}] reported {_showc(out['covariances'][i][j])}, "
                                f"(correlation - product of means)/{den} = {_show(cov)} "
                                f"(coefficients {_show(cs[i])}, {_show(cs[j])}; {n} shots, bessel={c['bessel']})")
                elif len(out["covariances"][i]) != nt or out["covariances"][i][j] is not None:
                    # divisor 0 (one shot, Bessel's correction): "(correlation - product of means) divided by N - 1" has no value;
                    # nan / inf render that, a finite number does not
                    got = out["covariances"][i][j] if len(out["covariances"][i]) == nt else None
                    return ("ev-covariance-zero-divisor-finite", f"covariance[{i}][{j}] reported {_showc(got)} - a finite number - for {n} shot with "
                            f"Bessel's correction: (correlation - product of means) = {_show(corr - means[i] * means[j])} is to be divided by "
                            f"N - 1 = 0, the quotient has no value (nan / inf / an exception say so; the divisor was not N - 1)")
    elif k == "parities":
        ok, w = _domain(c)
        if not ok:
            return None
        shots = c["shots"]
        if "err" in out:
            if not shots:
                return ("parities-zero-shots-raise", f"get_parities_from_measurements([]) raised {out}; every tally is 0")
            return ("parities-raise", f"get_parities_from_measurements raised {out} on an in-domain input")
        qs = [[q for q, _ in t["ops"]] for t in c["terms"]]
        nt = len(qs)
        if len(out["values"]) != nt:
            return ("parities-shape", f"{nt} terms, {len(out['values'])} tallies")
        multi = list(Counter(shots).items())  # (bitstring, how many shots show it)
        ones = [[sum(int(s[q]) for q in qs[i]) for s, _ in multi] for i in range(nt)]
        for i in range(nt):
            even = sum(mult for (s, mult), o in zip(multi, ones[i]) if o % 2 == 0)
            odd = len(shots) - even
            if out["values"][i] != [rat(even), rat(odd)]:
                return ("parities-term", f"term {i} (qubits {qs[i]}): tallies {out['values'][i]}, shots with even/odd parity {[even, odd]}")
        for i in range(nt):
            for j in range(nt):
                even = sum(mult for (s, mult), oi, oj in zip(multi, ones[i], ones[j]) if (oi + oj) % 2 == 0)
                odd = len(shots) - even
                if out["correlations"][i][j] != [rat(even), rat(odd)]:
                    return ("parities-pair", f"pair ({i},{j}): tallies {out['correlations'][i][j]}, expected {[even, odd]}")
        if shots and "route_err" in out:
            return ("parities-route-raises", f"get_expectation_values_from_parities raised on the tallies of {len(shots)} shots: {out['route_err']}")
        if shots and "route" in out:  # the second route to the sample means: (even - odd) / shots from the tallies
            if len(out["route"]) != nt:
                return ("parities-route-shape", f"{nt} terms, {len(out['route'])} expectation values from the tallies")
            for i in range(nt):
                tot = sum(mult * (1 - 2 * (o % 2)) for (s, mult), o in zip(multi, ones[i]))
                want = Fraction(tot, len(shots))
                if out["route"][i] is None or abs(unrat(out["route"][i]) - want) > REL:
                    return ("parities-route-value", f"term {i} (qubits {qs[i]}): the expectation value computed from the parity tallies is "
                            f"{out['route'][i] if out['route'][i] is None else repr(float(unrat(out['route'][i])))}, the sample mean of the eigenvalue is {want}")
    elif k == "counts":
        shots = c["shots"]
        if "err" in out:
            return ("counts-raise", f"get_counts/from_counts raised {out}")
        got = dict((kk, v) for kk, v in out["counts"])
        if len(got) != len(out["counts"]):
            return ("counts-duplicate-key", "a key appears twice")
        if sum(got.values()) != len(shots):
            return ("counts-sum", f"counts sum to {sum(got.values())}, {len(shots)} shots")
        occurs = Counter(shots)
        for kk in sorted(set(shots) | set(got)):
            want = occurs.get(kk, 0)
            if got.get(kk, 0) != want or (kk in got and want == 0):
                return ("counts-value", f"count of {kk!r} is {got.get(kk)}, occurs {want} times")
        if sorted(out["back"]) != sorted(shots):
            return ("counts-roundtrip", f"from_counts(get_counts()) holds {dict(Counter(out['back']))}, shots were {dict(Counter(shots))}")
        if dict(map(tuple, out["back_counts"])) != got:
            return ("counts-roundtrip", "get_counts(from_counts(counts)) differs from counts")
    elif k == "add_counts":
        if "err" in out:
            return ("add-counts-raise", f"add_counts raised {out}")
        want = list(c["shots"])
        for kk, v in c["counts"]:
            want += [kk] * max(v, 0)
        if sorted(out["bitstrings"]) != sorted(want):
            return ("add-counts", f"after add_counts the shots are {dict(Counter(out['bitstrings']))}, expected {dict(Counter(want))}")
        if dict(map(tuple, out["counts"])) != dict(Counter(want)):
            return ("add-counts", f"counts after add_counts {out['counts']} expected {dict(Counter(want))}")
        fresh = [kk for kk, v in c["counts"] for _ in range(max(v, 0))]
        if sorted(out["from_counts"]) != sorted(fresh):
            return ("from-counts", f"from_counts holds {dict(Counter(out['from_counts']))}, expected {dict(Counter(fresh))}")
    elif k == "dist":
        shots = c["shots"]
        if not shots or len({len(s) for s in shots}) > 1:
            return None
        if "err" in out:
            return ("dist-raise", f"get_distribution raised {out}")
        got = dict(map(tuple, out["dist"]))
        cnt = Counter(shots)
        if set(got) != set(cnt):
            return ("dist-keys", f"distribution keys {sorted(got)} vs measured {sorted(cnt)}")
        for kk, v in cnt.items():
            if got[kk] is None or abs(unrat(got[kk]) - Fraction(v, len(shots))) > REL * Fraction(v, len(shots)):
                return ("dist-value", f"P({kk}) = {got[kk] if got[kk] is None else repr(float(unrat(got[kk])))}, "
                        f"count/shots = {v}/{len(shots)} = {v / len(shots)!r}")
    elif k == "freq":
        freq = c["freq"]
        ws = {len(kk) for kk, _ in freq}
        tot = sum(v for _, v in freq)
        if len(ws) <= 1 and tot == 0 and all(v == 0 for _, v in freq) and not any(q >= w for w in ws for q in c["marked"]):
            # total 0: the weighted mean divides by 0 - an exception or nan / inf, never a finite number
            if "err" not in out and out.get("value") is not None:
                return ("freq-zero-total-finite", f"expectation {float(unrat(out['value']))!r} - a finite number - from frequencies whose total is 0: "
                        "the mean of the eigenvalues weighted by the frequencies divides by their total, 0; it has no value")
            return None
        if len(ws) != 1 or tot <= 0 or any(v < 0 for _, v in freq):
            return None
        w = ws.pop()
        if any(q >= w for q in c["marked"]):
            return None
        if "err" in out:
            if w == 0:
                return ("ev-width0-raises", f"get_expectation_value_from_frequencies on width-0 keys raised {out}")
            return ("freq-raise", f"get_expectation_value_from_frequencies raised {out}")
        want = sum(Fraction(v) * _eig(kk, c["marked"]) for kk, v in freq) / tot
        if out["value"] is None or abs(unrat(out["value"]) - want) > _freq_tol(c):
            return ("freq-value", f"expectation {out['value'] if out['value'] is None else repr(float(unrat(out['value'])))}, "
                    f"weighted mean of eigenvalues {want} = {float(want)!r}")
    elif k == "from_parities":
        tallies = c["tallies"]
        empty = [i for i, (e, o) in enumerate(tallies) if e + o == 0]
        if "err" in out:
            if empty:
                return None  # a term without samples has no sample mean: refusing the tallies is a faithful answer
            return ("parities-route-raises", f"get_expectation_values_from_parities raised {out} on tallies {tallies} (every term has samples)")
        if len(out["values"]) != len(tallies):
            return ("parities-route-shape", f"{len(tallies)} terms, {len(out['values'])} expectation values from the tallies")
        for i, (e, o) in enumerate(tallies):
            got = out["values"][i]
            if e + o == 0:
                if got is not None:
                    return ("from-parities-zero-tally-finite", f"term {i} has tallies [0, 0] (no samples) and is reported the expectation value "
                            f"{float(unrat(got))!r} - a finite number; (even - odd) / (even + odd) divides by 0 and has no value")
                cv = out["cov"][i] if i < len(out["cov"]) else None
                if cv is not None and cv != "absent":
                    return ("from-parities-zero-tally-finite", f"term {i} has tallies [0, 0] (no samples) and is reported the estimator variance "
                            f"{float(unrat(cv))!r} - a finite number; it is a quotient by the number of samples, 0")
            else:
                want = Fraction(e - o, e + o)
                if got is None or abs(unrat(got) - want) > REL:
                    return ("parities-route-value", f"term {i} (tallies {[e, o]}): the expectation value computed from the parity tallies is "
                            f"{got if got is None else repr(float(unrat(got)))}, the sample mean of the eigenvalue is {want}")
    elif k == "parity_vec":
        if "err" in out:
            return ("parity-vec-raise", f"check_parity_of_vector raised {out}")
        want = [1 if sum(int(r[q]) for q in c["marked"]) % 2 == 0 else 0 for r in c["rows"]]
        if out["parity"] != want:
            return ("parity-vec", f"parity {out['parity']} expected {want}")
    return None


def _judge_ev_zero_shots(c, out):
    """no shots: every sample mean is a sum over the shots divided by their number, 0 - it has no value.  An exception (what the
    unchanged library does) or nan / inf entries are faithful, a finite number is not.  Not demanded: anything about a constant
    term's own value / the correlation of two terms whose product is constant (the property gives a constant term exactly its
    coefficient); with Bessel's correction the divisor is -1, so only entries built from a valueless mean are judged."""
    if "err" in out:
        return None
    qs = [frozenset(q for q, _ in t["ops"]) for t in c["terms"]]
    nt = len(qs)
    vals, corr, cov = out.get("values") or [], out.get("correlations") or [], out.get("covariances") or []
    for i in range(min(nt, len(vals))):
        if qs[i] and vals[i] is not None:
            return ("ev-zero-shots-finite", f"term {i} (qubits {sorted(qs[i])}): reported {_showc(vals[i])} - a finite number - as the expectation "
                    "value from 0 shots; the sample mean divides by the number of shots, 0, and has no value")
    for i in range(min(nt, len(corr))):
        for j in range(min(nt, len(corr[i]))):
            if (qs[i] ^ qs[j]) and corr[i][j] is not None:
                return ("ev-zero-shots-finite", f"correlation[{i}][{j}] reported {_showc(corr[i][j])} - a finite number - from 0 shots; the sample "
                        "mean of the product divides by the number of shots, 0")
    for i in range(min(nt, len(cov))):
        for j in range(min(nt, len(cov[i]))):
            if cov[i][j] is not None and (not c["bessel"] or qs[i] or qs[j]):
                return ("ev-zero-shots-finite", f"covariance[{i}][{j}] reported {_showc(cov[i][j])} - a finite number - from 0 shots "
                        f"(bessel={c['bessel']}): " + ("built from sample means over 0 shots, which have no value" if c["bessel"] else
                                                       "(correlation - product of means) is to be divided by the number of shots, 0"))
    return None


def distribution(cases, outs):
    errs = Counter(o.get("err") for o in outs if isinstance(o, dict) and o.get("err"))
    ev = [c for c in cases if c["kind"] == "ev"]
    return {"error_kinds": dict(errs),
            "ev_cases": len(ev), "ev_bessel": sum(1 for c in ev if c["bessel"]),
            "ev_exact_compared": sum(1 for c in ev if c.get("exact")),
            "ev_with_constant_term": sum(1 for c in ev if any(not t["ops"] for t in c["terms"])),
            "ev_with_repeated_support": sum(1 for c in ev if len({tuple(sorted(q for q, _ in t["ops"])) for t in c["terms"]}) < len(c["terms"])),
            "max_shots": max((sum(k for _, k in c["rle"]) if "rle" in c else len(c.get("shots", [])) for c in cases), default=0),
            "run_length_coded_cases": sum(1 for c in cases if "rle" in c),
            "ev_rescaled_coefficients": sum(1 for c in ev if any(t["coeff"] != 0 and not (Fraction(1, 64) <= abs(unrat(t["coeff"])) <= 64)
                                                                 for t in c["terms"])),
            "max_width": max((len(s) for c in cases for s in c.get("shots", [])), default=0),
            "bit_types": dict(Counter(c.get("bit_ty") or ("np-int-mix" if c.get("np_bits") else "int") for c in cases
                                      if c["kind"] in ("ev", "parities", "counts", "dist", "add_counts", "save", "history"))),
            "coefficient_types": dict(Counter(c.get("coef") or "float/int" for c in cases if c["kind"] in ("ev", "history"))),
            "count_value_types": dict(Counter((c.get("counts_as") if c["kind"] == "add_counts" else c.get("freq_as")) or "int"
                                              for c in cases if c["kind"] in ("add_counts", "freq"))),
            "parity_array_dtypes": dict(Counter(c.get("dtype") or "int64" for c in cases if c["kind"] in ("parity_vec", "pv_history"))),
            "degenerate_denominator_cases": dict(Counter(f"{c['kind']}:{c['degenerate']}" for c in cases if c.get("degenerate"))),
            "ev_one_shot_bessel_queries": sum(1 for c, o in zip(cases, outs) if c["kind"] == "ev" and len(_norm(c)["shots"]) == 1 and isinstance(o, dict)
                                              for q in [dict(o, bessel=c["bessel"])] + list(o.get("again") or []) if q.get("bessel") and "err" not in q),
            "non_finite_reports": sum(1 for c, o in zip(cases, outs) if isinstance(o, dict) and
                                      ((c["kind"] == "freq" and o.get("value", 0) is None) or
                                       (c["kind"] == "ev" and any(x is None for row in (o.get("covariances") or []) for x in row)))),
            "max_terms": max((len(c.get("terms", [])) for c in cases), default=0),
            "histories": sum(1 for c in cases if c["kind"] in WALKS),
            "history_queries": sum(1 for c in cases if c["kind"] in WALKS for st in c["steps"] if st["do"] in QUERIES + ("query",)),
            "history_same_length_changes": sum(1 for c in cases if c["kind"] == "history" for st in c["steps"]
                                               if st["do"] in ("setitem", "swap", "new") or
                                               (st["do"] == "replace"))}
