"""C08 — circuit-level constructions: inverse, controlled circuit, gate layers, ancillas."""
import warnings
from fractions import Fraction

from .. import circ, common
from ..common import rat, unrat

PROP = "C08"
RULE = ("seeded random circuits (n<=4 quick / <=5 thorough; built-in gates at rational-point angles, non-unitary custom "
        "Gaussian-integer gates, modifier chains controlled/dagger/integer power/exp-of-nilpotent, unordered and gapped "
        "qubit tuples, declared widths with idle qubits) under inverse / every control position 0..n / ancillas, random "
        "modifier chains for the per-gate dagger+controlled rules, and builder calls over unordered qubit collections "
        "with duplicates, 0..3-parameter factories, list/tuple/set/range/numpy inputs, layers up to 300 qubits, plus a "
        "malformed stream (row-count mismatch, repeated / out-of-range qubits, empty circuits).  non-trivial: circuit "
        "case with >=2 ops containing a wrapped or parametric gate; gate case with a chain of >=2 modifiers; builder "
        "case with duplicates or disorder in the collection, or a layer with >=2 rows; distinct = distinct canonical JSON")
TRUSTED = [
    "CPython: iterating set(qubit_indices) yields every distinct element exactly once (hypothesis of applyGate_count*), "
    "and set(range(n)) iterates in ascending order (hypothesis of layer_rows / layer_fixed; re-checked here for n<=300)",
    "sympy Matrix.exp() / Matrix.__pow__(integer): Gate.ExtLaws – results are well-formed square matrices of the same size, "
    "(e^A)^H = e^(A^H), (A^e)^H = (A^H)^e, diag(1,A)^e = diag(1,A^e), each including whether sympy raises",
    "the executable embedding Lift.liftMatrix / Lift.toUnitary used by the driver is identified with Spec.lift by property C01 "
    "(not re-proved here); the theorems are over the spec semantics (opDen = Spec.lift, theorem opDen_is_spec_lift)",
    "floating point: theorems are over exact commutative star rings; the Python double computation is compared with the "
    "exact ℚ(ζ₈) model at tolerance 1e-8 on entries, parameters of builder rows are dyadic so their comparison is exact",
    "driver glue for the externals at ℚ(ζ₈): exp only of nilpotent matrices (finite series), integer powers by products / "
    "Gauss-Jordan inverse; it is itself exercised by the matrix comparison",
]
ASSUMPTIONS = [
    "every operation names at least one qubit (GateOperation with an empty index tuple is outside the model)",
    "fractional exponents under Power are excluded from the inverse / controlled clauses and from the generator: "
    "F16 (Power.dagger is not the adjoint of a fractional power) is a known finding owned by C07",
    "numeric parameters only (symbolic parameters are covered by the ring-generic theorems, not by the correspondence)",
    "Circuit.controlled builds Circuit(c_ops) without n_qubits, so idle top qubits of the original are dropped from the "
    "width of the result; the action statement is proved at every sufficient width",
]
TOL = 1e-8


# ----------------------------------------------------------------------------------------------- helpers
def _lib():
    common.use_repo()
    import orquestra.quantum.circuits as oqc
    from orquestra.quantum.circuits import _gates, _generators
    return oqc, _gates, _generators


def gate_struct(g):
    """raw object structure of a REAL gate (classes of _gates.py)"""
    _, G, _ = _lib()
    if isinstance(g, G.MatrixFactoryGate):
        return {"base": g.name, "nq": int(g.num_qubits), "herm": bool(g.is_hermitian)}
    if isinstance(g, G.ControlledGate):
        return {"ctrl": gate_struct(g.wrapped_gate), "k": int(g.num_control_qubits)}
    if isinstance(g, G.Dagger):
        return {"dag": gate_struct(g.wrapped_gate)}
    if isinstance(g, G.Exponential):
        return {"exp": gate_struct(g.wrapped_gate)}
    if isinstance(g, G.Power):
        return {"pow": gate_struct(g.wrapped_gate), "e": rat(Fraction(g.exponent))}
    raise TypeError(f"unknown gate class {type(g).__name__}")


def norm_struct(s):
    """model / implementation gate structure with the exponent as a canonical rational"""
    if "base" in s:
        return {"base": s["base"], "nq": int(s["nq"]), "herm": bool(s["herm"])}
    if "ctrl" in s:
        return {"ctrl": norm_struct(s["ctrl"]), "k": int(s["k"])}
    if "dag" in s:
        return {"dag": norm_struct(s["dag"])}
    if "exp" in s:
        return {"exp": norm_struct(s["exp"])}
    return {"pow": norm_struct(s["pow"]), "e": str(unrat(s["e"]))}


def circ_struct(c):
    return {"n": int(c.n_qubits), "ops": [[norm_struct(gate_struct(op.gate)), [int(q) for q in op.qubit_indices]]
                                           for op in c.operations]}


def model_struct(r):
    return {"n": int(r["n"]), "ops": [[norm_struct(o["g"]), [int(q) for q in o["qs"]]] for o in r["ops"]]}


def unitary_of(c):
    """Circuit.to_unitary() as a numpy array, or 'err' for the exceptions the code raises on ill-formed circuits"""
    import numpy as np
    try:
        u = c.to_unitary()
    except (ValueError, TypeError):
        return "err"
    return np.array(circ.impl_matrix_to_numpy(u))


def matrix_of(g):
    import numpy as np
    try:
        return np.array(circ.impl_matrix_to_numpy(g.matrix))
    except (ValueError, TypeError):
        return "err"


def mjson(u):
    if isinstance(u, str):
        return u
    return [[[float(z.real), float(z.imag)] for z in row] for row in u.tolist()]


def mnp(j):
    import numpy as np
    if isinstance(j, str):
        return j
    return np.array([[complex(a, b) for a, b in row] for row in j])


def close(a, b, tol=TOL):
    """entrywise agreement within tol relative to the largest entry (non-unitary custom gates make large entries);
    two rejections agree, a rejection never agrees with a matrix"""
    import numpy as np
    if isinstance(a, str) or isinstance(b, str):
        return isinstance(a, str) and isinstance(b, str)
    a, b = np.asarray(a), np.asarray(b)
    if a.shape != b.shape:
        return False
    scale = max(1.0, float(np.max(np.abs(a))) if a.size else 1.0, float(np.max(np.abs(b))) if b.size else 1.0)
    return bool(np.all(np.abs(a - b) <= tol * scale))


def spec_has(spec, key):
    if key in spec:
        return True
    for k in ("controlled", "dagger", "power", "exp"):
        if k in spec:
            return spec_has(spec[k], key)
    return False


def spec_depth(spec):
    for k in ("controlled", "dagger", "power", "exp"):
        if k in spec:
            return 1 + spec_depth(spec[k])
    return 0


def spec_parametric(spec):
    if "gate" in spec:
        return circ.BUILTIN_PARAMS[spec["gate"]] > 0
    for k in ("controlled", "dagger", "power", "exp"):
        if k in spec:
            return spec_parametric(spec[k])
    return False


# ----------------------------------------------------------------------------------------------- generators
_cnt = [0]


def _fresh(prefix):
    _cnt[0] += 1
    return f"{prefix}{_cnt[0]}"


def _det_nonzero(m):
    import sympy
    return sympy.simplify(circ.sympy_matrix(m).det()) != 0


def nilpotent_matrix(rng, k):
    """strictly upper-triangular Gaussian-integer matrix, conjugated by a permutation (so not visibly triangular)"""
    d = 2 ** k
    perm = list(range(d))
    rng.shuffle(perm)
    base = [[[0, 0] for _ in range(d)] for _ in range(d)]
    for i in range(d):
        for j in range(i + 1, d):
            if rng.random() < 0.7:
                base[i][j] = [rng.randrange(-2, 3), rng.randrange(-2, 3)]
    return [[base[perm[i]][perm[j]] for j in range(d)] for i in range(d)]


def base_spec(rng, arity, allow_custom=True):
    if allow_custom and rng.random() < 0.35:
        return {"custom": _fresh("cg"), "m": circ.gauss_matrix(rng, arity, -2, 2)}
    names = [n for n, q in circ.BUILTIN_QUBITS.items() if q == arity and n != "Delay"]
    return circ.random_builtin_spec(rng, names)


def gate_spec(rng, total, model=True, depth=None):
    """random gate acting on `total` qubits; modifier chain of the given depth (None: random 0..3).
    model=True keeps it evaluable by the driver (exp only of nilpotent customs / their daggers, integer powers)."""
    if depth is None:
        depth = rng.choice([0, 0, 0, 1, 1, 2, 3])
    if depth == 0:
        return base_spec(rng, min(total, 2)) if total <= 2 else {"custom": _fresh("cg"), "m": circ.gauss_matrix(rng, total, -1, 1)}
    kinds = ["dagger", "power", "controlled", "exp"]
    kind = rng.choice(kinds)
    if kind == "controlled" and total >= 2:
        k = rng.randrange(1, min(total - 1, 2) + 1)
        return {"controlled": gate_spec(rng, total - k, model, depth - 1), "k": k}
    if kind == "exp" and total <= 2:
        if model:
            inner = {"custom": _fresh("nil"), "m": nilpotent_matrix(rng, total)}
            if depth >= 2 and rng.random() < 0.5:
                inner = {"dagger": inner}
            return {"exp": inner}
        if total == 1:
            return {"exp": {"gate": rng.choice(["X", "Y", "Z", "S", "I"]), "angles": []}}
    if kind == "power":
        inner = gate_spec(rng, total, model, depth - 1)
        e = rng.choice([0, 1, 2, 2, 3, -1, -1, -2])
        if e < 0 and not _invertible(inner):
            e = -e
        return {"power": inner, "e": e}
    return {"dagger": gate_spec(rng, total, model, depth - 1)}


def _invertible(spec):
    """every base matrix under the spec is invertible (built-ins are unitary; customs by determinant; exp always)"""
    if "gate" in spec:
        return True
    if "custom" in spec:
        # negative powers of 8x8 exact matrices cost sympy seconds each: keep them to <= 2 qubits
        return len(spec["m"]) <= 4 and _det_nonzero(spec["m"])
    if "exp" in spec:
        return True
    if "power" in spec:
        return unrat(spec["e"]) == 0 or _invertible(spec["power"])
    for k in ("controlled", "dagger"):
        if k in spec:
            return _invertible(spec[k])
    return False


def circuit_spec(rng, n, length, model=True, declared=None):
    ops = []
    for _ in range(length):
        total = rng.choice([1, 1, 2, 2, 3]) if n >= 3 else rng.randrange(1, n + 1)
        total = min(total, n)
        ops.append({"g": gate_spec(rng, total, model), "qs": rng.sample(range(n), total)})
    return {"n": declared, "ops": ops}


FACTORIES = {
    0: ["X", "H", "T", "SX", "cg0"],
    1: ["RX", "RY", "RZ", "PHASE", "RH", "GPi", "GPi2", "Delay", "cg1"],
    2: ["cg2"],
    3: ["U3", "cg3"],
}


def _dyadic(rng):
    return rat(Fraction(rng.randrange(-64, 65), rng.choice([1, 2, 4, 8, 16])))


def _collection(rng, maxq, size):
    qs = [rng.randrange(0, maxq + 1) for _ in range(size)]
    if qs and rng.random() < 0.5:
        qs += [rng.choice(qs) for _ in range(rng.randrange(1, 3))]  # duplicates
    rng.shuffle(qs)
    return qs


def builder_cases(rng, big):
    cases = []
    for _ in range(160 if big else 50):
        npar = rng.choice([0, 0, 1, 1, 1, 2, 3, 3])
        fac = rng.choice(FACTORIES[npar])
        maxq = rng.choice([3, 6, 12, 40, 200])
        qs = _collection(rng, maxq, rng.randrange(0, 7))
        distinct = len(set(qs))
        kind_in = rng.choice(["list", "list", "tuple", "set"])
        use_rows = npar > 0 or (fac == "cg0" and rng.random() < 0.5)
        nrows = distinct
        if use_rows and rng.random() < 0.12:
            nrows = max(0, distinct + rng.choice([-1, 1]))  # malformed: row-count mismatch
        rows = [[_dyadic(rng) for _ in range(npar)] for _ in range(nrows)] if use_rows else None
        old = [{"name": rng.choice(["H", "X", "CNOT"]), "qs": None} for _ in range(rng.randrange(0, 3))]
        for o in old:
            o["qs"] = rng.sample(range(4), 2 if o["name"] == "CNOT" else 1)
        cases.append({"kind": "apply", "old": old, "old_n": rng.choice([None, None, 6]), "qs": qs, "input": kind_in,
                      "factory": fac, "rows": rows, "numpy_rows": bool(rows and npar > 0 and rng.random() < 0.2)})
    sizes = [0, 1, 2, 3, 5, 8, 9, 16, 33, 64, 100, 300] if big else [0, 1, 2, 3, 8, 33, 300]
    for n in sizes + [rng.randrange(1, 40) for _ in range(30 if big else 8)]:
        npar = rng.choice([0, 1, 1, 2, 3])
        fac = rng.choice(FACTORIES[npar])
        use_rows = npar > 0 or (fac == "cg0" and rng.random() < 0.5)
        rows = [[_dyadic(rng) for _ in range(npar)] for _ in range(n)] if use_rows else None
        cases.append({"kind": "layer", "n": n, "factory": fac, "rows": rows,
                      "numpy_rows": bool(rows and npar > 0 and rng.random() < 0.2)})
    return cases


def generate(rng, tier):
    big = tier == "thorough"
    _cnt[0] = 0
    cases = []
    # --- per-gate rules on modifier chains
    for _ in range(220 if big else 50):
        total = rng.choice([1, 1, 2, 2, 3])
        model = rng.random() < 0.85
        cases.append({"kind": "gate", "g": gate_spec(rng, total, model, depth=rng.choice([0, 1, 2, 2, 3, 3])), "model": model})
    # --- circuits: inverse / controlled at every position / ancillas
    ncirc = 110 if big else 26
    for i in range(ncirc):
        n = rng.choice([1, 2, 3, 3, 4, 4]) if not big or i % 8 else 5
        length = rng.choice([0, 1, 2, 3, 4, 5]) if n < 5 else rng.choice([2, 3])
        model = rng.random() < 0.85
        declared = rng.choice([None, None, n, n + 1])
        cs = circuit_spec(rng, n, length, model, declared)
        width = declared or n
        cases.append({"kind": "inverse", "circ": cs, "model": model and width <= 4})
        for ci in range(width + 1):
            cases.append({"kind": "controlled", "circ": cs, "ci": ci, "model": model and width <= 3})
        k = rng.choice([0, 1, 2])
        cases.append({"kind": "ancilla", "circ": cs, "k": k, "model": model and width + k <= 4})
    # --- malformed circuits (the model must reproduce the rejection of to_unitary, the structure is still compared)
    for _ in range(40 if big else 10):
        n = rng.choice([2, 3])
        cs = circuit_spec(rng, n, rng.randrange(1, 4), True, None)
        bad = rng.choice(["dup", "range", "arity"])
        o = rng.choice(cs["ops"])
        if bad == "dup":
            o["qs"] = [o["qs"][0]] * max(2, len(o["qs"]))
            o["g"] = base_spec(rng, 2, allow_custom=False) if len(o["qs"]) == 2 else {"custom": _fresh("cg"), "m": circ.gauss_matrix(rng, len(o["qs"]), -1, 1)}
        elif bad == "range":
            cs["n"] = n
            o["qs"] = [n + 1] + o["qs"][1:]
        else:
            o["g"] = base_spec(rng, 2, allow_custom=False)
            o["qs"] = [o["qs"][0]]
        cases.append({"kind": "inverse", "circ": cs, "model": True, "malformed": bad})
        ci = rng.randrange(0, n + 1)
        wide = max([ci] + [q + 1 for oo in cs["ops"] for q in oo["qs"]]) + 1
        cases.append({"kind": "controlled", "circ": cs, "ci": ci, "model": wide <= 4, "malformed": bad})
    cases += builder_cases(rng, big)
    return cases


def corpus():
    h = {"gate": "H", "angles": []}
    s = {"gate": "S", "angles": []}
    rx = {"gate": "RX", "angles": [["3/5", "4/5"]]}
    nil = {"custom": "nil0", "m": [[[0, 0], [1, 1]], [[0, 0], [0, 0]]]}
    cg = {"custom": "cgc", "m": [[[1, 0], [2, 0]], [[0, 1], [1, 0]]]}
    c1 = {"n": None, "ops": [{"g": s, "qs": [1]}, {"g": {"controlled": {"dagger": rx}, "k": 1}, "qs": [2, 0]},
                             {"g": {"power": cg, "e": -2}, "qs": [0]}, {"g": {"exp": nil}, "qs": [1]}]}
    c2 = {"n": 3, "ops": [{"g": h, "qs": [0]}]}
    out = [{"kind": "inverse", "circ": c1, "model": True},
           {"kind": "inverse", "circ": {"n": None, "ops": []}, "model": True},
           {"kind": "inverse", "circ": {"n": 2, "ops": []}, "model": True},
           {"kind": "gate", "g": {"dagger": {"power": {"controlled": s, "k": 1}, "e": 3}}, "model": True},
           {"kind": "gate", "g": {"controlled": {"dagger": {"power": cg, "e": -1}}, "k": 1}, "model": True},
           {"kind": "gate", "g": {"dagger": {"exp": {"dagger": nil}}}, "model": True},
           {"kind": "ancilla", "circ": c2, "k": 2, "model": True},
           {"kind": "ancilla", "circ": c1, "k": 0, "model": True},
           {"kind": "apply", "old": [{"name": "H", "qs": [0]}], "old_n": None, "qs": [5, 1, 8, 1, 5], "input": "list",
            "factory": "U3", "rows": [[rat(Fraction(1, 2)), rat(Fraction(1, 4)), 1], [1, 2, 3], [4, 5, 6]], "numpy_rows": False},
           {"kind": "apply", "old": [], "old_n": None, "qs": [5, 1, 8, 1, 5], "input": "tuple", "factory": "RX",
            "rows": [[1], [2]], "numpy_rows": False},
           {"kind": "apply", "old": [], "old_n": None, "qs": [3, 3, 2], "input": "list", "factory": "X", "rows": None,
            "numpy_rows": False},
           {"kind": "layer", "n": 3, "factory": "RX", "rows": [[rat(Fraction(1, 2))], [rat(Fraction(1, 4))], [1]], "numpy_rows": True},
           {"kind": "layer", "n": 300, "factory": "H", "rows": None, "numpy_rows": False},
           {"kind": "layer", "n": 0, "factory": "X", "rows": None, "numpy_rows": False}]
    for ci in range(4):
        out.append({"kind": "controlled", "circ": c1, "ci": ci, "model": True})
    for ci in range(4):
        out.append({"kind": "controlled", "circ": c2, "ci": ci, "model": True})
    return out


def nontrivial(c):
    k = c["kind"]
    if k in ("inverse", "controlled", "ancilla"):
        ops = c["circ"]["ops"]
        return len(ops) >= 2 and any(spec_depth(o["g"]) >= 1 or spec_parametric(o["g"]) for o in ops)
    if k == "gate":
        return spec_depth(c["g"]) >= 2
    if k == "apply":
        qs = c["qs"]
        return len(set(qs)) != len(qs) or qs != sorted(qs)
    if k == "layer":
        return c["n"] >= 2 and c["rows"] is not None
    return False


# ----------------------------------------------------------------------------------------------- implementation side
def _factory(name):
    oqc, _, _ = _lib()
    import sympy
    if name.startswith("cg"):
        npar = int(name[2:])
        syms = sympy.symbols("a0:%d" % npar) if npar else ()
        ent = list(syms) + [1, 2, 3, 4]
        m = sympy.Matrix([[ent[0], -ent[1]], [ent[1] * sympy.I, ent[0] + (ent[2] if npar > 2 else 0)]])
        return oqc.CustomGateDefinition("cgf%d" % npar, m, tuple(syms)), "cgf%d" % npar
    return getattr(oqc, name), name


def _old_circuit(c):
    oqc, _, _ = _lib()
    ops = [getattr(oqc, o["name"])(*o["qs"]) for o in c["old"]]
    return oqc.Circuit(ops, n_qubits=c["old_n"])


def _op_canon(op):
    return [op.gate.name, [rat(Fraction(float(p))) for p in op.gate.params], [int(q) for q in op.qubit_indices]]


def run_impl(c):
    oqc, _, gen = _lib()
    import numpy as np
    k = c["kind"]
    if k == "gate":
        g = circ.build_gate(c["g"])
        d, cg = g.dagger, g.controlled(1)
        return {"g": norm_struct(gate_struct(g)), "nq": int(g.num_qubits), "dagger": norm_struct(gate_struct(d)),
                "controlled": norm_struct(gate_struct(cg)), "nq_dagger": int(d.num_qubits), "nq_controlled": int(cg.num_qubits),
                "m": mjson(matrix_of(g)), "dagger_m": mjson(matrix_of(d)), "controlled_m": mjson(matrix_of(cg))}
    if k == "inverse":
        cc = circ.build_circuit(c["circ"])
        before = circ_struct(cc)
        inv = cc.inverse()
        inv2 = inv.inverse()
        gates_unitary = True
        for op in cc.operations:
            m = matrix_of(op.gate)
            if isinstance(m, str) or not circ.close(m.conj().T @ m, np.eye(m.shape[0]), 1e-9):
                gates_unitary = False
        return {"orig": before, "inv": circ_struct(inv), "inv2": circ_struct(inv2), "u": mjson(unitary_of(cc)),
                "u_inv": mjson(unitary_of(inv)), "u_both": mjson(unitary_of(cc + inv)), "u_both_rev": mjson(unitary_of(inv + cc)),
                "u_inv2": mjson(unitary_of(inv2)), "gates_unitary": gates_unitary, "source_intact": circ_struct(cc) == before}
    if k == "controlled":
        cc = circ.build_circuit(c["circ"])
        before = circ_struct(cc)
        ctl = cc.controlled(c["ci"])
        gate_ms = [mjson(matrix_of(op.gate)) for op in cc.operations]
        return {"orig": before, "ctl": circ_struct(ctl), "u_ctl": mjson(unitary_of(ctl)), "gate_ms": gate_ms,
                "source_intact": circ_struct(cc) == before}
    if k == "ancilla":
        cc = circ.build_circuit(c["circ"])
        before = circ_struct(cc)
        ext = gen.add_ancilla_register(cc, c["k"])
        return {"orig": before, "ext": circ_struct(ext), "u": mjson(unitary_of(cc)), "u_ext": mjson(unitary_of(ext)),
                "source_intact": circ_struct(cc) == before}
    if k in ("apply", "layer"):
        fac, fname = _factory(c["factory"])
        rows = c["rows"]
        if rows is not None:
            prow = [[float(unrat(x)) for x in r] for r in rows]
            if c.get("numpy_rows") and prow and prow[0]:
                prow = np.array(prow)
            gate_factory = fac
        else:
            prow = None
            gate_factory = fac() if c["factory"].startswith("cg") else fac
        with warnings.catch_warnings(record=True) as wlist:
            warnings.simplefilter("always")
            try:
                if k == "layer":
                    order = [int(q) for q in set(range(c["n"]))]
                    res = gen.create_layer_of_gates(c["n"], gate_factory, prow)
                    old_ops, old_struct, intact = [], None, True
                else:
                    qs = {"list": list, "tuple": tuple, "set": set}[c["input"]](c["qs"])
                    order = [int(q) for q in set(qs)]
                    base = _old_circuit(c)
                    old_ops = list(base.operations)
                    old_struct = circ_struct(base)
                    res = gen.apply_gate_to_qubits(base, qs, gate_factory, prow)
                    intact = circ_struct(base) == old_struct and list(base.operations) == old_ops
            except AssertionError:
                return {"err": "err:assert", "order": order, "fname": fname}
        ops = list(res.operations)
        return {"n": int(res.n_qubits), "n_old": len(old_ops), "prefix_same": ops[:len(old_ops)] == old_ops,
                "old_qs": [[int(q) for q in o.qubit_indices] for o in old_ops],
                "old_n": old_struct["n"] if old_struct else 0,
                "new": [_op_canon(o) for o in ops[len(old_ops):]], "order": order, "fname": fname,
                "warned": any("Duplicate" in str(w.message) for w in wlist), "source_intact": intact,
                "fixed_ok": (all(o.gate == gate_factory for o in ops[len(old_ops):]) if rows is None else None)}
    raise AssertionError("unknown kind")


# ----------------------------------------------------------------------------------------------- model side
def requests(c, out):
    k = c["kind"]
    if "exc" in out:
        return []
    if k == "gate":
        return [("gate", {"g": c["g"]})]
    if k == "inverse":
        p = dict(c["circ"], want_u=bool(c["model"]))
        return [("inverse", p), ("inverse2", dict(c["circ"], want_u=False)),
                ("append_inverse", dict(c["circ"], want_u=bool(c["model"]) and len(c["circ"]["ops"]) <= 2))]
    if k == "controlled":
        return [("controlled", dict(c["circ"], ci=c["ci"], want_u=bool(c["model"])))]
    if k == "ancilla":
        return [("ancilla_u", dict(c["circ"], k=c["k"], want_u=bool(c["model"])))]
    if k == "apply":
        cj = {"n": c["old_n"], "ops": [{"label": {"old": i}, "qs": o["qs"]} for i, o in enumerate(c["old"])]}
        p = {"circ": cj, "order": out["order"]}
        if c["rows"] is not None:
            p["rows"] = c["rows"]
        return [("apply", p)]
    if k == "layer":
        p = {"order": out["order"]}
        if c["rows"] is not None:
            p["rows"] = c["rows"]
        return [("layer", p)]
    return []


def _cmp_u(model_u, impl_u, what):
    mu = "err" if isinstance(model_u, str) else circ.model_matrix_to_numpy(model_u)
    iu = mnp(impl_u)
    if not close(mu, iu):
        return f"{what}: model and implementation matrices differ (model {'err' if isinstance(mu, str) else 'matrix'}, " \
               f"impl {'err' if isinstance(iu, str) else 'matrix'})"
    return None


def compare(c, out, resp):
    for r in resp:
        if isinstance(r, dict) and "driver_error" in r:
            return "driver error: " + r["driver_error"]
    k = c["kind"]
    r = resp[0]
    if k == "gate":
        for key in ("g", "dagger", "controlled"):
            if norm_struct(r[key]) != out[key]:
                return f"gate.{key}: structure impl {out[key]} model {norm_struct(r[key])}"
        if int(r["nq"]) != out["nq"]:
            return f"num_qubits impl {out['nq']} model {r['nq']}"
        if c["model"]:
            for key in ("m", "dagger_m", "controlled_m"):
                msg = _cmp_u(r[key], out[key], "gate." + key)
                if msg:
                    return msg
    elif k == "inverse":
        if model_struct(r) != out["inv"]:
            return f"Circuit.inverse: structure impl {out['inv']} model {model_struct(r)}"
        if model_struct(resp[1]) != out["inv2"]:
            return f"inverse twice: structure impl {out['inv2']} model {model_struct(resp[1])}"
        if c["model"]:
            msg = _cmp_u(r["u"], out["u_inv"], "to_unitary(inverse)")
            if msg is None and "u" in resp[2]:
                msg = _cmp_u(resp[2]["u"], out["u_both"], "to_unitary(c + inverse)")
            return msg
    elif k == "controlled":
        if model_struct(r) != out["ctl"]:
            return f"Circuit.controlled({c['ci']}): structure impl {out['ctl']} model {model_struct(r)}"
        if c["model"]:
            return _cmp_u(r["u"], out["u_ctl"], "to_unitary(controlled)")
    elif k == "ancilla":
        if model_struct(r) != out["ext"]:
            return f"add_ancilla_register: structure impl {out['ext']} model {model_struct(r)}"
        if c["model"]:
            return _cmp_u(r["u"], out["u_ext"], "to_unitary(extended)")
    elif k in ("apply", "layer"):
        if isinstance(r, str):
            return None if out.get("err") == r else f"{k}: model {r}, impl {out}"
        if out.get("err"):
            return f"{k}: impl raised {out['err']}, model built {r}"
        want = [[{"old": i}, qs] for i, qs in enumerate(out["old_qs"])] if k == "apply" else []
        if not out["prefix_same"]:
            return "existing operations were not kept as a prefix"
        for op in out["new"]:
            lab = "fixed" if c["rows"] is None else {"row": [rat(unrat(x)) for x in op[1]]}
            want.append([lab, op[2]])
            if op[0] != out["fname"]:
                return f"{k}: new gate {op[0]} is not the factory's gate {out['fname']}"
        got = [[({"row": [rat(unrat(x)) for x in o[0]["row"]]} if isinstance(o[0], dict) and "row" in o[0] else o[0]), o[1]]
               for o in r["ops"]]
        if got != want or int(r["n"]) != out["n"]:
            return f"{k}: impl ops {want} n={out['n']}; model ops {got} n={r['n']}"
    return None


# ----------------------------------------------------------------------------------------------- oracle
def oracle(c, out):
    """the property's own sentences on the implementation's outputs (numpy / plain Python only)"""
    import numpy as np
    k = c["kind"]
    if "exc" in out:
        return ("impl-raised:" + k, f"implementation raised {out['exc']}: {out.get('msg')}")
    if k == "gate":
        m, dm, cm = mnp(out["m"]), mnp(out["dagger_m"]), mnp(out["controlled_m"])
        if isinstance(m, str):
            return None
        frac = spec_has_fractional(c["g"])
        if frac:
            return None
        if isinstance(dm, str) or not close(dm, m.conj().T):
            return ("gate-dagger-not-adjoint", "the dagger's matrix is not the conjugate transpose of the gate's matrix")
        d = m.shape[0]
        blk = np.eye(2 * d, dtype=complex)
        blk[d:, d:] = m
        if isinstance(cm, str) or not close(cm, blk):
            return ("gate-controlled-not-block", "controlled(1).matrix is not diag(1, M)")
        return None
    if k == "inverse":
        if not out.get("source_intact", True):
            return ("inverse-mutates", "Circuit.inverse modified its circuit")
        if any(spec_has_fractional(op["g"]) for op in c["circ"]["ops"]):
            return None
        u, ui = mnp(out["u"]), mnp(out["u_inv"])
        if isinstance(u, str):
            return None  # ill-formed or empty circuit: no action to speak of
        if isinstance(ui, str) or not close(ui, u.conj().T):
            return ("inverse-not-adjoint", "to_unitary(inverse) is not the conjugate transpose of to_unitary(circuit)")
        u2 = mnp(out["u_inv2"])
        if isinstance(u2, str) or not close(u2, u):
            return ("inverse-twice", "inverting twice changed the action")
        if out["gates_unitary"]:
            eye = np.eye(u.shape[0])
            for key in ("u_both", "u_both_rev"):
                ub = mnp(out[key])
                if isinstance(ub, str) or not close(ub, eye, 1e-7):
                    return ("inverse-append-not-identity", "circuit + inverse does not act as the identity")
        return None
    if k == "controlled":
        if not out.get("source_intact", True):
            return ("controlled-mutates", "Circuit.controlled modified its circuit")
        o, t, ci = out["orig"], out["ctl"], c["ci"]
        if any(spec_has_fractional(op["g"]) for op in c["circ"]["ops"]) or c.get("malformed"):
            return None
        uc = mnp(out["u_ctl"])
        if not o["ops"]:
            return None
        ms = [mnp(m) for m in out["gate_ms"]]
        if any(isinstance(m, str) for m in ms):
            return None
        n1 = t["n"]
        n0 = n1 - 1
        if ci >= n1 or any(q >= n0 for _, qs in o["ops"] for q in qs):
            return ("controlled-width", f"controlled({ci}) circuit of width {n1} cannot hold the control and the shifted circuit")
        if isinstance(uc, str):
            return ("controlled-raises", "to_unitary of the controlled circuit raised for a well-formed circuit")
        u0 = np.eye(2 ** n0, dtype=complex)
        for m, (_, qs) in zip(ms, o["ops"]):
            u0 = circ.embed_reference(m, qs, n0) @ u0
        exp = np.zeros((2 ** n1, 2 ** n1), dtype=complex)
        rest = [q for q in range(n1) if q != ci]
        for x in range(2 ** n1):
            xb = [(x >> (n1 - 1 - q)) & 1 for q in range(n1)]
            xr = 0
            for q in rest:
                xr = 2 * xr + xb[q]
            for y in range(2 ** n1):
                yb = [(y >> (n1 - 1 - q)) & 1 for q in range(n1)]
                if xb[ci] != yb[ci]:
                    continue
                yr = 0
                for q in rest:
                    yr = 2 * yr + yb[q]
                exp[x, y] = u0[xr, yr] if xb[ci] == 1 else (1.0 if xr == yr else 0.0)
        if not close(uc, exp):
            return ("controlled-action", f"controlled({ci}) is not identity-on-0 / circuit-on-1 with indices >= {ci} shifted")
        return None
    if k == "ancilla":
        if not out.get("source_intact", True):
            return ("ancilla-mutates", "add_ancilla_register modified its circuit")
        o, e, kk = out["orig"], out["ext"], c["k"]
        if e["n"] != o["n"] + kk:
            return ("ancilla-width", f"{o['n']} qubits + {kk} ancillas gave {e['n']} qubits")
        if e["ops"][:len(o["ops"])] != o["ops"]:
            return ("ancilla-prefix", "existing operations were changed")
        if c.get("malformed"):
            return None
        u, ue = mnp(out["u"]), mnp(out["u_ext"])
        if isinstance(u, str):
            return None
        if isinstance(ue, str) or not close(ue, np.kron(u, np.eye(2 ** kk))):
            return ("ancilla-action", "extended circuit does not act as U ⊗ 1")
        return None
    if k in ("apply", "layer"):
        qs = list(range(c["n"])) if k == "layer" else list(c["qs"])
        distinct = sorted(set(qs))
        rows = c["rows"]
        if rows is not None and len(rows) != len(distinct):
            return None if out.get("err") == "err:assert" else ("builder-accepts-row-mismatch", f"{len(rows)} rows for {len(distinct)} distinct qubits accepted")
        if out.get("err"):
            return ("builder-raises", f"valid request rejected: {out['err']}")
        if not out["prefix_same"] or not out.get("source_intact", True):
            return ("builder-existing-ops", "existing operations not left in place")
        new = out["new"]
        if sorted(q for _, _, q3 in new for q in q3) != distinct or any(len(o[2]) != 1 for o in new):
            return ("builder-one-per-qubit", f"new gates on {[o[2] for o in new]}, distinct listed qubits {distinct}")
        if any(o[0] != out["fname"] for o in new):
            return ("builder-gate", "a new gate is not the requested gate")
        if rows is not None:
            want = sorted([str(unrat(x)) for x in r] for r in rows)
            got = sorted([str(unrat(x)) for x in o[1]] for o in new)
            if want != got:
                return ("builder-rows", "parameter rows not used exactly once each")
        elif out.get("fixed_ok") is False:
            return ("builder-gate", "a new gate differs from the given gate")
        if k == "layer":
            for i, o in enumerate(new):
                if o[2] != [i] or (rows is not None and [str(unrat(x)) for x in o[1]] != [str(unrat(x)) for x in rows[i]]):
                    return ("layer-row-i-on-qubit-i", f"position {i}: gate on {o[2]} with parameters {o[1]}")
            if out["n"] != c["n"]:
                return ("layer-width", f"layer over {c['n']} qubits is {out['n']} wide")
        return None
    return None


def spec_has_fractional(spec):
    if "power" in spec:
        return unrat(spec["e"]).denominator != 1 or spec_has_fractional(spec["power"])
    for k in ("controlled", "dagger", "exp"):
        if k in spec:
            return spec_has_fractional(spec[k])
    return False


def distribution(cases, outs):
    import collections
    depth = collections.Counter()
    widths = collections.Counter()
    ctl_pos = collections.Counter()
    kinds_under = collections.Counter()
    rejected = 0
    modelled = 0
    maxlayer = 0
    dup = 0
    for c, o in zip(cases, outs):
        k = c["kind"]
        if k == "gate":
            depth[spec_depth(c["g"])] += 1
        if k in ("inverse", "controlled", "ancilla"):
            widths[c["circ"]["n"] or "by-ops"] += 1
            for op in c["circ"]["ops"]:
                for key in ("controlled", "dagger", "power", "exp", "custom"):
                    if spec_has(op["g"], key):
                        kinds_under[key] += 1
        if k == "controlled":
            ctl_pos[c["ci"]] += 1
        if c.get("model"):
            modelled += 1
        if isinstance(o, dict) and (o.get("err") or any(isinstance(v, str) and v == "err" for v in o.values())):
            rejected += 1
        if k == "layer":
            maxlayer = max(maxlayer, c["n"])
        if k == "apply" and len(set(c["qs"])) != len(c["qs"]):
            dup += 1
    return {"gate_chain_depths": dict(depth), "declared_widths": {str(k): v for k, v in widths.items()},
            "control_positions": dict(ctl_pos), "wrappers_in_circuits": dict(kinds_under),
            "cases_with_matrix_comparison": modelled, "cases_with_a_rejection": rejected,
            "largest_layer": maxlayer, "apply_with_duplicates": dup}
