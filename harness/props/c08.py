"""C08 — circuit-level constructions: inverse, controlled circuit, gate layers, ancillas."""
import copy
import warnings
from fractions import Fraction

from .. import circ, common
from ..common import rat, unrat

PROP = "C08"
RULE = ("seeded random circuits (n<=4 quick / <=5 thorough; built-in gates at rational-point angles, non-unitary custom "
        "Gaussian-integer gates, modifier chains controlled/dagger/integer power/exp-of-nilpotent, unordered and gapped "
        "qubit tuples, declared widths with idle qubits) under inverse / every control position 0..n / ancillas, random "
        "modifier chains for the per-gate dagger+controlled rules, and builder calls over unordered qubit collections "
        "with duplicates, 0..3-parameter factories, list/tuple/set/range/numpy inputs, layers up to 300 qubits, plus a "
        "malformed stream (row-count mismatch, repeated / out-of-range qubits, empty circuits).  Hardening streams: tiny "
        "angles (1e-3..1e-9), near-equal sibling angles (relative 2e-6), equal parameters, custom matrices scaled by 2^-40 / "
        "2^30 / with spread entries, repeated and near-equal adjacent operations, circuits built by += / concatenation, numpy "
        "control indices; SESSIONS on long-lived circuit objects (call twice, other argument, sibling circuit differing in one "
        "component incl. a same-named custom gate with another matrix, after mutating the previous result, after replacing / "
        "appending an operation of the source in place, inverse of the last result); BUILDER SESSIONS on one long-lived base "
        "circuit / qubit list / row table (same call again, permuted qubits, added duplicate, one changed / near-equal row, "
        "other factory, bound parametric or wrapped fixed gates, after mutating the result or the base); builder shapes "
        "(sorted-contiguous, descending, single, 9..80 qubits, wide declared bases, range/frozenset/ndarray/dict-keys inputs, "
        "int/sympy/tuple rows, zero / equal / near-equal / -1,-2 / huge rows); SYMBOLIC circuits (free symbols, sympy and int "
        "numbers as parameters, parametric custom gates) evaluated through gate.matrix.subs and through bind; WIDE circuits "
        "(qubit indices up to 60) judged on the touched qubits.  non-trivial: circuit "
        "case with >=2 ops containing a wrapped or parametric gate; gate case with a chain of >=2 modifiers; builder "
        "case with duplicates or disorder in the collection, or a layer with >=2 rows; session with >=3 calls; symbolic case with "
        ">=2 ops; distinct = distinct canonical JSON")
TRUSTED = [
    "CPython: iterating set(qubit_indices) yields every distinct element exactly once (hypothesis of applyGate_count*), "
    "and set(range(n)) iterates in ascending order (hypothesis of layer_rows / layer_fixed; re-checked here for n<=300)",
    "sympy Matrix.exp() / Matrix.__pow__(integer): Gate.ExtLaws – results are well-formed square matrices of the same size, "
    "(e^A)^H = e^(A^H), (A^e)^H = (A^H)^e, diag(1,A)^e = diag(1,A^e), each including whether sympy raises",
    "the executable embedding Lift.liftMatrix / Lift.toUnitary used by the driver is identified with Spec.lift by property C01 "
    "(not re-proved here); the theorems are over the spec semantics (opDen = Spec.lift, theorem opDen_is_spec_lift)",
    "floating point: theorems are over exact commutative star rings; the Python double computation is compared with the "
    "exact ℚ(ζ₈) model at tolerance 1e-8 on entries (relative to the largest entry, floored at the product of the gates' "
    "largest entries capped at 1, so uniformly tiny matrices are compared at their own scale), the oracle compares "
    "double computations with each other at 1e-10; parameters of builder rows are dyadic so their comparison is exact",
    "the oracle's own embedding (harness/circ.py embed_reference, bit manipulation, qubit 0 = most significant bit) and, for "
    "circuits wider than 7 qubits, the order-preserving relabelling of the touched qubits (idle qubits carry the identity)",
    "driver glue for the externals at ℚ(ζ₈): exp only of nilpotent matrices (finite series), integer powers by products / "
    "Gauss-Jordan inverse; it is itself exercised by the matrix comparison",
]
ASSUMPTIONS = [
    "every operation names at least one qubit (GateOperation with an empty index tuple is outside the model)",
    "fractional exponents under Power are excluded from the inverse / controlled clauses and from the generator: "
    "F16 (Power.dagger is not the adjoint of a fractional power) is a known finding owned by C07",
    "the model correspondence uses numeric parameters only (symbolic parameters are covered by the ring-generic theorems); "
    "symbolic circuits are checked by the oracle at real values of the symbols",
    "in-place edits of the public live list Circuit.operations (replace / append within the width) count as building another "
    "circuit: every call is judged against the state of its arguments at the time of the call",
    "Circuit.controlled builds Circuit(c_ops) without n_qubits, so idle top qubits of the original are dropped from the "
    "width of the result; the action statement is proved at every sufficient width",
]
TOL = 1e-8       # model (exact) vs implementation (double)
OTOL = 1e-10     # oracle: implementation vs implementation
WIDE = 7         # widest register the oracle materialises


# ----------------------------------------------------------------------------------------------- helpers
def _lib():
    common.use_repo()
    import orquestra.quantum.circuits as oqc
    from orquestra.quantum.circuits import _gates, _generators
    return oqc, _gates, _generators


def gate_struct(g):
    """raw object structure of a REAL gate (classes of _gates.py)"""
    _, G, _ = _lib()
    if isinstance(g, G.MatrixFactoryGate):
        return {"base": g.name, "nq": int(g.num_qubits), "herm": bool(g.is_hermitian)}
    if isinstance(g, G.ControlledGate):
        return {"ctrl": gate_struct(g.wrapped_gate), "k": int(g.num_control_qubits)}
    if isinstance(g, G.Dagger):
        return {"dag": gate_struct(g.wrapped_gate)}
    if isinstance(g, G.Exponential):
        return {"exp": gate_struct(g.wrapped_gate)}
    if isinstance(g, G.Power):
        return {"pow": gate_struct(g.wrapped_gate), "e": rat(Fraction(g.exponent))}
    raise TypeError(f"unknown gate class {type(g).__name__}")


def norm_struct(s):
    """model / implementation gate structure with the exponent as a canonical rational"""
    if "base" in s:
        return {"base": s["base"], "nq": int(s["nq"]), "herm": bool(s["herm"])}
    if "ctrl" in s:
        return {"ctrl": norm_struct(s["ctrl"]), "k": int(s["k"])}
    if "dag" in s:
        return {"dag": norm_struct(s["dag"])}
    if "exp" in s:
        return {"exp": norm_struct(s["exp"])}
    return {"pow": norm_struct(s["pow"]), "e": str(unrat(s["e"]))}


def circ_struct(c):
    return {"n": int(c.n_qubits), "ops": [[norm_struct(gate_struct(op.gate)), [int(q) for q in op.qubit_indices]]
                                           for op in c.operations]}


def model_struct(r):
    return {"n": int(r["n"]), "ops": [[norm_struct(o["g"]), [int(q) for q in o["qs"]]] for o in r["ops"]]}


def unitary_of(c):
    """Circuit.to_unitary() as a numpy array, or 'err' for the exceptions the code raises on ill-formed circuits"""
    import numpy as np
    try:
        u = c.to_unitary()
    except (ValueError, TypeError):
        return "err"
    return np.array(circ.impl_matrix_to_numpy(u))


def matrix_of(g):
    import numpy as np
    try:
        return np.array(circ.impl_matrix_to_numpy(g.matrix))
    except (ValueError, TypeError):
        return "err"


def mjson(u):
    if isinstance(u, str):
        return u
    return [[[float(z.real), float(z.imag)] for z in row] for row in u.tolist()]


def mnp(j):
    import numpy as np
    if isinstance(j, str):
        return j
    if not j:
        return np.zeros((0, 0), dtype=complex)
    return np.array([[complex(a, b) for a, b in row] for row in j])


def _amax(a):
    import numpy as np
    return float(np.max(np.abs(a))) if a.size else 0.0


def close(a, b, tol=TOL, floor=1.0):
    """entrywise agreement within tol relative to the largest entry, the scale never taken below `floor`
    (non-unitary custom gates make large entries; uniformly tiny matrices are passed a small floor).
    Two rejections agree, a rejection never agrees with a matrix"""
    import numpy as np
    if isinstance(a, str) or isinstance(b, str):
        return isinstance(a, str) and isinstance(b, str)
    a, b = np.asarray(a), np.asarray(b)
    if a.shape != b.shape:
        return False
    scale = max(floor, _amax(a), _amax(b))
    return bool(np.all(np.abs(a - b) <= tol * scale))


def floor_of(ms):
    """scale below which entries of a product of the given gate matrices are rounding noise:
    the product of the gates' largest entries, capped at 1"""
    p = 1.0
    for m in ms:
        if not isinstance(m, str):
            p *= _amax(m)
    return min(1.0, p) if p > 0 else 1.0


def spec_has(spec, key):
    if key in spec:
        return True
    for k in ("controlled", "dagger", "power", "exp"):
        if k in spec:
            return spec_has(spec[k], key)
    return False


def spec_depth(spec):
    for k in ("controlled", "dagger", "power", "exp"):
        if k in spec:
            return 1 + spec_depth(spec[k])
    return 0


def spec_innermost(spec):
    for k in ("controlled", "dagger", "power", "exp"):
        if k in spec:
            return spec_innermost(spec[k])
    return spec


def spec_parametric(spec):
    if "gate" in spec:
        return circ.BUILTIN_PARAMS[spec["gate"]] > 0
    for k in ("controlled", "dagger", "power", "exp"):
        if k in spec:
            return spec_parametric(spec[k])
    return False


def spec_has_fractional(spec):
    if "power" in spec:
        return unrat(spec["e"]).denominator != 1 or spec_has_fractional(spec["power"])
    for k in ("controlled", "dagger", "exp"):
        if k in spec:
            return spec_has_fractional(spec[k])
    return False


# ----------------------------------------------------------------------------------------------- generators
_cnt = [0]


def _fresh(prefix):
    _cnt[0] += 1
    return f"{prefix}{_cnt[0]}"


def _det_nonzero(m):
    import sympy
    return sympy.simplify(circ.sympy_matrix(m).det()) != 0


def nilpotent_matrix(rng, k):
    """strictly upper-triangular Gaussian-integer matrix, conjugated by a permutation (so not visibly triangular)"""
    d = 2 ** k
    perm = list(range(d))
    rng.shuffle(perm)
    base = [[[0, 0] for _ in range(d)] for _ in range(d)]
    for i in range(d):
        for j in range(i + 1, d):
            if rng.random() < 0.7:
                base[i][j] = [rng.randrange(-2, 3), rng.randrange(-2, 3)]
    return [[base[perm[i]][perm[j]] for j in range(d)] for i in range(d)]


def _point(t):
    """rational point (cos θ/2, sin θ/2) for tan θ/4 = t"""
    t = Fraction(t)
    return [rat((1 - t * t) / (1 + t * t)), rat(2 * t / (1 + t * t))]


def tiny_angle(rng):
    """θ ≈ 4·j·10^-k: too large to be rounding noise, small enough for a tolerant comparison to call it 0"""
    k = rng.choice([3, 5, 6, 7, 9])
    return _point(Fraction(rng.choice([-1, 1]) * rng.randrange(1, 10), 10 ** k))


def near_angle(angle, tight=False):
    """sibling of an angle: relative distance 2e-6 (equal for np.isclose / allclose at their defaults), or with tight=True
    absolute distance 4e-9 (equal for the library's own gate __eq__, absolute 1e-8 on parameters); never equal as a gate"""
    ch, sh = unrat(angle[0]), unrat(angle[1])
    if ch == -1:
        return _point(Fraction(2 ** 19 + 1, 2 ** 19))
    t = sh / (1 + ch)
    if tight:
        return _point(t + (1 + t * t) * Fraction(1, 10 ** 9))
    if t == 0:
        return _point(Fraction(1, 2 ** 19))
    return _point(t * Fraction(2 ** 19 + 1, 2 ** 19))


def scaled_matrix(m, f):
    return [[[rat(unrat(e[0]) * f), rat(unrat(e[1]) * f)] for e in row] for row in m]


def base_spec(rng, arity, allow_custom=True):
    if allow_custom and rng.random() < 0.35:
        m = circ.gauss_matrix(rng, arity, -2, 2)
        u = rng.random()
        if u < 0.14:
            m = scaled_matrix(m, Fraction(1, 2 ** 40))       # uniformly tiny: every entry below 1e-8
        elif u < 0.20:
            m = scaled_matrix(m, Fraction(2 ** 30))
        elif u < 0.26:                                        # entries spanning > 1e8
            m = [[[rat(unrat(e[0]) * Fraction(2) ** rng.choice([-30, 0, 0, 30])), rat(unrat(e[1]))] for e in row] for row in m]
        return {"custom": _fresh("cg"), "m": m}
    names = [n for n, q in circ.BUILTIN_QUBITS.items() if q == arity and n != "Delay"]
    spec = circ.random_builtin_spec(rng, names)
    a = spec["angles"]
    if a:
        u = rng.random()
        if u < 0.15:
            a[rng.randrange(len(a))] = tiny_angle(rng)
        elif u < 0.27 and len(a) >= 2:
            spec["angles"] = [a[0] for _ in a]                # MS(t, t), U3(t, t, t)
    return spec


def gate_spec(rng, total, model=True, depth=None):
    """random gate acting on `total` qubits; modifier chain of the given depth (None: random 0..3).
    model=True keeps it evaluable by the driver (exp only of nilpotent customs / their daggers, integer powers)."""
    if depth is None:
        depth = rng.choice([0, 0, 0, 1, 1, 2, 3])
    if depth == 0:
        return base_spec(rng, min(total, 2)) if total <= 2 else {"custom": _fresh("cg"), "m": circ.gauss_matrix(rng, total, -1, 1)}
    kinds = ["dagger", "power", "controlled", "exp"]
    kind = rng.choice(kinds)
    if kind == "controlled" and total >= 2:
        k = rng.randrange(1, min(total - 1, 2) + 1)
        return {"controlled": gate_spec(rng, total - k, model, depth - 1), "k": k}
    if kind == "exp" and total <= 2:
        if model:
            inner = {"custom": _fresh("nil"), "m": nilpotent_matrix(rng, total)}
            if depth >= 2 and rng.random() < 0.5:
                inner = {"dagger": inner}
            return {"exp": inner}
        if total == 1:
            return {"exp": {"gate": rng.choice(["X", "Y", "Z", "S", "I"]), "angles": []}}
    if kind == "power":
        inner = gate_spec(rng, total, model, depth - 1)
        e = rng.choice([0, 1, 2, 2, 3, -1, -1, -2])
        if e < 0 and not _invertible(inner):
            e = -e
        return {"power": inner, "e": e}
    return {"dagger": gate_spec(rng, total, model, depth - 1)}


def _invertible(spec):
    """every base matrix under the spec is invertible (built-ins are unitary; customs by determinant; exp always)"""
    if "gate" in spec:
        return True
    if "custom" in spec:
        # negative powers of 8x8 exact matrices cost sympy seconds each: keep them to <= 2 qubits
        return len(spec["m"]) <= 4 and _det_nonzero(spec["m"])
    if "exp" in spec:
        return True
    if "power" in spec:
        return unrat(spec["e"]) == 0 or _invertible(spec["power"])
    for k in ("controlled", "dagger"):
        if k in spec:
            return _invertible(spec[k])
    return False


def circuit_spec(rng, n, length, model=True, declared=None, shapes=True):
    ops = []
    for _ in range(length):
        total = rng.choice([1, 1, 2, 2, 3]) if n >= 3 else rng.randrange(1, n + 1)
        total = min(total, n)
        ops.append({"g": gate_spec(rng, total, model), "qs": rng.sample(range(n), total)})
    if shapes and ops and rng.random() < 0.18:                # one operation repeated: exact copies and near-equal siblings
        first = ops[0]
        if rng.random() < 0.7 and len(first["qs"]) <= 2:      # mostly a parametric built-in: that is where "equal" is a matter of tolerance
            names = [nm for nm, q in circ.BUILTIN_QUBITS.items() if q == len(first["qs"]) and circ.BUILTIN_PARAMS[nm] and nm != "Delay"]
            first = {"g": circ.random_builtin_spec(rng, names), "qs": first["qs"]}
        ops = [copy.deepcopy(first) for _ in range(rng.choice([2, 2, 3]))]
        inner = spec_innermost(ops[-1]["g"])
        if "gate" in inner and inner["angles"] and rng.random() < 0.8:
            inner["angles"][0] = near_angle(inner["angles"][0], rng.random() < 0.6)
        return {"n": declared, "ops": ops}
    if shapes and ops and rng.random() < 0.3:
        i = rng.randrange(len(ops))
        twin = copy.deepcopy(ops[i])                          # the same operation again, right after the first
        inner = spec_innermost(twin["g"])
        if "gate" in inner and inner["angles"] and rng.random() < 0.6:
            inner["angles"][0] = near_angle(inner["angles"][0], rng.random() < 0.5)    # … or its near-equal sibling
        ops.insert(i + 1, twin)
    return {"n": declared, "ops": ops}


def spec_width(cs):
    return cs["n"] or (max([q for o in cs["ops"] for q in o["qs"]], default=-1) + 1)


def build_mode(rng, cs):
    """how the REAL circuit object is put together; += and concatenation only where they give the constructor's width"""
    need = max([q for o in cs["ops"] for q in o["qs"]], default=-1) + 1
    if cs["n"] is not None and cs["n"] < need:
        return "ctor"
    return rng.choice(["ctor", "ctor", "iadd", "concat"])


def sibling_circuit(rng, cs):
    """copy of a circuit spec that differs from it in exactly one component"""
    cs2 = copy.deepcopy(cs)
    ops = cs2["ops"]
    cands = []
    for i, o in enumerate(ops):
        inner = spec_innermost(o["g"])
        if "custom" in inner:
            cands.append(("matrix", i))
        if "gate" in inner and inner["angles"]:
            cands.append(("angle", i))
        if len(o["qs"]) >= 2:
            cands.append(("qorder", i))
        if spec_has(o["g"], "power"):
            cands.append(("exponent", i))
        cands.append(("dagger", i))
    cands.append(("width", None))
    strong = [x for x in cands if x[0] in ("matrix", "angle")]
    how, i = rng.choice(strong if strong and rng.random() < 0.6 else cands)
    if how == "matrix":                                      # another definition under the SAME name
        inner = spec_innermost(ops[i]["g"])
        inner["m"] = scaled_matrix(inner["m"], Fraction(rng.choice([2, -1, 3])))
    elif how == "angle":
        inner = spec_innermost(ops[i]["g"])
        a = inner["angles"][0]
        inner["angles"][0] = rng.choice([near_angle(a), near_angle(a, True), [a[0], rat(-unrat(a[1]))], circ.rat_angle(rng)])
    elif how == "qorder":
        ops[i]["qs"] = ops[i]["qs"][1:] + ops[i]["qs"][:1]
    elif how == "exponent":
        s = ops[i]["g"]
        while "power" not in s:
            s = s[[k for k in ("controlled", "dagger", "exp") if k in s][0]]
        e = int(unrat(s["e"]))
        s["e"] = e + 1 if e > 0 else (e - 1 if e < 0 else 2)
    elif how == "dagger":
        ops[i]["g"] = {"dagger": ops[i]["g"]}
    else:
        cs2["n"] = spec_width(cs) + 1
    return cs2, how


def _other_arg(rng, st, width):
    st = dict(st)
    if st["op"] == "controlled":
        st["ci"] = rng.choice([k for k in range(width + 1) if k != st["ci"]])
    elif st["op"] == "ancilla":
        st["k"] = rng.choice([k for k in (0, 1, 2, 3) if k != st["k"]])
    else:
        st["on"] = "last"                                   # the inverse of the inverse just handed out
    return st


def session_case(rng):
    n = rng.choice([1, 2, 2, 3, 3])
    model = rng.random() < 0.85
    cs = circuit_spec(rng, n, rng.choice([1, 2, 3, 4]), model, rng.choice([None, None, n, n + 1]))
    if rng.random() < 0.5:                                   # make sure a custom gate is there (its name is what a cache would key on)
        o = rng.choice(cs["ops"])
        if len(o["qs"]) <= 2:
            o["g"] = {"custom": _fresh("cg"), "m": circ.gauss_matrix(rng, len(o["qs"]), -2, 2)}
    sib, how = sibling_circuit(rng, cs)
    w0, w1 = spec_width(cs), spec_width(sib)
    kinds = ["controlled", rng.choice(["inverse", "ancilla"])]
    rng.shuffle(kinds)

    def api(kind, on, width):
        if kind == "inverse":
            return {"op": "inverse", "on": on}
        if kind == "controlled":
            return {"op": "controlled", "on": on, "ci": rng.randrange(0, width + 1)}
        return {"op": "ancilla", "on": on, "k": rng.choice([0, 1, 1, 2])}

    a0, b0 = api(kinds[0], 0, w0), api(kinds[1], 0, w0)
    steps = [a0]
    if rng.random() < 0.6:
        steps.append({"op": "touch", "how": rng.choice(["append", "pop", "reverse"])})
    steps += [dict(a0), _other_arg(rng, a0, w0), dict(a0, on=1), b0, dict(b0, on=1)]
    i = rng.randrange(len(cs["ops"]))
    arity = len(cs["ops"][i]["qs"])
    if rng.random() < 0.6:
        steps.append({"op": "replace", "on": 0, "i": i, "g": gate_spec(rng, arity, model)})
    else:
        k = rng.randrange(1, min(2, w0) + 1)
        steps.append({"op": "append", "on": 0, "g": gate_spec(rng, k, model), "qs": rng.sample(range(w0), k)})
    steps += [dict(a0), dict(b0)]
    if rng.random() < 0.5:
        steps.append({"op": rng.choice(["inverse", "controlled"]), "on": "last", "ci": rng.randrange(0, 3)})
    return {"kind": "session", "circs": [cs, sib], "sibling": how, "build": build_mode(rng, cs), "steps": steps, "model": model}


FACTORIES = {
    0: ["X", "H", "T", "SX", "cg0"],
    1: ["RX", "RY", "RZ", "PHASE", "RH", "GPi", "GPi2", "Delay", "cg1"],
    2: ["cg2"],
    3: ["U3", "cg3"],
}


def _dyadic(rng):
    return rat(Fraction(rng.randrange(-64, 65), rng.choice([1, 2, 4, 8, 16])))


def _collection(rng, maxq, size):
    qs = [rng.randrange(0, maxq + 1) for _ in range(size)]
    if qs and rng.random() < 0.5:
        qs += [rng.choice(qs) for _ in range(rng.randrange(1, 3))]  # duplicates
    rng.shuffle(qs)
    return qs


def _shaped_collection(rng):
    """the shapes a fast path would single out"""
    shape = rng.choice(["contiguous", "descending", "single", "big", "bigdup", "zero-first", "sorted-gaps"])
    if shape == "contiguous":
        a = rng.choice([0, 0, 1, 7, 95])
        return list(range(a, a + rng.randrange(2, 12))), shape
    if shape == "descending":
        a = rng.choice([0, 3, 9])
        return list(range(a + rng.randrange(2, 12), a - 1, -1)), shape
    if shape == "single":
        return [rng.choice([0, 0, 1, 10, 63, 64])], shape
    if shape in ("big", "bigdup"):
        qs = rng.sample(range(0, 200), rng.choice([9, 13, 17, 64, 65, 80]))
        if shape == "bigdup":
            qs += [rng.choice(qs) for _ in range(rng.randrange(1, 4))]
            rng.shuffle(qs)
        return qs, shape
    if shape == "zero-first":
        return [0] + rng.sample(range(1, 30), rng.randrange(0, 5)), shape
    return sorted(rng.sample(range(0, 120), rng.randrange(2, 9))), shape


def _shaped_rows(rng, npar, nrows):
    """parameter tables a shortcut would single out: all rows equal, two equal, near-equal, zeros, -1/-2, huge"""
    if npar == 0 or nrows == 0:
        return [[] for _ in range(nrows)], "plain"
    shape = rng.choice(["equal", "two-equal", "near", "near-abs", "zeros", "minus", "huge", "ints"])
    rows = [[_dyadic(rng) for _ in range(npar)] for _ in range(nrows)]
    if shape == "equal":
        rows = [list(rows[0]) for _ in range(nrows)]
    elif shape == "two-equal" and nrows >= 2:
        i, j = rng.sample(range(nrows), 2)
        rows[j] = list(rows[i])
    elif shape == "near":                                    # rows[0]·(1 + 2^-19) etc.: equal for allclose, not equal
        base = [rat(Fraction(rng.randrange(1, 64))) for _ in range(npar)]
        rows = [[rat(unrat(x) * (1 + Fraction(i, 2 ** 19))) for x in base] for i in range(nrows)]
    elif shape == "near-abs":                                # absolute distance 4e-9: equal for the gates' own __eq__
        base = [_dyadic(rng) for _ in range(npar)]
        rows = [[rat(unrat(x) + Fraction(i, 2 ** 28)) for x in base] for i in range(nrows)]
    elif shape == "zeros":
        rows = [[0 if rng.random() < 0.7 else x for x in r] for r in rows]
        rows[rng.randrange(nrows)] = [0] * npar
    elif shape == "minus":                                   # hash(-1) == hash(-2)
        rows = [[rng.choice([-1, -2]) for _ in range(npar)] for _ in range(nrows)]
    elif shape == "huge":
        rows = [[rat(unrat(x) + rng.choice([2 ** 40, -2 ** 40, 2 ** 46])) for x in r] for r in rows]
    elif shape == "ints":
        rows = [[rng.randrange(-9, 10) for _ in range(npar)] for _ in range(nrows)]
    return rows, shape


def _fixed_gate(rng):
    """a one-qubit gate OBJECT handed to the builders instead of a factory: bound parametric, wrapped, custom"""
    u = rng.random()
    if u < 0.5:
        name = rng.choice(["RX", "RY", "RZ", "PHASE", "U3", "GPi2"])
        return {"gate": name, "angles": [circ.rat_angle(rng) for _ in range(circ.BUILTIN_PARAMS[name])]}
    if u < 0.7:
        return {"dagger": {"gate": rng.choice(["S", "T", "SX"]), "angles": []}}
    if u < 0.85:
        return {"power": {"gate": rng.choice(["S", "T", "H"]), "angles": []}, "e": rng.choice([2, 3, -1])}
    return {"custom": rng.choice(["cgfix", _fresh("cgfix")]), "m": circ.gauss_matrix(rng, 1, -2, 2)}


INPUTS = ["list", "list", "tuple", "set", "frozenset", "ndarray", "dict", "range"]


def _input_kind(rng, qs):
    k = rng.choice(INPUTS)
    if k == "range" and not (len(qs) >= 1 and qs == list(range(qs[0], qs[0] + len(qs)))):
        k = "list"
    if k == "dict" and len(set(qs)) != len(qs):
        k = "tuple"                                          # the keys of a dict cannot repeat
    return k


def _old_ops(rng, width):
    old = [{"name": rng.choice(["H", "X", "CNOT"]), "qs": None} for _ in range(rng.randrange(0, 3))]
    for o in old:
        o["qs"] = rng.sample(range(width), 2 if o["name"] == "CNOT" else 1)
    return old


def apply_case(rng, shaped):
    npar = rng.choice([0, 0, 1, 1, 1, 2, 3, 3])
    if shaped and rng.random() < 0.25:
        npar = 0
    fac = rng.choice(FACTORIES[npar])
    if shaped:
        qs, _ = _shaped_collection(rng)
    else:
        qs = _collection(rng, rng.choice([3, 6, 12, 40, 200]), rng.randrange(0, 7))
    distinct = len(set(qs))
    c = {"kind": "apply", "old": _old_ops(rng, 4), "old_n": rng.choice([None, None, 6, 6, 50, 250] if shaped else [None, None, 6]),
         "qs": qs, "input": _input_kind(rng, qs) if shaped else rng.choice(["list", "list", "tuple", "set"]),
         "factory": fac, "rows": None, "numpy_rows": False}
    if shaped and qs and rng.random() < 0.6:                  # a base declared wider than everything that is added
        c["old_n"] = max(qs) + rng.choice([1, 2, 5, 40])
    use_rows = npar > 0 or (fac == "cg0" and rng.random() < 0.5)
    if use_rows:
        nrows = distinct
        if rng.random() < 0.12:
            nrows = max(0, distinct + rng.choice([-1, 1]))  # malformed: row-count mismatch
        if shaped and rng.random() < 0.7:
            c["rows"], _ = _shaped_rows(rng, npar, nrows)
        else:
            c["rows"] = [[_dyadic(rng) for _ in range(npar)] for _ in range(nrows)]
        if npar > 0:
            c["ptype"] = rng.choice(["float", "float", "np", "int", "sympy", "tuple"] if shaped else ["float"] * 4 + ["np"])
            c["numpy_rows"] = c["ptype"] == "np"
    elif shaped and rng.random() < 0.6:
        c["fixed"] = _fixed_gate(rng)
        c["factory"] = "fixed"
    return c


def layer_case(rng, n, shaped):
    npar = rng.choice([0, 1, 1, 2, 3])
    if shaped and rng.random() < 0.3:
        npar = 0
    fac = rng.choice(FACTORIES[npar])
    c = {"kind": "layer", "n": n, "factory": fac, "rows": None, "numpy_rows": False}
    use_rows = npar > 0 or (fac == "cg0" and rng.random() < 0.5)
    if use_rows:
        nrows = n
        if shaped and rng.random() < 0.2:
            nrows = max(0, n + rng.choice([-1, 1]))          # malformed: row-count mismatch
        if shaped and rng.random() < 0.7:
            c["rows"], _ = _shaped_rows(rng, npar, nrows)
        else:
            c["rows"] = [[_dyadic(rng) for _ in range(npar)] for _ in range(nrows)]
        if npar > 0:
            c["ptype"] = rng.choice(["float", "float", "np", "int", "sympy", "tuple"] if shaped else ["float"] * 4 + ["np"])
            c["numpy_rows"] = c["ptype"] == "np"
    elif shaped and rng.random() < 0.6:
        c["fixed"] = _fixed_gate(rng)
        c["factory"] = "fixed"
    return c


def _builder_sibling(rng, st):
    """the previous builder call with exactly one component changed"""
    st = copy.deepcopy(st)
    opts = ["again", "again"]
    if st["op"] == "apply" and len(st["qs"]) >= 2:
        opts += ["permute", "permute"]
    if st["op"] == "apply" and st["qs"] and st["input"] in ("list", "tuple", "ndarray") and st["rows"] is None:
        opts += ["dup"]
    if st["rows"] and st["rows"][0]:
        opts += ["row", "row", "near-row", "factory"]
    if st.get("fixed") is not None:
        opts += ["fixed"] * 6
    if st["op"] == "layer" and st["rows"] is None:
        opts += ["n"]
    how = rng.choice(opts)
    if how == "permute":
        qs = list(st["qs"])
        while qs == st["qs"] and len(set(qs)) > 1:
            rng.shuffle(qs)
        st["qs"] = qs
        if st["input"] == "range":
            st["input"] = "list"
    elif how == "dup":
        st["qs"] = st["qs"] + [rng.choice(st["qs"])]
    elif how == "row":
        i, j = rng.randrange(len(st["rows"])), rng.randrange(len(st["rows"][0]))
        st["rows"][i][j] = rat(unrat(st["rows"][i][j]) + rng.choice([1, -1, Fraction(1, 2)]))
    elif how == "near-row":
        i, j = rng.randrange(len(st["rows"])), rng.randrange(len(st["rows"][0]))
        x = unrat(st["rows"][i][j])
        st["rows"][i][j] = rat(x + Fraction(1, 2 ** 28)) if rng.random() < 0.5 or not x else rat(x * (1 + Fraction(1, 2 ** 19)))
        if st.get("ptype") == "int":
            st["ptype"] = "float"
    elif how == "factory":
        npar = len(st["rows"][0])
        st["factory"] = rng.choice([f for f in FACTORIES[npar]])
    elif how == "fixed":                                     # same class of gate, same NAME, another parameter / matrix / exponent
        f = st["fixed"]
        inner = spec_innermost(f)
        if "gate" in inner and inner["angles"]:
            a = inner["angles"][0]
            inner["angles"][0] = rng.choice([near_angle(a), near_angle(a, True), [a[0], rat(-unrat(a[1]))], circ.rat_angle(rng)])
        elif "custom" in inner:
            inner["m"] = scaled_matrix(inner["m"], Fraction(2))
        elif "power" in f:
            f["e"] = int(unrat(f["e"])) + 1
        else:
            st["fixed"] = {"dagger": {"gate": rng.choice(["S", "T", "SX"]), "angles": []}}
    elif how == "n":
        st["n"] = st["n"] + rng.choice([1, -1]) if st["n"] > 0 else 1
    st["how"] = how
    return st


def bsession_case(rng):
    width = rng.choice([4, 6, 30])
    old = _old_ops(rng, 4)
    steps = []
    while True:
        first = apply_case(rng, True) if rng.random() < 0.55 else layer_case(rng, rng.choice([1, 2, 3, 5, 9, 12]), True)
        if first["rows"] is None or len(first["rows"]) == (first["n"] if first["kind"] == "layer" else len(set(first["qs"]))):
            break
    if first["kind"] == "apply" and first["qs"] and rng.random() < 0.5:
        width = max(first["qs"]) + rng.choice([1, 3, 30])
    st = {k: v for k, v in first.items() if k not in ("kind", "old", "old_n")}
    st["op"] = first["kind"]
    steps.append(st)
    for _ in range(rng.randrange(4, 8)):
        u = rng.random()
        if u < 0.2:
            steps.append({"op": "touch"})
        elif u < 0.32:
            steps.append({"op": "append_base", "name": rng.choice(["H", "X"]), "q": rng.randrange(0, 4)})
        last = [s for s in steps if s["op"] in ("apply", "layer")][-1]
        steps.append(_builder_sibling(rng, last))
    return {"kind": "bsession", "old": old, "old_n": width, "steps": steps}


SYM_EXPRS = ["a", "b", "c", "-a", "2*a+b", "a*b", "a/2-c", "a+pi/4", "b-c", "pi/3", "1/3", "2", "py:2", "py:0.375"]
SYM_1Q = ["RX", "RY", "RZ", "PHASE", "RH", "GPi", "GPi2"]      # U3 simplifies its symbolic matrix: 0.3 s per evaluation, corpus only
SYM_2Q = ["CPHASE", "XX", "YY", "ZZ", "XY", "MS"]


def sym_gate_spec(rng, total, depth=None):
    if depth is None:
        depth = rng.choice([0, 0, 0, 1, 1, 2])
    if depth > 0:
        if total >= 2 and rng.random() < 0.5:
            return {"controlled": sym_gate_spec(rng, total - 1, depth - 1), "k": 1}
        return {"dagger": sym_gate_spec(rng, total, depth - 1)}
    u = rng.random()
    if total == 1 and u < 0.2:
        return {"scustom": "cgs", "exprs": [rng.choice(SYM_EXPRS) for _ in range(2)]}
    if u < 0.4:
        return {"num": gate_spec(rng, total, False, depth=rng.choice([0, 0, 1]))}
    name = rng.choice(SYM_1Q if total == 1 else SYM_2Q)
    return {"sgate": name, "exprs": [rng.choice(SYM_EXPRS) for _ in range(circ.BUILTIN_PARAMS[name])]}


def symb_case(rng):
    n = rng.choice([1, 2, 2, 3])
    ops = []
    for _ in range(rng.choice([1, 2, 3, 4])):
        total = min(n, rng.choice([1, 1, 2]))
        ops.append({"g": sym_gate_spec(rng, total), "qs": rng.sample(range(n), total)})
    if len(ops) >= 2 and rng.random() < 0.3:                 # two adjacent numeric gates between symbolic ones
        i = rng.randrange(len(ops))
        for j in (i, min(i + 1, len(ops) - 1)):
            ops[j]["g"] = {"num": gate_spec(rng, len(ops[j]["qs"]), False, depth=0)}
    return {"kind": "symb", "n": rng.choice([None, None, n, n + 1]), "ops": ops, "ci": rng.randrange(0, n + 2),
            "k": rng.choice([0, 1, 2]), "build": rng.choice(["ctor", "iadd"]),
            "vals": {s: _dyadic(rng) for s in ("a", "b", "c")}}


def wide_case(rng):
    top = rng.choice([11, 12, 20, 40, 60])
    used = sorted(rng.sample(range(top + 1), rng.choice([2, 3, 3, 4])))
    ops = []
    for _ in range(rng.choice([1, 2, 3, 4])):
        total = rng.choice([1, 1, 2, 2, 3])
        total = min(total, len(used))
        ops.append({"g": gate_spec(rng, total, True), "qs": rng.sample(used, total)})
    declared = rng.choice([None, None, top + 1, top + 3])
    cs = {"n": declared, "ops": ops}
    w = spec_width(cs)
    ci = rng.choice([0, 1, 9, 10, 11, w - 1, w, rng.randrange(0, w + 1)])
    return {"kind": "wide", "circ": cs, "ci": max(0, min(ci, w)), "k": rng.choice([0, 1, 2, 3, 12]), "np_ci": rng.random() < 0.3}


def builder_cases(rng, big):
    cases = []
    for _ in range(160 if big else 50):
        cases.append(apply_case(rng, False))
    sizes = [0, 1, 2, 3, 5, 8, 9, 16, 33, 64, 100, 300] if big else [0, 1, 2, 3, 8, 33, 300]
    for n in sizes + [rng.randrange(1, 40) for _ in range(30 if big else 8)]:
        cases.append(layer_case(rng, n, False))
    for _ in range(120 if big else 48):
        cases.append(apply_case(rng, True))
    for n in [rng.choice([1, 2, 3, 9, 10, 13, 64, 65, 80]) for _ in range(40 if big else 12)]:
        cases.append(layer_case(rng, n, True))
    for _ in range(60 if big else 16):
        cases.append(bsession_case(rng))
    return cases


def generate(rng, tier):
    big = tier == "thorough"
    _cnt[0] = 0
    cases = []
    # --- per-gate rules on modifier chains
    for _ in range(220 if big else 50):
        total = rng.choice([1, 1, 2, 2, 3])
        model = rng.random() < 0.85
        cases.append({"kind": "gate", "g": gate_spec(rng, total, model, depth=rng.choice([0, 1, 2, 2, 3, 3])), "model": model})
    # --- circuits: inverse / controlled at every position / ancillas
    ncirc = 110 if big else 26
    for i in range(ncirc):
        n = rng.choice([1, 2, 3, 3, 4, 4]) if not big or i % 8 else 5
        length = rng.choice([0, 1, 2, 3, 4, 5]) if n < 5 else rng.choice([2, 3])
        model = rng.random() < 0.85
        declared = rng.choice([None, None, n, n + 1])
        cs = circuit_spec(rng, n, length, model, declared)
        width = declared or n
        mode = build_mode(rng, cs)
        cases.append({"kind": "inverse", "circ": cs, "model": model and width <= 4, "build": mode})
        for ci in range(width + 1):
            cases.append({"kind": "controlled", "circ": cs, "ci": ci, "model": model and width <= 3, "build": mode,
                          "np_ci": rng.random() < 0.15})
        k = rng.choice([0, 1, 2, 2, 3, 6, 12])
        cases.append({"kind": "ancilla", "circ": cs, "k": k, "model": model and width + k <= 4, "build": mode})
    # --- malformed circuits (the model must reproduce the rejection of to_unitary, the structure is still compared)
    for _ in range(40 if big else 10):
        n = rng.choice([2, 3])
        cs = circuit_spec(rng, n, rng.randrange(1, 4), True, None, shapes=False)
        bad = rng.choice(["dup", "range", "arity"])
        o = rng.choice(cs["ops"])
        if bad == "dup":
            o["qs"] = [o["qs"][0]] * max(2, len(o["qs"]))
            o["g"] = base_spec(rng, 2, allow_custom=False) if len(o["qs"]) == 2 else {"custom": _fresh("cg"), "m": circ.gauss_matrix(rng, len(o["qs"]), -1, 1)}
        elif bad == "range":
            cs["n"] = n
            o["qs"] = [n + 1] + o["qs"][1:]
        else:
            o["g"] = base_spec(rng, 2, allow_custom=False)
            o["qs"] = [o["qs"][0]]
        cases.append({"kind": "inverse", "circ": cs, "model": True, "malformed": bad})
        ci = rng.randrange(0, n + 1)
        wide = max([ci] + [q + 1 for oo in cs["ops"] for q in oo["qs"]]) + 1
        cases.append({"kind": "controlled", "circ": cs, "ci": ci, "model": wide <= 4, "malformed": bad})
    # --- long-lived objects, symbolic parameters, wide registers
    for _ in range(70 if big else 16):
        cases.append(session_case(rng))
    for _ in range(40 if big else 8):
        cases.append(symb_case(rng))
    for _ in range(40 if big else 10):
        cases.append(wide_case(rng))
    cases += builder_cases(rng, big)
    return cases


def corpus():
    h = {"gate": "H", "angles": []}
    s = {"gate": "S", "angles": []}
    x = {"gate": "X", "angles": []}
    rx = {"gate": "RX", "angles": [["3/5", "4/5"]]}
    rz_tiny = {"gate": "RZ", "angles": [_point(Fraction(1, 10 ** 6))]}
    nil = {"custom": "nil0", "m": [[[0, 0], [1, 1]], [[0, 0], [0, 0]]]}
    cg = {"custom": "cgc", "m": [[[1, 0], [2, 0]], [[0, 1], [1, 0]]]}
    cg_other = {"custom": "cgc", "m": [[[2, 0], [4, 0]], [[0, 2], [2, 0]]]}
    cg_tiny = {"custom": "cgt", "m": scaled_matrix(cg["m"], Fraction(1, 2 ** 40))}
    c1 = {"n": None, "ops": [{"g": s, "qs": [1]}, {"g": {"controlled": {"dagger": rx}, "k": 1}, "qs": [2, 0]},
                             {"g": {"power": cg, "e": -2}, "qs": [0]}, {"g": {"exp": nil}, "qs": [1]}]}
    c2 = {"n": 3, "ops": [{"g": h, "qs": [0]}]}
    c3 = {"n": None, "ops": [{"g": x, "qs": [0]}, {"g": h, "qs": [1]}, {"g": rx, "qs": [0]}, {"g": cg, "qs": [1]}]}
    c3s = {"n": None, "ops": [{"g": x, "qs": [0]}, {"g": h, "qs": [1]}, {"g": rx, "qs": [0]}, {"g": cg_other, "qs": [1]}]}
    c4 = {"n": None, "ops": [{"g": rx, "qs": [0]}, {"g": {"gate": "RX", "angles": [near_angle(rx["angles"][0])]}, "qs": [0]}]}
    c4t = {"n": None, "ops": [{"g": rx, "qs": [0]}, {"g": {"gate": "RX", "angles": [near_angle(rx["angles"][0], True)]}, "qs": [0]}]}
    c5 = {"n": 14, "ops": [{"g": {"gate": "CNOT", "angles": []}, "qs": [12, 3]}, {"g": rx, "qs": [10]}, {"g": cg, "qs": [3]}]}
    half = rat(Fraction(1, 2))
    out = [{"kind": "inverse", "circ": c1, "model": True},
           {"kind": "inverse", "circ": {"n": None, "ops": []}, "model": True},
           {"kind": "inverse", "circ": {"n": 2, "ops": []}, "model": True},
           {"kind": "inverse", "circ": c3, "model": True, "build": "iadd"},
           {"kind": "inverse", "circ": c3, "model": True, "build": "concat"},
           {"kind": "inverse", "circ": c4, "model": True},
           {"kind": "inverse", "circ": c4t, "model": True},
           {"kind": "inverse", "circ": {"n": None, "ops": [{"g": rz_tiny, "qs": [0]}, {"g": cg_tiny, "qs": [1]}]}, "model": True},
           {"kind": "gate", "g": {"dagger": {"power": {"controlled": s, "k": 1}, "e": 3}}, "model": True},
           {"kind": "gate", "g": {"controlled": {"dagger": {"power": cg, "e": -1}}, "k": 1}, "model": True},
           {"kind": "gate", "g": {"dagger": {"exp": {"dagger": nil}}}, "model": True},
           {"kind": "gate", "g": rz_tiny, "model": True},
           {"kind": "gate", "g": cg_tiny, "model": True},
           {"kind": "ancilla", "circ": c2, "k": 2, "model": True},
           {"kind": "ancilla", "circ": c1, "k": 0, "model": True},
           {"kind": "ancilla", "circ": c2, "k": 9, "model": False},
           {"kind": "apply", "old": [{"name": "H", "qs": [0]}], "old_n": None, "qs": [5, 1, 8, 1, 5], "input": "list",
            "factory": "U3", "rows": [[rat(Fraction(1, 2)), rat(Fraction(1, 4)), 1], [1, 2, 3], [4, 5, 6]], "numpy_rows": False},
           {"kind": "apply", "old": [], "old_n": None, "qs": [5, 1, 8, 1, 5], "input": "tuple", "factory": "RX",
            "rows": [[1], [2]], "numpy_rows": False},
           {"kind": "apply", "old": [], "old_n": None, "qs": [3, 3, 2], "input": "list", "factory": "X", "rows": None,
            "numpy_rows": False},
           {"kind": "apply", "old": [{"name": "X", "qs": [1]}], "old_n": 40, "qs": list(range(0, 12)), "input": "range",
            "factory": "H", "rows": None, "numpy_rows": False},
           {"kind": "apply", "old": [], "old_n": None, "qs": [0, 4, 2], "input": "ndarray", "factory": "RX",
            "rows": [[-1], [-2], [0]], "numpy_rows": False, "ptype": "int"},
           {"kind": "apply", "old": [], "old_n": None, "qs": [2, 0], "input": "list", "factory": "fixed", "fixed": rx, "rows": None,
            "numpy_rows": False},
           {"kind": "layer", "n": 3, "factory": "RX", "rows": [[rat(Fraction(1, 2))], [rat(Fraction(1, 4))], [1]], "numpy_rows": True},
           {"kind": "layer", "n": 300, "factory": "H", "rows": None, "numpy_rows": False},
           {"kind": "layer", "n": 0, "factory": "X", "rows": None, "numpy_rows": False},
           {"kind": "layer", "n": 3, "factory": "RY", "rows": [[3], [rat(Fraction(3 * 2 ** 19 + 3, 2 ** 19))], [3]], "numpy_rows": False},
           {"kind": "session", "circs": [c3, c3s], "sibling": "matrix", "build": "ctor", "model": True,
            "steps": [{"op": "controlled", "on": 0, "ci": 1}, {"op": "touch", "how": "append"}, {"op": "controlled", "on": 0, "ci": 1},
                      {"op": "controlled", "on": 0, "ci": 0}, {"op": "controlled", "on": 1, "ci": 1}, {"op": "inverse", "on": 0},
                      {"op": "touch", "how": "pop"}, {"op": "inverse", "on": 0}, {"op": "inverse", "on": 1},
                      {"op": "replace", "on": 0, "i": 2, "g": {"gate": "RY", "angles": [["4/5", "3/5"]]}},
                      {"op": "inverse", "on": 0}, {"op": "controlled", "on": 0, "ci": 1}, {"op": "inverse", "on": "last"},
                      {"op": "append", "on": 0, "g": s, "qs": [1]}, {"op": "inverse", "on": 0}, {"op": "ancilla", "on": 0, "k": 1},
                      {"op": "ancilla", "on": 0, "k": 2}, {"op": "ancilla", "on": 1, "k": 1}]},
           {"kind": "bsession", "old": [{"name": "H", "qs": [0]}], "old_n": 6,
            "steps": [{"op": "apply", "qs": [3, 1, 3], "input": "list", "factory": "RX", "rows": [[1], [2]], "numpy_rows": False},
                      {"op": "touch"},
                      {"op": "apply", "qs": [3, 1, 3], "input": "list", "factory": "RX", "rows": [[1], [2]], "numpy_rows": False},
                      {"op": "apply", "qs": [1, 3, 3], "input": "list", "factory": "RX", "rows": [[1], [2]], "numpy_rows": False},
                      {"op": "apply", "qs": [1, 3, 3], "input": "list", "factory": "RX", "rows": [[1], [half]], "numpy_rows": False},
                      {"op": "append_base", "name": "X", "q": 2},
                      {"op": "apply", "qs": [1, 3, 3], "input": "list", "factory": "RY", "rows": [[1], [half]], "numpy_rows": False},
                      {"op": "layer", "n": 3, "factory": "fixed", "fixed": rx, "rows": None, "numpy_rows": False},
                      {"op": "touch"},
                      {"op": "layer", "n": 3, "factory": "fixed", "fixed": rx, "rows": None, "numpy_rows": False},
                      {"op": "layer", "n": 3, "factory": "fixed", "fixed": {"gate": "RX", "angles": [["4/5", "3/5"]]}, "rows": None,
                       "numpy_rows": False},
                      {"op": "layer", "n": 4, "factory": "fixed", "fixed": {"gate": "RX", "angles": [["4/5", "3/5"]]}, "rows": None,
                       "numpy_rows": False}]},
           {"kind": "symb", "n": None, "ci": 1, "k": 1, "build": "ctor", "vals": {"a": rat(Fraction(3, 4)), "b": rat(Fraction(-5, 8)), "c": 2},
            "ops": [{"g": {"sgate": "RY", "exprs": ["a"]}, "qs": [0]}, {"g": {"num": h}, "qs": [1]}, {"g": {"num": s}, "qs": [0]},
                    {"g": {"controlled": {"dagger": {"sgate": "U3", "exprs": ["a+pi/4", "2*a+b", "py:2"]}}, "k": 1}, "qs": [1, 0]},
                    {"g": {"dagger": {"scustom": "cgs", "exprs": ["a*b", "c"]}}, "qs": [1]}]},
           {"kind": "wide", "circ": c5, "ci": 11, "k": 2, "np_ci": False},
           {"kind": "wide", "circ": c5, "ci": 3, "k": 12, "np_ci": True}]
    for ci in range(4):
        out.append({"kind": "controlled", "circ": c1, "ci": ci, "model": True})
    for ci in range(4):
        out.append({"kind": "controlled", "circ": c2, "ci": ci, "model": True})
    return out


def nontrivial(c):
    k = c["kind"]
    if k in ("inverse", "controlled", "ancilla", "wide"):
        ops = c["circ"]["ops"]
        return len(ops) >= 2 and any(spec_depth(o["g"]) >= 1 or spec_parametric(o["g"]) for o in ops)
    if k == "gate":
        return spec_depth(c["g"]) >= 2
    if k == "apply":
        qs = c["qs"]
        return len(set(qs)) != len(qs) or qs != sorted(qs)
    if k == "layer":
        return c["n"] >= 2 and c["rows"] is not None
    if k == "session":
        return sum(1 for s in c["steps"] if s["op"] in ("inverse", "controlled", "ancilla")) >= 3
    if k == "bsession":
        return sum(1 for s in c["steps"] if s["op"] in ("apply", "layer")) >= 3
    if k == "symb":
        return len(c["ops"]) >= 2
    return False


# ----------------------------------------------------------------------------------------------- implementation side
def _factory(name):
    oqc, _, _ = _lib()
    import sympy
    if name.startswith("cg"):
        npar = int(name[2:])
        syms = sympy.symbols("a0:%d" % npar) if npar else ()
        ent = list(syms) + [1, 2, 3, 4]
        m = sympy.Matrix([[ent[0], -ent[1]], [ent[1] * sympy.I, ent[0] + (ent[2] if npar > 2 else 0)]])
        return oqc.CustomGateDefinition("cgf%d" % npar, m, tuple(syms)), "cgf%d" % npar
    return getattr(oqc, name), name


def _old_circuit(c):
    oqc, _, _ = _lib()
    ops = [getattr(oqc, o["name"])(*o["qs"]) for o in c["old"]]
    return oqc.Circuit(ops, n_qubits=c["old_n"])


def _exact(p):
    return rat(Fraction(float(p)))


def _op_canon(op):
    return [op.gate.name, [_exact(p) for p in op.gate.params], [int(q) for q in op.qubit_indices]]


def _gate_key(g):
    return [norm_struct(gate_struct(g)), [_exact(p) for p in g.params]]


def build_circuit(cs, mode=None):
    """the REAL circuit of a spec, put together by the constructor, by += per operation, or by adding two circuits"""
    oqc, _, _ = _lib()
    if mode in (None, "ctor"):
        return circ.build_circuit(cs)
    ops = [circ.build_gate(o["g"])(*o["qs"]) for o in cs["ops"]]
    if mode == "iadd":
        c = oqc.Circuit(n_qubits=cs.get("n"))
        for op in ops:
            c += op
        return c
    h = len(ops) // 2
    return oqc.Circuit(ops[:h], n_qubits=cs.get("n")) + oqc.Circuit(ops[h:])


def _ci(c, ci=None):
    import numpy as np
    ci = c["ci"] if ci is None else ci
    return np.int64(ci) if c.get("np_ci") else ci


class _Snap:
    """observable state of circuits: width, per operation (structure, qubits, matrix); matrices are evaluated once per
    gate OBJECT (gates are immutable values; the object is kept alive so that its id stays its own)"""

    def __init__(self):
        self.mats, self.by_id, self.keep = [], {}, []

    def mat(self, g):
        if id(g) not in self.by_id:
            self.keep.append(g)
            self.by_id[id(g)] = len(self.mats)
            self.mats.append(mjson(matrix_of(g)))
        return self.by_id[id(g)]

    def snap(self, c):
        return {"n": int(c.n_qubits), "ops": [{"g": norm_struct(gate_struct(op.gate)), "qs": [int(q) for q in op.qubit_indices],
                                                "mi": self.mat(op.gate)} for op in c.operations]}

    def same(self, a, b):
        return a["n"] == b["n"] and len(a["ops"]) == len(b["ops"]) and all(
            x["g"] == y["g"] and x["qs"] == y["qs"] and self.mats[x["mi"]] == self.mats[y["mi"]]
            for x, y in zip(a["ops"], b["ops"]))


def _run_session(c):
    oqc, _, gen = _lib()
    circs = [build_circuit(cs, c.get("build") if j == 0 else "ctor") for j, cs in enumerate(c["circs"])]
    sn = _Snap()
    last, recs = None, []
    for st in c["steps"]:
        op = st["op"]
        if op == "touch":                                    # the caller edits the circuit it was handed (not when the call
            if last is not None and not any(last is x for x in circs):   # handed back its own argument: 0 ancillas)
                ops = last.operations
                if st["how"] == "append" and last.n_qubits >= 1:
                    ops.append(oqc.X(0))
                elif st["how"] == "pop" and ops:
                    ops.pop()
                elif st["how"] == "reverse":
                    ops.reverse()
            recs.append({"op": op})
            continue
        if op == "replace":
            tgt = circs[st["on"]]
            old = tgt.operations[st["i"]]
            tgt.operations[st["i"]] = circ.build_gate(st["g"])(*old.qubit_indices)
            recs.append({"op": op})
            continue
        if op == "append":
            circs[st["on"]].operations.append(circ.build_gate(st["g"])(*st["qs"]))
            recs.append({"op": op})
            continue
        src = last if st["on"] == "last" else circs[st["on"]]
        if src is None:
            recs.append({"op": "skip"})
            continue
        before = sn.snap(src)
        rec = {"op": op, "src": before}
        if op == "inverse":
            res = src.inverse()
        elif op == "controlled":
            rec["ci"] = min(st["ci"], int(src.n_qubits))
            res = src.controlled(rec["ci"])
        else:
            rec["k"] = st["k"]
            res = gen.add_ancilla_register(src, st["k"])
        rec["res"] = sn.snap(res)
        rec["intact"] = sn.same(before, sn.snap(src))
        last = res
        recs.append(rec)
    return {"steps": recs, "mats": sn.mats}


def _rows_value(c):
    """the parameter table in the Python types the case asks for (None: no table)"""
    import numpy as np
    import sympy
    rows = c["rows"]
    if rows is None:
        return None
    ptype = c.get("ptype") or ("np" if c.get("numpy_rows") else "float")
    fr = [[unrat(x) for x in r] for r in rows]
    if ptype == "int" and all(x.denominator == 1 for r in fr for x in r):
        return [[int(x) for x in r] for r in fr]
    if ptype == "sympy" and all(Fraction(float(x)) == x for r in fr for x in r):
        return [[sympy.Rational(x.numerator, x.denominator) for x in r] for r in fr]
    prow = [[float(x) for x in r] for r in fr]
    if ptype == "np" and prow and prow[0]:
        return np.array(prow)
    if ptype == "tuple":
        return tuple(tuple(r) for r in prow)
    return prow


def _qubits_value(kind, qs, live):
    import numpy as np
    if kind == "list":
        if live is not None:                                 # the SAME list object across the calls of a session
            obj = live.setdefault("qs", [])
            obj[:] = qs
            return obj
        return list(qs)
    if kind == "range":
        return range(qs[0], qs[0] + len(qs))
    if kind == "ndarray":
        return np.array(qs, dtype=np.int64)
    if kind == "dict":
        return dict.fromkeys(qs).keys()
    return {"tuple": tuple, "set": set, "frozenset": frozenset}[kind](qs)


def _builder_call(k, c, base, live):
    """one call of apply_gate_to_qubits / create_layer_of_gates, observed"""
    _, _, gen = _lib()
    rows = c["rows"]
    if c.get("fixed") is not None:
        gate_factory = circ.build_gate(c["fixed"])
        fname = gate_factory.name
    else:
        fac, fname = _factory(c["factory"])
        gate_factory = fac if rows is not None else (fac() if c["factory"].startswith("cg") else fac)
    prow = _rows_value(c)
    if live is not None and isinstance(prow, list) and isinstance(live.get("rows"), list):
        live["rows"][:] = prow                               # the SAME table object, edited in place between calls
        prow = live["rows"]
    elif live is not None and isinstance(prow, list):
        live["rows"] = prow
    want_gate = _gate_key(gate_factory) if rows is None else None
    with warnings.catch_warnings(record=True) as wlist:
        warnings.simplefilter("always")
        try:
            if k == "layer":
                order = [int(q) for q in set(range(c["n"]))]
                res = gen.create_layer_of_gates(c["n"], gate_factory, prow)
                old_ops, old_struct, intact = [], None, True
            else:
                qs = _qubits_value(c["input"], c["qs"], live)
                order = [int(q) for q in set(qs)]
                old_ops = list(base.operations)
                old_struct = circ_struct(base)
                res = gen.apply_gate_to_qubits(base, qs, gate_factory, prow)
                intact = circ_struct(base) == old_struct and list(base.operations) == old_ops
        except AssertionError:
            return {"err": "err:assert", "order": order, "fname": fname}, None
    ops = list(res.operations)
    new = ops[len(old_ops):]
    return {"n": int(res.n_qubits), "n_old": len(old_ops), "prefix_same": ops[:len(old_ops)] == old_ops,
            "old_qs": [[int(q) for q in o.qubit_indices] for o in old_ops],
            "old_n": old_struct["n"] if old_struct else 0,
            "new": [_op_canon(o) for o in new], "order": order, "fname": fname,
            "warned": any("Duplicate" in str(w.message) for w in wlist), "source_intact": intact,
            "fixed_ok": (all(o.gate == gate_factory and _gate_key(o.gate) == want_gate for o in new)
                         if rows is None else None)}, res


def _run_bsession(c):
    oqc, _, _ = _lib()
    base = _old_circuit(c)
    live, last, recs = {}, None, []
    for st in c["steps"]:
        op = st["op"]
        if op == "touch":
            if last is not None and last.n_qubits >= 1:
                last.operations.append(oqc.X(0))
            recs.append({"op": op})
        elif op == "append_base":
            if st["q"] < base.n_qubits:
                base.operations.append(getattr(oqc, st["name"])(st["q"]))
            recs.append({"op": op})
        else:
            rec, res = _builder_call(op, st, base, live)
            rec["op"] = op
            last = res if res is not None else last
            recs.append(rec)
    return {"steps": recs}


def _sym_value(e):
    import numpy as np
    import sympy
    if e.startswith("py:"):
        v = e[3:]
        return int(v) if v.lstrip("-").isdigit() else float(v)
    if e.startswith("np:"):
        return np.float64(e[3:])
    return sympy.sympify(e, locals={s: sympy.Symbol(s) for s in ("a", "b", "c")})


def build_sym_gate(spec):
    oqc, _, _ = _lib()
    import sympy
    if "num" in spec:
        return circ.build_gate(spec["num"])
    if "sgate" in spec:
        return getattr(oqc, spec["sgate"])(*[_sym_value(e) for e in spec["exprs"]])
    if "scustom" in spec:
        p, q = sympy.symbols("p0 p1")
        m = sympy.Matrix([[sympy.cos(p / 2), -sympy.exp(-sympy.I * q) * sympy.sin(p / 2)],
                          [sympy.exp(sympy.I * q) * sympy.sin(p / 2), sympy.exp(sympy.I * (q + p)) * sympy.cos(p / 2)]])
        return oqc.CustomGateDefinition(spec["scustom"], m, (p, q))(*[_sym_value(e) for e in spec["exprs"]])
    if "controlled" in spec:
        return build_sym_gate(spec["controlled"]).controlled(spec["k"])
    return build_sym_gate(spec["dagger"]).dagger


def _run_symb(c):
    oqc, _, gen = _lib()
    import numpy as np
    import sympy
    ops = [build_sym_gate(o["g"])(*o["qs"]) for o in c["ops"]]
    if c.get("build") == "iadd":
        src = oqc.Circuit(n_qubits=c["n"])
        for op in ops:
            src += op
    else:
        src = oqc.Circuit(ops, n_qubits=c["n"])
    sigma = {sympy.Symbol(s): float(unrat(v)) for s, v in c["vals"].items()}
    ci = min(c["ci"], int(src.n_qubits))
    before = circ_struct(src)
    inv = src.inverse()
    circs = {"src": src, "inv": inv, "inv2": inv.inverse(), "ctl": src.controlled(ci), "ext": gen.add_ancilla_register(src, c["k"])}
    intact = circ_struct(src) == before

    def num(m):
        if isinstance(m, sympy.MatrixBase):
            m = m.subs(sigma).evalf()
        return np.array(circ.impl_matrix_to_numpy(m))

    out = {"ci": ci, "intact": intact, "symbolic": bool(src.free_symbols)}
    seen = {}                                                # per gate OBJECT (kept alive): evaluated once
    for name, cc in circs.items():
        rec = {"n": int(cc.n_qubits), "ops": []}
        for op in cc.operations:
            g = op.gate
            if id(g) not in seen:
                bound = g.bind(sigma) if g.free_symbols else g
                seen[id(g)] = (g, mjson(num(g.matrix)), mjson(num(bound.matrix)), norm_struct(gate_struct(g)))
            _, ms, mb, st = seen[id(g)]
            rec["ops"].append({"qs": [int(q) for q in op.qubit_indices], "subs": ms, "bind": mb, "g": st})
        if cc.n_qubits <= 2 and cc.operations:               # the whole-circuit path: symbolic to_unitary, then the values
            rec["u"] = mjson(num(cc.to_unitary()))
        out[name] = rec
    return out


def _run_wide(c):
    _, _, gen = _lib()
    src = circ.build_circuit(c["circ"])
    sn = _Snap()
    before = sn.snap(src)
    inv = src.inverse()
    out = {"src": before, "inv": sn.snap(inv), "inv2": sn.snap(inv.inverse()), "ctl": sn.snap(src.controlled(_ci(c))),
           "ext": sn.snap(gen.add_ancilla_register(src, c["k"]))}
    out["intact"] = sn.same(before, sn.snap(src))
    out["mats"] = sn.mats
    return out


def run_impl(c):
    oqc, _, gen = _lib()
    import numpy as np
    k = c["kind"]
    if k == "gate":
        g = circ.build_gate(c["g"])
        d, cg = g.dagger, g.controlled(1)
        out = {"g": norm_struct(gate_struct(g)), "nq": int(g.num_qubits), "dagger": norm_struct(gate_struct(d)),
               "controlled": norm_struct(gate_struct(cg)), "nq_dagger": int(d.num_qubits), "nq_controlled": int(cg.num_qubits),
               "m": mjson(matrix_of(g)), "dagger_m": mjson(matrix_of(d)), "controlled_m": mjson(matrix_of(cg))}
        # the other ways to the same gates: dagger twice, controlled∘dagger and dagger∘controlled, two controls at once,
        # and the same request again on the same object
        dd, cd, dc, d2, c1b = d.dagger, cg.dagger, d.controlled(1), g.dagger, g.controlled(1)
        out.update({"dd": norm_struct(gate_struct(dd)), "cd": norm_struct(gate_struct(cd)), "dc": norm_struct(gate_struct(dc)),
                    "again_same": norm_struct(gate_struct(d2)) == out["dagger"] and norm_struct(gate_struct(c1b)) == out["controlled"]})
        if g.num_qubits <= 2:
            c2 = g.controlled(2)
            out.update({"c2": norm_struct(gate_struct(c2)), "nq_c2": int(c2.num_qubits), "dd_m": mjson(matrix_of(dd)),
                        "cd_m": mjson(matrix_of(cd)), "dc_m": mjson(matrix_of(dc)), "c2_m": mjson(matrix_of(c2)),
                        "again_dagger_m": mjson(matrix_of(d2))})
        return out
    if k == "inverse":
        cc = build_circuit(c["circ"], c.get("build"))
        before = circ_struct(cc)
        inv = cc.inverse()
        inv2 = inv.inverse()
        gates_unitary = True
        gms = []
        for op in cc.operations:
            m = matrix_of(op.gate)
            gms.append(m)
            if isinstance(m, str) or not circ.close(m.conj().T @ m, np.eye(m.shape[0]), 1e-9):
                gates_unitary = False
        return {"orig": before, "inv": circ_struct(inv), "inv2": circ_struct(inv2), "u": mjson(unitary_of(cc)),
                "u_inv": mjson(unitary_of(inv)), "u_both": mjson(unitary_of(cc + inv)), "u_both_rev": mjson(unitary_of(inv + cc)),
                "u_inv2": mjson(unitary_of(inv2)), "gates_unitary": gates_unitary, "source_intact": circ_struct(cc) == before,
                "floor": floor_of(gms)}
    if k == "controlled":
        cc = build_circuit(c["circ"], c.get("build"))
        before = circ_struct(cc)
        ctl = cc.controlled(_ci(c))
        gms = [matrix_of(op.gate) for op in cc.operations]
        return {"orig": before, "ctl": circ_struct(ctl), "u_ctl": mjson(unitary_of(ctl)), "gate_ms": [mjson(m) for m in gms],
                "source_intact": circ_struct(cc) == before, "floor": floor_of(gms)}
    if k == "ancilla":
        cc = build_circuit(c["circ"], c.get("build"))
        before = circ_struct(cc)
        ext = gen.add_ancilla_register(cc, c["k"])
        small = ext.n_qubits <= 6
        new_ops = list(ext.operations)[len(cc.operations):]
        return {"orig": before, "ext": circ_struct(ext), "u": mjson(unitary_of(cc)),
                "u_ext": mjson(unitary_of(ext)) if small else None,
                "new_ops": [[[int(q) for q in op.qubit_indices], mjson(matrix_of(op.gate))] for op in new_ops],
                "source_intact": circ_struct(cc) == before, "floor": floor_of([matrix_of(op.gate) for op in cc.operations])}
    if k in ("apply", "layer"):
        rec, _ = _builder_call(k, c, _old_circuit(c) if k == "apply" else None, None)
        return rec
    if k == "session":
        return _run_session(c)
    if k == "bsession":
        return _run_bsession(c)
    if k == "symb":
        return _run_symb(c)
    if k == "wide":
        return _run_wide(c)
    raise AssertionError("unknown kind")


# ----------------------------------------------------------------------------------------------- model side
def _session_specs(c):
    """the circuit spec of the source of every step, following the in-place edits (None: the model is not asked)"""
    specs = [copy.deepcopy(cs) for cs in c["circs"]]
    out = []
    for st in c["steps"]:
        op = st["op"]
        if op == "replace":
            o = specs[st["on"]]["ops"][st["i"]]
            specs[st["on"]]["ops"][st["i"]] = {"g": st["g"], "qs": o["qs"]}
            out.append(None)
        elif op == "append":
            specs[st["on"]]["ops"].append({"g": st["g"], "qs": st["qs"]})
            out.append(None)
        elif op == "touch" or st["on"] == "last":
            out.append(None)
        else:
            out.append(copy.deepcopy(specs[st["on"]]))
    return out


def _builder_request(k, c, rec):
    if k == "apply":
        cj = {"n": rec.get("old_n") or None, "ops": [{"label": {"old": i}, "qs": qs} for i, qs in enumerate(rec.get("old_qs", []))]}
        if "old_qs" not in rec:                               # rejected call: the base as the case describes it
            cj = None
        p = {"circ": cj, "order": rec["order"]}
    else:
        p = {"order": rec["order"]}
    if c["rows"] is not None:
        p["rows"] = c["rows"]
    return (k, p)


def requests(c, out):
    k = c["kind"]
    if "exc" in out:
        return []
    if k == "gate":
        rs = [("gate", {"g": c["g"]}), ("gate", {"g": {"dagger": c["g"]}}), ("gate", {"g": {"controlled": c["g"], "k": 1}})]
        if "c2" in out:
            rs.append(("gate", {"g": {"controlled": c["g"], "k": 2}}))
        return rs
    if k == "inverse":
        p = dict(c["circ"], want_u=bool(c["model"]))
        return [("inverse", p), ("inverse2", dict(c["circ"], want_u=False)),
                ("append_inverse", dict(c["circ"], want_u=bool(c["model"]) and len(c["circ"]["ops"]) <= 2))]
    if k == "controlled":
        return [("controlled", dict(c["circ"], ci=c["ci"], want_u=bool(c["model"])))]
    if k == "ancilla":
        return [("ancilla_u", dict(c["circ"], k=c["k"], want_u=bool(c["model"])))]
    if k == "apply":
        cj = {"n": c["old_n"], "ops": [{"label": {"old": i}, "qs": o["qs"]} for i, o in enumerate(c["old"])]}
        p = {"circ": cj, "order": out["order"]}
        if c["rows"] is not None:
            p["rows"] = c["rows"]
        return [("apply", p)]
    if k == "layer":
        p = {"order": out["order"]}
        if c["rows"] is not None:
            p["rows"] = c["rows"]
        return [("layer", p)]
    if k == "session":
        rs = []
        for st, rec, spec in zip(c["steps"], out["steps"], _session_specs(c)):
            if spec is None or rec["op"] not in ("inverse", "controlled", "ancilla"):
                continue
            want = bool(c["model"]) and rec["res"]["n"] <= 3
            if rec["op"] == "inverse":
                rs.append(("inverse", dict(spec, want_u=want)))
            elif rec["op"] == "controlled":
                rs.append(("controlled", dict(spec, ci=rec["ci"], want_u=want)))
            else:
                rs.append(("ancilla_u", dict(spec, k=rec["k"], want_u=want)))
        return rs
    if k == "bsession":
        rs = []
        olds = len(c["old"])
        for st, rec in zip(c["steps"], out["steps"]):
            if rec["op"] in ("apply", "layer"):
                if rec["op"] == "apply" and "old_qs" not in rec:
                    continue
                rs.append(_builder_request(rec["op"], st, rec))
        return rs
    if k == "wide":
        cs = c["circ"]
        return [("inverse", dict(cs, want_u=False)), ("inverse2", dict(cs, want_u=False)),
                ("controlled", dict(cs, ci=c["ci"], want_u=False)), ("ancilla_u", dict(cs, k=c["k"], want_u=False))]
    return []


def _cmp_u(model_u, impl_u, what, floor=1.0):
    mu = "err" if isinstance(model_u, str) else circ.model_matrix_to_numpy(model_u)
    iu = mnp(impl_u) if not hasattr(impl_u, "shape") else impl_u
    if not close(mu, iu, TOL, floor):
        return f"{what}: model and implementation matrices differ (model {'err' if isinstance(mu, str) else 'matrix'}, " \
               f"impl {'err' if isinstance(iu, str) else 'matrix'})"
    return None


def _snap_struct(s):
    return {"n": s["n"], "ops": [[o["g"], o["qs"]] for o in s["ops"]]}


def _builder_compare(k, c, out, r):
    if isinstance(r, str):
        return None if out.get("err") == r else f"{k}: model {r}, impl {out}"
    if out.get("err"):
        return f"{k}: impl raised {out['err']}, model built {r}"
    want = [[{"old": i}, qs] for i, qs in enumerate(out["old_qs"])] if k == "apply" else []
    if not out["prefix_same"]:
        return "existing operations were not kept as a prefix"
    for op in out["new"]:
        lab = "fixed" if c["rows"] is None else {"row": [rat(unrat(x)) for x in op[1]]}
        want.append([lab, op[2]])
        if op[0] != out["fname"]:
            return f"{k}: new gate {op[0]} is not the factory's gate {out['fname']}"
    got = [[({"row": [_exact(float(unrat(x))) for x in o[0]["row"]]} if isinstance(o[0], dict) and "row" in o[0] else o[0]), o[1]]
           for o in r["ops"]]
    if got != want or int(r["n"]) != out["n"]:
        return f"{k}: impl ops {want} n={out['n']}; model ops {got} n={r['n']}"
    return None


def compare(c, out, resp):
    for r in resp:
        if isinstance(r, dict) and "driver_error" in r:
            return "driver error: " + r["driver_error"]
    k = c["kind"]
    r = resp[0]
    if k == "gate":
        for key in ("g", "dagger", "controlled"):
            if norm_struct(r[key]) != out[key]:
                return f"gate.{key}: structure impl {out[key]} model {norm_struct(r[key])}"
        if int(r["nq"]) != out["nq"]:
            return f"num_qubits impl {out['nq']} model {r['nq']}"
        for what, rr, key in (("dagger.dagger", resp[1], "dagger"), ("dagger.controlled(1)", resp[1], "controlled"),
                              ("controlled(1).dagger", resp[2], "dagger")):
            name = {"dagger.dagger": "dd", "dagger.controlled(1)": "dc", "controlled(1).dagger": "cd"}[what]
            if norm_struct(rr[key]) != out[name]:
                return f"gate.{what}: structure impl {out[name]} model {norm_struct(rr[key])}"
        if "c2" in out and len(resp) > 3 and norm_struct(resp[3]["g"]) != out["c2"]:
            return f"gate.controlled(2): structure impl {out['c2']} model {norm_struct(resp[3]['g'])}"
        if c["model"]:
            fl = floor_of([mnp(out["m"])])
            for key in ("m", "dagger_m", "controlled_m"):
                msg = _cmp_u(r[key], out[key], "gate." + key, fl if key != "controlled_m" else 1.0)
                if msg:
                    return msg
    elif k == "inverse":
        if model_struct(r) != out["inv"]:
            return f"Circuit.inverse: structure impl {out['inv']} model {model_struct(r)}"
        if model_struct(resp[1]) != out["inv2"]:
            return f"inverse twice: structure impl {out['inv2']} model {model_struct(resp[1])}"
        if c["model"]:
            msg = _cmp_u(r["u"], out["u_inv"], "to_unitary(inverse)", out.get("floor", 1.0))
            if msg is None and "u" in resp[2]:
                msg = _cmp_u(resp[2]["u"], out["u_both"], "to_unitary(c + inverse)")
            return msg
    elif k == "controlled":
        if model_struct(r) != out["ctl"]:
            return f"Circuit.controlled({c['ci']}): structure impl {out['ctl']} model {model_struct(r)}"
        if c["model"]:
            return _cmp_u(r["u"], out["u_ctl"], "to_unitary(controlled)")
    elif k == "ancilla":
        if model_struct(r) != out["ext"]:
            return f"add_ancilla_register: structure impl {out['ext']} model {model_struct(r)}"
        if c["model"] and out.get("u_ext") is not None:
            return _cmp_u(r["u"], out["u_ext"], "to_unitary(extended)", out.get("floor", 1.0))
    elif k in ("apply", "layer"):
        return _builder_compare(k, c, out, r)
    elif k == "session":
        it = iter(resp)
        for i, (rec, spec) in enumerate(zip(out["steps"], _session_specs(c))):
            if spec is None or rec["op"] not in ("inverse", "controlled", "ancilla"):
                continue
            r = next(it)
            if model_struct(r) != _snap_struct(rec["res"]):
                return f"session step {i} ({rec['op']}): structure impl {_snap_struct(rec['res'])} model {model_struct(r)}"
            if "u" in r:
                mats = [mnp(m) for m in out["mats"]]
                msg = _cmp_u(r["u"], _action(rec["res"], mats), f"session step {i} ({rec['op']})",
                             floor_of([mats[o["mi"]] for o in rec["src"]["ops"]]))
                if msg:
                    return msg
    elif k == "bsession":
        it = iter(resp)
        for i, (st, rec) in enumerate(zip(c["steps"], out["steps"])):
            if rec["op"] not in ("apply", "layer") or (rec["op"] == "apply" and "old_qs" not in rec):
                continue
            msg = _builder_compare(rec["op"], st, rec, next(it))
            if msg:
                return f"builder session step {i}: {msg}"
    elif k == "wide":
        for name, rr in zip(("inv", "inv2", "ctl", "ext"), resp):
            if model_struct(rr) != _snap_struct(out[name]):
                return f"wide {name}: structure impl {_snap_struct(out[name])} model {model_struct(rr)}"
    return None


# ----------------------------------------------------------------------------------------------- oracle
def _action(snap, mats, relabel=None, width=None, key="mi"):
    """product of the operations of a snapshot in program order, each embedded by bit manipulation;
    relabel: qubit -> position in a smaller register (order preserving); 'err' for an ill-formed circuit"""
    import numpy as np
    n = snap["n"] if width is None else width
    u = np.eye(2 ** n, dtype=complex)
    for op in snap["ops"]:
        m = mats[op[key]] if key == "mi" else mnp(op[key])
        qs = [relabel[q] for q in op["qs"]] if relabel is not None else list(op["qs"])
        if isinstance(m, str) or len(set(qs)) != len(qs) or any(q < 0 or q >= n for q in qs) or m.shape != (2 ** len(qs),) * 2:
            return "err"
        u = circ.embed_reference(m, qs, n) @ u
    return u


def _touched(*snaps):
    return {q for s in snaps for op in s["ops"] for q in op["qs"]}


def _check_inverse(u, ui, floor):
    if isinstance(ui, str) or not close(ui, u.conj().T, OTOL, floor):
        return ("inverse-not-adjoint", "to_unitary(inverse) is not the conjugate transpose of to_unitary(circuit)")
    return None


def _check_controlled_blocks(uc, u0, n1, ci, floor):
    """uc on n1 qubits = identity where qubit ci is 0, u0 on the other qubits (in order) where it is 1"""
    import numpy as np
    if isinstance(uc, str):
        return ("controlled-raises", "to_unitary of the controlled circuit raised for a well-formed circuit")
    if uc.shape != (2 ** n1,) * 2 or u0.shape != (2 ** (n1 - 1),) * 2:
        return ("controlled-action", f"controlled({ci}): a {uc.shape} matrix for a circuit of {u0.shape}")
    sh = n1 - 1 - ci
    xs = np.arange(2 ** n1)
    bit = (xs >> sh) & 1
    rest = ((xs >> (sh + 1)) << sh) | (xs & ((1 << sh) - 1))
    i1 = xs[bit == 1][np.argsort(rest[bit == 1])]
    i0 = xs[bit == 0][np.argsort(rest[bit == 0])]
    ok = (close(uc[np.ix_(i1, i1)], u0, OTOL, floor) and close(uc[np.ix_(i0, i0)], np.eye(len(i0)), OTOL)
          and _amax(uc[np.ix_(i0, i1)]) <= OTOL * max(1.0, _amax(u0)) and _amax(uc[np.ix_(i1, i0)]) <= OTOL * max(1.0, _amax(u0)))
    if not ok:
        return ("controlled-action", f"controlled({ci}) is not identity-on-0 / circuit-on-1 with indices >= {ci} shifted")
    return None


def _check_controlled(src_ops, res_n, ci, uc_of, u0_of, floor):
    """src_ops/res_ops: lists of qubit lists; uc_of(n1), u0_of(n0): the matrices at the given widths"""
    if not src_ops:
        return None
    n1 = res_n
    n0 = n1 - 1
    if ci >= n1 or any(q >= n0 for qs in src_ops for q in qs):
        return ("controlled-width", f"controlled({ci}) circuit of width {n1} cannot hold the control and the shifted circuit")
    u0 = u0_of(n0)
    if isinstance(u0, str):
        return None
    return _check_controlled_blocks(uc_of(n1), u0, n1, ci, floor)


def _ancilla_identity(new_ops, n_src):
    """the appended operations act as the identity: True / False / None (cannot tell without the full matrix)"""
    import numpy as np
    per = {}
    for qs, m in new_ops:
        m = mnp(m)
        if isinstance(m, str) or len(qs) != 1 or qs[0] < n_src or m.shape != (2, 2):
            return None
        per[qs[0]] = m @ per.get(qs[0], np.eye(2, dtype=complex))
    phase = 1.0 + 0j
    for m in per.values():
        if not close(m, m[0, 0] * np.eye(2), OTOL):
            return False
        phase *= m[0, 0]
    return abs(phase - 1) <= OTOL


def _check_ancilla(o_n, o_ops, e_n, e_ops, kk, u, ue, new_ops, floor):
    """o_ops / e_ops comparable operation lists; u, ue matrices or None where not materialised"""
    import numpy as np
    if e_n != o_n + kk:
        return ("ancilla-width", f"{o_n} qubits + {kk} ancillas gave {e_n} qubits")
    if e_ops[:len(o_ops)] != o_ops:
        return ("ancilla-prefix", "existing operations were changed")
    if isinstance(u, str):
        return None
    ident = _ancilla_identity(new_ops, o_n) if len(e_ops) == len(o_ops) + len(new_ops) else None
    if ident is False:
        return ("ancilla-action", "the operations added for the ancillas do not act as the identity")
    if ue is not None and u is not None:
        if isinstance(ue, str) or not close(ue, np.kron(u, np.eye(2 ** kk)), OTOL, floor):
            return ("ancilla-action", "extended circuit does not act as U ⊗ 1")
    return None


def _block_diag_check(cm, m, lead):
    """cm = diag(1_lead, m): the block compared at m's own scale"""
    import numpy as np
    d = m.shape[0]
    if isinstance(cm, str) or cm.shape != (lead + d, lead + d):
        return False
    return (close(cm[lead:, lead:], m, OTOL, 0.0) and close(cm[:lead, :lead], np.eye(lead), OTOL)
            and _amax(cm[:lead, lead:]) <= OTOL and _amax(cm[lead:, :lead]) <= OTOL)


def _builder_oracle(k, c, out):
    qs = list(range(c["n"])) if k == "layer" else list(c["qs"])
    distinct = sorted(set(qs))
    rows = c["rows"]
    if rows is not None and len(rows) != len(distinct):
        return None if out.get("err") == "err:assert" else ("builder-accepts-row-mismatch", f"{len(rows)} rows for {len(distinct)} distinct qubits accepted")
    if out.get("err"):
        return ("builder-raises", f"valid request rejected: {out['err']}")
    if not out["prefix_same"] or not out.get("source_intact", True):
        return ("builder-existing-ops", "existing operations not left in place")
    new = out["new"]
    if sorted(q for _, _, q3 in new for q in q3) != distinct or any(len(o[2]) != 1 for o in new):
        return ("builder-one-per-qubit", f"new gates on {[o[2] for o in new]}, distinct listed qubits {distinct}")
    if any(o[0] != out["fname"] for o in new):
        return ("builder-gate", "a new gate is not the requested gate")
    key = lambda x: str(Fraction(float(unrat(x))))           # the value that was actually passed (a double)
    if rows is not None:
        want = sorted([key(x) for x in r] for r in rows)
        got = sorted([str(unrat(x)) for x in o[1]] for o in new)
        if want != got:
            return ("builder-rows", "parameter rows not used exactly once each")
    elif out.get("fixed_ok") is False:
        return ("builder-gate", "a new gate differs from the given gate")
    if k == "layer":
        for i, o in enumerate(new):
            if o[2] != [i] or (rows is not None and [str(unrat(x)) for x in o[1]] != [key(x) for x in rows[i]]):
                return ("layer-row-i-on-qubit-i", f"position {i}: gate on {o[2]} with parameters {o[1]}")
        if out["n"] != c["n"]:
            return ("layer-width", f"layer over {c['n']} qubits is {out['n']} wide")
    elif out["n"] != max([out.get("old_n", 0)] + [q + 1 for q in distinct]):
        return ("builder-width", f"circuit of {out.get('old_n', 0)} qubits with gates on {distinct} is {out['n']} wide")
    return None


def _circuit_sentences(src, inv, inv2, ctl, ext, ci, kk, act, mkey, floor, tag=""):
    """the circuit sentences on five observed circuits (snapshots: width + operations with their qubits);
    act(snapshot, relabel, width) -> matrix of the snapshot's operations, mkey(op) -> JSON matrix of one operation.
    Registers wider than WIDE are judged on the touched qubits (order-preserving relabelling)."""
    import numpy as np
    # ---- inverse, inverse twice, circuit + inverse
    wide = src["n"] > WIDE
    S = sorted(_touched(src, inv, inv2))
    if not wide or len(S) <= WIDE:
        rel = {q: i for i, q in enumerate(S)} if wide else None
        w = len(S) if wide else src["n"]
        u = act(src, rel, w)
        if not isinstance(u, str):
            if inv["n"] != src["n"]:
                return (tag + "inverse-not-adjoint", f"the inverse of a {src['n']}-qubit circuit has {inv['n']} qubits")
            ui = act(inv, rel, w)
            res = _check_inverse(u, ui, floor)
            if res:
                return (tag + res[0], res[1])
            u2 = act(inv2, rel, w)
            if inv2["n"] != src["n"] or isinstance(u2, str) or not close(u2, u, OTOL, floor):
                return (tag + "inverse-twice", "inverting twice changed the action")
            ms = [mnp(mkey(op)) for op in src["ops"]]
            if all(not isinstance(m, str) and circ.close(m.conj().T @ m, np.eye(m.shape[0]), 1e-9) for m in ms):
                eye = np.eye(u.shape[0])
                if not close(ui @ u, eye, 1e-7) or not close(u @ ui, eye, 1e-7):
                    return (tag + "inverse-append-not-identity", "circuit + inverse does not act as the identity")
    # ---- controlled
    if src["ops"]:
        n1 = ctl["n"]
        n0 = n1 - 1
        if ci >= n1 or any(q >= n0 for op in src["ops"] for q in op["qs"]):
            return (tag + "controlled-width", f"controlled({ci}) circuit of width {n1} cannot hold the control and the shifted circuit")
        res = None
        if n1 <= WIDE:
            u0 = act(src, None, n0)
            if not isinstance(u0, str):
                res = _check_controlled_blocks(act(ctl, None, n1), u0, n1, ci, floor)
        else:
            shift = lambda q: q + 1 if q >= ci else q
            S = sorted(_touched(ctl) | {ci} | {shift(q) for q in _touched(src)})
            if len(S) <= WIDE:
                rel = {q: i for i, q in enumerate(S)}
                rc = rel[ci]
                rel0 = {q: rel[shift(q)] - (1 if rel[shift(q)] > rc else 0) for q in _touched(src)}
                u0 = act(src, rel0, len(S) - 1)
                if not isinstance(u0, str):
                    res = _check_controlled_blocks(act(ctl, rel, len(S)), u0, len(S), rc, floor)
        if res:
            return (tag + res[0], res[1])
    # ---- ancillas
    cmpops = lambda s: [[o.get("g"), o["qs"], mkey(o)] for o in s["ops"]]
    new_ops = [[o["qs"], mkey(o)] for o in ext["ops"][len(src["ops"]):]]
    u = ue = None
    if ext["n"] <= WIDE:
        u, ue = act(src, None, src["n"]), act(ext, None, ext["n"])
    else:
        u = "err" if any(isinstance(mnp(mkey(o)), str) for o in src["ops"]) else None
        S = sorted(_touched(src, ext))
        if u is None and len(S) <= WIDE and ext["n"] == src["n"] + kk:
            rel = {q: i for i, q in enumerate(S)}
            lo = len([q for q in S if q < src["n"]])
            us, ues = act(src, rel, lo), act(ext, rel, len(S))
            if not isinstance(us, str) and (isinstance(ues, str) or not close(ues, np.kron(us, np.eye(2 ** (len(S) - lo))), OTOL, floor)):
                return (tag + "ancilla-action", "extended circuit does not act as U ⊗ 1 on the touched qubits")
    res = _check_ancilla(src["n"], cmpops(src), ext["n"], cmpops(ext), kk, u, ue, new_ops, floor)
    if res:
        return (tag + res[0], res[1])
    return None


def oracle(c, out):
    """the property's own sentences on the implementation's outputs (numpy / plain Python only)"""
    import numpy as np
    k = c["kind"]
    if "exc" in out:
        return ("impl-raised:" + k, f"implementation raised {out['exc']}: {out.get('msg')}")
    if k == "gate":
        m, dm, cm = mnp(out["m"]), mnp(out["dagger_m"]), mnp(out["controlled_m"])
        if isinstance(m, str):
            return None
        frac = spec_has_fractional(c["g"])
        if frac:
            return None
        if isinstance(dm, str) or not close(dm, m.conj().T, OTOL, 0.0):
            return ("gate-dagger-not-adjoint", "the dagger's matrix is not the conjugate transpose of the gate's matrix")
        d = m.shape[0]
        if not _block_diag_check(cm, m, d):
            return ("gate-controlled-not-block", "controlled(1).matrix is not diag(1, M)")
        if out.get("again_same") is False:
            return ("gate-second-request-differs", "asking the same gate for its dagger / controlled version again gave another gate")
        if "dd_m" in out:
            if not close(mnp(out["again_dagger_m"]), m.conj().T, OTOL, 0.0):
                return ("gate-dagger-not-adjoint", "the dagger handed out the second time is not the conjugate transpose")
            if not close(mnp(out["dd_m"]), m, OTOL, 0.0):
                return ("gate-dagger-twice", "dagger of the dagger does not have the gate's matrix")
            for key, what in (("cd_m", "controlled(1).dagger"), ("dc_m", "dagger.controlled(1)")):
                if not _block_diag_check(mnp(out[key]), m.conj().T, d):
                    return ("gate-controlled-dagger-order", f"{what}.matrix is not diag(1, M^H)")
            if out["nq_c2"] != out["nq"] + 2 or not _block_diag_check(mnp(out["c2_m"]), m, 3 * d):
                return ("gate-controlled-not-block", "controlled(2).matrix is not diag(1, 1, 1, M)")
        return None
    if k == "inverse":
        if not out.get("source_intact", True):
            return ("inverse-mutates", "Circuit.inverse modified its circuit")
        if any(spec_has_fractional(op["g"]) for op in c["circ"]["ops"]):
            return None
        u, ui = mnp(out["u"]), mnp(out["u_inv"])
        if isinstance(u, str):
            return None  # ill-formed or empty circuit: no action to speak of
        fl = out.get("floor", 1.0)
        res = _check_inverse(u, ui, fl)
        if res:
            return res
        u2 = mnp(out["u_inv2"])
        if isinstance(u2, str) or not close(u2, u, OTOL, fl):
            return ("inverse-twice", "inverting twice changed the action")
        if out["gates_unitary"]:
            eye = np.eye(u.shape[0])
            for key in ("u_both", "u_both_rev"):
                ub = mnp(out[key])
                if isinstance(ub, str) or not close(ub, eye, 1e-7):
                    return ("inverse-append-not-identity", "circuit + inverse does not act as the identity")
        return None
    if k == "controlled":
        if not out.get("source_intact", True):
            return ("controlled-mutates", "Circuit.controlled modified its circuit")
        o, t, ci = out["orig"], out["ctl"], c["ci"]
        if any(spec_has_fractional(op["g"]) for op in c["circ"]["ops"]) or c.get("malformed"):
            return None
        ms = [mnp(m) for m in out["gate_ms"]]
        if any(isinstance(m, str) for m in ms):
            return None
        snap = {"n": o["n"], "ops": [{"qs": qs, "mi": i} for i, (_, qs) in enumerate(o["ops"])]}
        return _check_controlled([qs for _, qs in o["ops"]], t["n"], ci, lambda n1: mnp(out["u_ctl"]),
                                 lambda n0: _action(snap, ms, None, n0), out.get("floor", 1.0))
    if k == "ancilla":
        if not out.get("source_intact", True):
            return ("ancilla-mutates", "add_ancilla_register modified its circuit")
        o, e, kk = out["orig"], out["ext"], c["k"]
        if c.get("malformed"):
            if e["n"] != o["n"] + kk:
                return ("ancilla-width", f"{o['n']} qubits + {kk} ancillas gave {e['n']} qubits")
            return None
        ue = out.get("u_ext")
        return _check_ancilla(o["n"], o["ops"], e["n"], e["ops"], kk, mnp(out["u"]), None if ue is None else mnp(ue),
                              out.get("new_ops", []) if "new_ops" in out else [], out.get("floor", 1.0))
    if k in ("apply", "layer"):
        return _builder_oracle(k, c, out)
    if k == "bsession":
        for i, (st, rec) in enumerate(zip(c["steps"], out["steps"])):
            if rec["op"] in ("apply", "layer"):
                res = _builder_oracle(rec["op"], st, rec)
                if res:
                    return (res[0], f"call {i} of a session on one base circuit ({st.get('how', 'first call')}): {res[1]}")
        return None
    if k == "session":
        mats = [mnp(m) for m in out["mats"]]
        act = lambda s, rel, w: _action(s, mats, rel, w)
        for i, rec in enumerate(out["steps"]):
            op = rec["op"]
            if op not in ("inverse", "controlled", "ancilla"):
                continue
            where = f"call {i} ({op}) of a session on long-lived circuits: "
            if not rec["intact"]:
                return (op + "-mutates", where + "the call modified its circuit")
            src, res = rec["src"], rec["res"]
            fl = floor_of([mats[o["mi"]] for o in src["ops"]])
            u = act(src, None, None)
            r = None
            if op == "inverse":
                if not isinstance(u, str):
                    r = _check_inverse(u, act(res, None, None) if res["n"] == src["n"] else "err", fl)
            elif op == "controlled":
                r = _check_controlled([o["qs"] for o in src["ops"]], res["n"], rec["ci"], lambda n1: act(res, None, None),
                                      lambda n0: act(src, None, n0), fl)
            else:
                cmpops = lambda s: [[o["g"], o["qs"], out["mats"][o["mi"]]] for o in s["ops"]]
                new_ops = [[o["qs"], out["mats"][o["mi"]]] for o in res["ops"][len(src["ops"]):]]
                r = _check_ancilla(src["n"], cmpops(src), res["n"], cmpops(res), rec["k"], u,
                                   act(res, None, None) if res["n"] <= WIDE else None, new_ops, fl)
            if r:
                return (r[0], where + r[1])
        return None
    if k == "wide":
        if not out["intact"]:
            return ("inverse-mutates", "a circuit-level construction modified its circuit")
        mats = [mnp(m) for m in out["mats"]]
        act = lambda s, rel, w: _action(s, mats, rel, w)
        fl = floor_of([mats[o["mi"]] for o in out["src"]["ops"]])
        return _circuit_sentences(out["src"], out["inv"], out["inv2"], out["ctl"], out["ext"], c["ci"], c["k"], act,
                                  lambda o: out["mats"][o["mi"]], fl)
    if k == "symb":
        if not out["intact"]:
            return ("inverse-mutates", "a circuit-level construction modified its circuit")
        for path in ("subs", "bind", "u"):
            if path == "u":
                # whole-circuit path: the matrices of to_unitary() where they were materialised
                names = ("src", "inv", "inv2", "ctl", "ext")
                us = {nm: (mnp(out[nm]["u"]) if "u" in out[nm] else None) for nm in names}
                u = us["src"]
                if u is None:
                    continue
                fl = floor_of([mnp(o["subs"]) for o in out["src"]["ops"]])
                if us["inv"] is not None:
                    r = _check_inverse(u, us["inv"], fl)
                    if r:
                        return ("sym-" + r[0], "to_unitary() of a symbolic circuit at real values: " + r[1])
                if us["inv2"] is not None and not close(us["inv2"], u, OTOL, fl):
                    return ("sym-inverse-twice", "to_unitary() of a symbolic circuit at real values: inverting twice changed the action")
                if us["ctl"] is not None and out["ctl"]["n"] - 1 == out["src"]["n"] and out["ci"] < out["ctl"]["n"]:
                    r = _check_controlled_blocks(us["ctl"], u, out["ctl"]["n"], out["ci"], fl)
                    if r:
                        return ("sym-" + r[0], "to_unitary() of a symbolic circuit at real values: " + r[1])
                if us["ext"] is not None and out["ext"]["n"] == out["src"]["n"] + c["k"] and \
                        not close(us["ext"], np.kron(u, np.eye(2 ** c["k"])), OTOL, fl):
                    return ("sym-ancilla-action", "to_unitary() of a symbolic circuit at real values: extended circuit is not U ⊗ 1")
                continue
            act = lambda s, rel, w, path=path: _action(s, None, rel, w, key=path)
            fl = floor_of([mnp(o[path]) for o in out["src"]["ops"]])
            r = _circuit_sentences(out["src"], out["inv"], out["inv2"], out["ctl"], out["ext"], out["ci"], c["k"], act,
                                   lambda o, path=path: o[path], fl, "sym-")
            if r:
                return (r[0], f"symbolic circuit evaluated at real values through {'gate.matrix.subs' if path == 'subs' else 'gate.bind'}: {r[1]}")
        return None
    return None


def distribution(cases, outs):
    import collections
    depth = collections.Counter()
    widths = collections.Counter()
    ctl_pos = collections.Counter()
    kinds_under = collections.Counter()
    session_steps = collections.Counter()
    siblings = collections.Counter()
    inputs = collections.Counter()
    rejected = 0
    modelled = 0
    maxlayer = 0
    dup = 0
    for c, o in zip(cases, outs):
        k = c["kind"]
        if k == "gate":
            depth[spec_depth(c["g"])] += 1
        if k in ("inverse", "controlled", "ancilla", "wide"):
            widths[c["circ"]["n"] or "by-ops"] += 1
            for op in c["circ"]["ops"]:
                for key in ("controlled", "dagger", "power", "exp", "custom"):
                    if spec_has(op["g"], key):
                        kinds_under[key] += 1
        if k == "controlled":
            ctl_pos[c["ci"]] += 1
        if c.get("model"):
            modelled += 1
        if isinstance(o, dict) and (o.get("err") or any(isinstance(v, str) and v == "err" for v in o.values())):
            rejected += 1
        if k == "layer":
            maxlayer = max(maxlayer, c["n"])
        if k == "apply":
            inputs[c["input"]] += 1
            if len(set(c["qs"])) != len(c["qs"]):
                dup += 1
        if k == "session":
            siblings[c.get("sibling", "?")] += 1
            for s in c["steps"]:
                session_steps[s["op"] + ("@last" if s.get("on") == "last" else "")] += 1
        if k == "bsession":
            for s in c["steps"]:
                session_steps["builder:" + s.get("how", s["op"])] += 1
    return {"gate_chain_depths": dict(depth), "declared_widths": {str(k): v for k, v in widths.items()},
            "control_positions": dict(ctl_pos), "wrappers_in_circuits": dict(kinds_under),
            "cases_with_matrix_comparison": modelled, "cases_with_a_rejection": rejected,
            "largest_layer": maxlayer, "apply_with_duplicates": dup, "apply_input_types": dict(inputs),
            "session_steps": dict(session_steps), "session_siblings": dict(siblings)}
