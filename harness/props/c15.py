"""C15 — estimation returns one correctly weighted result per task, in task order."""
import cmath
from fractions import Fraction

from .. import common
from ..common import rat, unrat

PROP = "C15"
RULE = ("seeded random task lists per entry point (averaging / exact / split / nonmeasured / bind): interleavings of "
        "constant-operator, zero-shot and measurable tasks, Ising operators with dyadic (sometimes complex, zero, tiny "
        "< 1e-8 or 2^30-spread) coefficients given as float / numpy / int, circuits of X/Y/Z/S/T layers (basis states) "
        "and H layers (sampled), shots 1-50 (1-3 favoured); SIBLING lists grown from one task by changing exactly one "
        "component (a coefficient by 2^-30, one qubit, one gate, the shot count, the width, term order, term vs sum) with "
        "equal descriptions optionally built as ONE object; lists of 65-140 tasks; registers of 9-12, 13-22 and 60-70 "
        "qubits (stub runner); basis states through CNOT/SWAP/CZ and exact values of entangled / rotated states "
        "(oracle only); parameter-scan pipelines bind -> estimate -> exact on one simulator (oracle only); sessions of "
        "2-4 calls on the same simulator and objects differing in one component; calls repeated after the caller "
        "overwrote the first results; HISTORIES on ONE runner object (SymbolicSimulator, a numpy-backed subclass of "
        "BaseWavefunctionSimulator, a BaseCircuitRunner subclass) and one pool of task / circuit / operator objects: "
        "estimation calls (averaging, exact, split, non-measured, bind, the bind -> estimate -> exact pipeline, the "
        "simulator's own get_exact_expectation_values) interleaved with every OTHER public route of that object "
        "(get_wavefunction without / with |0..0> written out / another basis state / the uniform superposition as "
        "initial state, positional or by keyword; run_and_measure; run_batch_and_measure with a scalar / list / tuple, "
        "also exactly the submission the estimation makes; get_measurement_outcome_distribution sampled and exact; the "
        "counters) on the same and on equal-but-distinct circuit objects, the caller editing what it got back "
        "(Wavefunction by item assignment, Measurements.bitstrings / add_counts, distribution_dict, the returned "
        "lists, its own initial-state array and shot list, the ExpectationValues of earlier answers), editing an "
        "operator's coefficient or a circuit's operation list in place, or replacing a task by a sibling - one "
        "systematic minimal history per (runner, route variant, estimation entry point) plus random ones of 2-15 "
        "steps; every estimation answer is judged on the task's content at that moment; plus a malformed stream (None / negative shots, non-Ising measured operator, "
        "operator wider than the circuit, unbound symbols); non-trivial: an averaging or split list containing all "
        "three task kinds (or >=3 tasks with shared objects / a wide register), an exact list with >=2 tasks one of "
        "which has an X/Y term, a bind or pipeline list with >=2 tasks and pairwise different maps (or a single "
        "broadcast map), a nonmeasured list with both a constant and a zero-shot task, a session of >=2 calls one of "
        "them on >=2 tasks, a history in which an estimation call on >=1 task follows another route of the runner or an "
        "in-place edit; distinct = distinct canonical JSON of the case")
TRUSTED = [
    "the circuit runner returns one Measurements object per submitted circuit, in order (CircuitRunner protocol): "
    "hypothesis `hlaw` of result_at_index / measured_value_weighted, field RunnerLaw.onePer",
    "rng.choice(size=n, p=probs) never returns an outcome of probability 0 (RunnerLaw.support): a circuit preparing the "
    "basis state b is measured as copies of b only (hypothesis of basis_state_value / basis_state_exact; checked on "
    "every recorded batch of this run; runner_law_satisfiable proves the law for the runner the driver executes)",
    "the wavefunction simulator (get_wavefunction) and get_sparse_operator are parameters of exact_eq_quadratic_form "
    "(their correctness is the subject of C01/C04/C09); the driver instantiates them with product states of one-qubit "
    "gates and the Kronecker definition of Pauli strings (opMatrix, about which exact_basis_ising is proved), compared "
    "with the real code at 1e-9",
    "Circuit.bind is a parameter of bind_tasks_pointwise / bind_tasks_broadcast (its meaning is C06); the driver instantiates it with "
    "substitution into linear gate parameters",
    "float arithmetic is exact on the dyadic coefficients used with basis states (all sums stay below 50 significant "
    "bits); sampled means are compared at 1e-9",
    "histories: what the runner's OTHER routes (get_wavefunction, run_and_measure, run_batch_and_measure, "
    "get_measurement_outcome_distribution, counters) return or raise is not judged here (C04 / C12 / C14); only the "
    "estimation calls and the simulator's own get_exact_expectation_values are.  The model answers every estimation "
    "call of a history from the task descriptions of that step alone (it has no runner state to remember), so a "
    "disagreement there is exactly a dependence of the implementation on the history",
    "oracle-only case kinds (no model answer): circuits with CNOT/CZ/SWAP or numeric rotations, and the pipeline "
    "bind -> estimate -> exact with rotations by integer multiples of pi (the wrong outcome has probability < 1e-30 "
    "and is taken never to be sampled)",
]
ASSUMPTIONS = [
    "coefficients are Gaussian rationals; measured values keep the real part only (expectation_values_to_real), "
    "so 'coefficient times eigenvalue' is stated for real coefficients and 'Re(coefficient) times eigenvalue' in general",
    "only ExpectationValues.values are modelled (correlations / covariances are C10)",
    "circuits have at least one qubit",
    "histories: the caller edits task objects in place only through public attributes and only in ways that keep the "
    "task well-formed and of the same kind: `term.coefficient = <real number>` on a term of the task's operator, "
    "`circuit.operations.append(X|Y|Z on an existing qubit)` / `.pop()` (the declared width is explicit and stays); "
    "if such an edit does not take (the attribute hands out a copy) nothing after it is judged.  Objects the caller "
    "got back from the runner's other routes are edited freely (they are the caller's); initial states handed to "
    "get_wavefunction are normalised basis states or the uniform superposition of the circuit's width",
]

TOL = Fraction(1, 10 ** 9)
FIXED = ("X", "Y", "Z", "H", "S", "T", "I")
PARAM = ("RX", "RY", "RZ", "PHASE")
TWOQ = ("CNOT", "CZ", "SWAP")  # oracle-only circuits (the model's circuits are products of one-qubit gates)
SCRIBBLE = 77.25  # written over every array of a returned result before the same call is made again


# ----------------------------------------------------------------------------------------------- building
def _lib():
    common.use_repo()
    import sympy
    from orquestra.quantum import circuits as C
    from orquestra.quantum.api.estimation import EstimationTask
    from orquestra.quantum.estimation import _estimation as E
    from orquestra.quantum.operators import PauliSum, PauliTerm
    from orquestra.quantum.runners.symbolic_simulator import SymbolicSimulator
    return sympy, C, EstimationTask, E, PauliSum, PauliTerm, SymbolicSimulator


def _coeff(c, num="py"):
    """the coefficient as the number type asked for: Python float/complex, numpy scalar, or int when integral"""
    re, im = unrat(c[0]), unrat(c[1])
    if num == "np":
        import numpy as np
        return np.float64(float(re)) if im == 0 else np.complex128(complex(float(re), float(im)))
    if num == "int" and im == 0 and re.denominator == 1:
        return int(re)
    return float(re) if im == 0 else complex(float(re), float(im))


def _shots(t):
    n = t["shots"]
    if t.get("num") == "np" and isinstance(n, int):
        import numpy as np
        return np.int64(n)
    return n


def _build_term(term, num="py", build=None):
    """one PauliTerm; `build` picks the constructor: dict in the listed (insertion) order, the string form with the
    factors in the listed order ("2.0*Z8*X1"), or PauliTerm.from_iterable"""
    PauliTerm = _lib()[5]
    coeff = _coeff(term["c"], num)
    if build == "str":
        z = complex(coeff)
        head = repr(float(z.real)) if z.imag == 0 else "(" + repr(z).strip("()") + ")"
        return PauliTerm("*".join([head] + [f"{p}{int(q)}" for q, p in term["ops"]] + ([] if term["ops"] else ["I0"])))
    if build == "iter":
        return PauliTerm.from_iterable([(p, int(q)) for q, p in term["ops"]], coeff)
    return PauliTerm({int(q): p for q, p in term["ops"]}, coeff)


def _build_op(t):
    _, _, _, _, PauliSum, PauliTerm, _ = _lib()
    terms = [_build_term(term, t.get("num", "py"), t.get("build")) for term in t["op"]]
    if t.get("term"):
        assert len(terms) == 1
        return terms[0]
    return PauliSum(terms)


def _build_param(p, pi=False):
    sympy = _lib()[0]
    unit = cmath.pi if pi else 1.0
    if not p["terms"]:
        return float(unrat(p["const"])) * unit
    e = sympy.Float(float(unrat(p["const"])) * unit) if unrat(p["const"]) != 0 else sympy.Integer(0)
    for s, a in p["terms"]:
        a = unrat(a)
        e = e + (int(a) if pi and a.denominator == 1 else float(a)) * sympy.Symbol(s)
    return e


def _build_circuit(c, pi=False):
    C = _lib()[1]
    ops = []
    for g in c["gates"]:
        ctor = getattr(C, g[0])
        qs = g[1] if isinstance(g[1], list) else [g[1]]
        if len(g) > 2 and g[2] is not None:
            ops.append(ctor(_build_param(g[2], pi))(*qs))
        else:
            ops.append(ctor(*qs))
    return C.Circuit(ops, n_qubits=c["n"])


class _Pool:
    """builds the library objects of a case; `share` says which equal descriptions become ONE object:
    'circuits' / 'ops' / 'both' / 'tasks' (= both + equal tasks are one EstimationTask); the same dict object is
    always built once"""

    def __init__(self, share=None, pi=False):
        self.share, self.pi = share or "none", pi
        self.circ, self.ops, self.tasks, self.by_id = {}, {}, {}, {}

    def circuit(self, c):
        if self.share in ("circuits", "both", "tasks"):
            key = common.canon(c)
            if key not in self.circ:
                self.circ[key] = _build_circuit(c, self.pi)
            return self.circ[key]
        return _build_circuit(c, self.pi)

    def op(self, t):
        if self.share in ("ops", "both", "tasks"):
            key = _op_key(t)
            if key not in self.ops:
                self.ops[key] = _build_op(t)
            return self.ops[key]
        return _build_op(t)

    def task(self, t):
        if id(t) in self.by_id:
            return self.by_id[id(t)][1]
        EstimationTask = _lib()[2]
        if self.share == "tasks":
            key = common.canon(t)
            if key not in self.tasks:
                self.tasks[key] = EstimationTask(self.op(t), self.circuit(t["circuit"]), _shots(t))
            obj = self.tasks[key]
        else:
            obj = EstimationTask(self.op(t), self.circuit(t["circuit"]), _shots(t))
        self.by_id[id(t)] = (t, obj)  # keeps t alive, so the id stays unique
        return obj

    def rekey(self, table, old_key, new_key):
        """the pooled object described by old_key was edited IN PLACE by the caller and now has the content new_key:
        it stays the one object of every task that held it; EstimationTask objects are rebuilt around it"""
        table[new_key] = table.pop(old_key)
        self.tasks.clear()
        self.by_id.clear()


def _op_key(t):
    return common.canon([t["op"], bool(t.get("term")), t.get("num", "py"), t.get("build")])


def _build_task(t, circuits=None):
    EstimationTask = _lib()[2]
    if circuits is None:
        circ = _build_circuit(t["circuit"])
    else:
        key = common.canon(t["circuit"])
        if key not in circuits:
            circuits[key] = _build_circuit(t["circuit"])
        circ = circuits[key]
    return EstimationTask(_build_op(t), circ, _shots(t))


def _canon_param(p):
    sympy = _lib()[0]
    e = sympy.sympify(p)
    syms = sorted(e.free_symbols, key=str)
    const = Fraction(float(e.subs({s: 0 for s in syms})))
    terms = []
    for s in syms:  # the parameters used here are linear forms
        a = Fraction(float(e.coeff(s)))
        if a != 0:
            terms.append([_sym_name(s), rat(a)])
    return {"const": rat(const), "terms": sorted(terms)}


def _sym_name(s):
    """plain symbols by name; a symbol carrying assumptions or a Dummy is a DIFFERENT symbol and gets a different name"""
    sympy = _lib()[0]
    if isinstance(s, sympy.Dummy):
        return str(s.name) + "|dummy"
    if s != sympy.Symbol(s.name):
        return str(s.name) + "|real"
    return str(s.name)


def _mk_symbol(name):
    sympy = _lib()[0]
    if name.endswith("|dummy"):
        return sympy.Dummy(name[:-6])
    if name.endswith("|real"):
        return sympy.Symbol(name[:-5], real=True)
    return sympy.Symbol(name)


def _mk_value(v, mapnum, pi=False):
    sympy = _lib()[0]
    f = unrat(v)
    if pi:
        return float(f) * cmath.pi
    if mapnum == "int" and f.denominator == 1:
        return int(f)
    if mapnum == "sympy":
        return sympy.Rational(f.numerator, f.denominator)
    if mapnum == "sympyfloat":
        return sympy.Float(float(f))
    return float(f)


def _canon_circuit(circ):
    gates = []
    for op in circ.operations:
        qs = [int(q) for q in op.qubit_indices]
        g = [op.gate.name, qs[0] if len(qs) == 1 else qs]
        g.append(_canon_param(op.params[0]) if op.params else None)
        gates.append(g)
    return {"n": int(circ.n_qubits), "gates": gates}


def _canon_op(op):
    out = []
    for term in op.terms:
        c = complex(term.coefficient)
        out.append({"c": [rat(Fraction(c.real)), rat(Fraction(c.imag))],
                    "ops": sorted([int(q), p] for q, p in term._ops.items())})
    return out


def _cval(v):
    z = complex(v)
    return [rat(Fraction(z.real)), rat(Fraction(z.imag))]


class _Recorder:
    """a CircuitRunner that forwards to the real runner and remembers every run: which circuit object, how many
    samples were asked for, what came back"""

    def __init__(self, inner):
        self.inner = inner
        self.reset()

    def reset(self):
        self.recorded, self.requests, self.runs = [], None, []

    def __getattr__(self, name):
        # whatever else the runner offers (get_wavefunction, get_exact_expectation_values, counters, attributes) is the
        # runner's own: estimation code that looks for it finds it
        if name in ("inner", "recorded", "requests", "runs") or name.startswith("__"):
            raise AttributeError(name)
        return getattr(self.inner, name)

    @staticmethod
    def _bits(m):
        return [[int(b) for b in bits] for bits in m.bitstrings]

    def run_batch_and_measure(self, circuits, n_samples):
        self.requests = ([int(n) if n is not None else None for n in n_samples]
                         if not isinstance(n_samples, int) else int(n_samples))
        res = self.inner.run_batch_and_measure(circuits, n_samples)
        seq = circuits if isinstance(circuits, (list, tuple)) else None
        for k, m in enumerate(res):
            bits = self._bits(m)
            self.recorded.append(bits)
            n = self.requests if isinstance(self.requests, int) else (self.requests[k] if k < len(self.requests) else None)
            self.runs.append((seq[k] if seq is not None and k < len(seq) else None, n, bits))
        return res

    def run_and_measure(self, circuit, n_samples):
        m = self.inner.run_and_measure(circuit, n_samples)
        bits = self._bits(m)
        self.recorded.append(bits)
        self.runs.append((circuit, int(n_samples), bits))
        return m

    def runs_for(self, tasks):
        """JSON form of the runs: for each, the positions of the tasks whose circuit IS the circuit that was run"""
        return [{"tasks": [i for i, t in enumerate(tasks) if t.circuit is circ], "n": n, "shots": bits}
                for circ, n, bits in self.runs]


_EXC = {ValueError: "err:value", TypeError: "err:type", IndexError: "err:index", RuntimeError: "err:runtime"}


def _stub_runner():
    """a runner built on BaseCircuitRunner that executes X/Y/Z-only circuits classically (exactly n copies of the
    prepared basis state) – lets wide registers be estimated without simulating 2^n amplitudes"""
    common.use_repo()
    from orquestra.quantum.api.circuit_runner import BaseCircuitRunner
    from orquestra.quantum.measurements import Measurements

    class Stub(BaseCircuitRunner):
        def _run_and_measure(self, circuit, n_samples):
            bits = [0] * circuit.n_qubits
            for op in circuit.operations:
                if op.gate.name in ("X", "Y"):
                    bits[op.qubit_indices[0]] ^= 1
                elif op.gate.name not in ("Z", "I"):
                    raise ValueError("stub runner executes X/Y/Z/I circuits only")
            return Measurements([tuple(bits)] * int(n_samples))
    return Stub()


def _numpy_simulator(seed):
    """a BaseWavefunctionSimulator whose native step applies the library's own gate matrices with numpy – keeps
    registers of 9..14 qubits cheap; sampling, get_exact_expectation_values -> get_expectation_value ->
    get_sparse_operator are the library's code"""
    common.use_repo()
    import numpy as np
    from orquestra.quantum.api.wavefunction_simulator import BaseWavefunctionSimulator

    class NumpySimulator(BaseWavefunctionSimulator):
        def _get_wavefunction_from_native_circuit(self, circuit, initial_state):
            n = circuit.n_qubits
            psi = np.asarray(initial_state, dtype=complex).reshape((2,) * n)
            for op in circuit.operations:
                qs = [int(q) for q in op.qubit_indices]
                m = np.array(op.gate.matrix.tolist(), dtype=complex).reshape((2,) * (2 * len(qs)))
                psi = np.tensordot(m, psi, axes=(list(range(len(qs), 2 * len(qs))), qs))
                psi = np.moveaxis(psi, list(range(len(qs))), qs)
            return psi.reshape(-1)
    return NumpySimulator(seed=seed)


def _err(e):
    for k, v in _EXC.items():
        if type(e) is k:
            return {"err": v, "msg": str(e)[:120]}
    raise e


# ----------------------------------------------------------------------------------------------- task facts
def _is_const(t):
    return all(not term["ops"] for term in t["op"])


def _is_ising(t):
    return all(p == "Z" for term in t["op"] for _, p in term["ops"])


def _op_width(t):
    return max([q + 1 for term in t["op"] for q, _ in term["ops"]], default=0)


def _has_free(c):
    return any(len(g) > 2 and g[2] is not None and g[2]["terms"] for g in c["gates"])


def _fixed_only(c):
    """only parameter-free gates: the one-qubit ones the model knows, or CNOT / CZ / SWAP (oracle-only cases)"""
    return all((g[0] in FIXED or g[0] in TWOQ) and (len(g) < 3 or g[2] is None) for g in c["gates"])


def _has_twoq(c):
    return any(g[0] in TWOQ for g in c["gates"])


def _kind(t):
    """'const' | 'zero' | 'meas' | 'bad' (outside the stated domain)"""
    if _is_const(t):
        return "const"
    if t["shots"] == 0 and t["shots"] is not None:
        return "zero"
    c = t["circuit"]
    ok = (isinstance(t["shots"], int) and t["shots"] > 0 and _is_ising(t) and _op_width(t) <= c["n"]
          and c["n"] >= 1 and not _has_free(c) and _fixed_only(c))
    return "meas" if ok else "bad"


def _prepared_bits(c):
    """the basis state an X/Y/Z/S/T (+ CNOT/CZ/SWAP) circuit prepares (None if an H makes it a superposition)"""
    bits = [0] * c["n"]
    for g in c["gates"]:
        if g[0] == "H":
            return None
        if g[0] in ("X", "Y"):
            bits[g[1]] ^= 1
        elif g[0] == "CNOT":
            bits[g[1][1]] ^= bits[g[1][0]]
        elif g[0] == "SWAP":
            bits[g[1][0]], bits[g[1][1]] = bits[g[1][1]], bits[g[1][0]]
    return bits


def _definite_mask(c):
    """per qubit: prepared bit if no H touched it, else None (only X/Y/Z/S/T/H circuits)"""
    bits, touched = [0] * c["n"], [False] * c["n"]
    for g in c["gates"]:
        if g[0] == "H":
            touched[g[1]] = True
        if g[0] in ("X", "Y"):
            bits[g[1]] ^= 1
    return [None if tc else b for b, tc in zip(bits, touched)]


# ----------------------------------------------------------------------------------------------- corpus / generation
def _term(c, ops, im=0):
    return {"c": [rat(c), rat(im)], "ops": [[q, p] for q, p in ops]}


def _circ(n, gates):
    return {"n": n, "gates": [list(g) for g in gates]}


def corpus():
    c3 = _circ(3, [["X", 0], ["X", 2]])
    meas = {"op": [_term(2, [(0, "Z")]), _term(3, [(1, "Z"), (2, "Z")]), _term(4, [])], "circuit": c3, "shots": 5}
    return [
        # F12 (fixed): the empty sum and an unsimplified constant sum as constant tasks
        {"kind": "averaging", "seed": 1, "tasks": [
            {"op": [], "circuit": c3, "shots": 7},
            {"op": [_term(2, []), _term(3, [])], "circuit": c3, "shots": 3},
            meas,
            {"op": [_term(2, [(0, "Z")])], "term": True, "circuit": c3, "shots": 0}]},
        {"kind": "averaging", "seed": 2, "tasks": [meas, {"op": [_term("3/2", [], 1)], "term": True, "circuit": c3, "shots": None}]},
        {"kind": "averaging", "seed": 3, "tasks": []},
        {"kind": "averaging", "seed": 4, "tasks": [{"op": [_term(2, [(0, "Z")])], "circuit": c3, "shots": None}]},
        {"kind": "averaging", "seed": 5, "tasks": [{"op": [_term(2, [(0, "X")])], "circuit": c3, "shots": 3}]},
        {"kind": "averaging", "seed": 6, "tasks": [{"op": [_term(2, [(5, "Z")])], "circuit": c3, "shots": 3}]},
        {"kind": "averaging", "seed": 7, "tasks": [
            {"op": [_term("1/2", [(0, "Z")]), _term(-1, [(0, "Z"), (1, "Z")])], "circuit": _circ(2, [["H", 0], ["X", 1]]), "shots": 16}]},
        {"kind": "nonmeasured", "tasks": [{"op": [], "circuit": c3, "shots": 1}, {"op": [_term(2, [(0, "Z")])], "circuit": c3, "shots": 0}]},
        {"kind": "nonmeasured", "tasks": [{"op": [_term(2, [(0, "Z")])], "circuit": c3, "shots": 4}]},
        {"kind": "split", "tasks": [meas, {"op": [], "circuit": c3, "shots": 7}, dict(meas, shots=0), meas]},
        {"kind": "exact", "tasks": [meas, {"op": [_term(2, [(0, "X")])], "term": True, "circuit": _circ(1, [["H", 0]]), "shots": None},
                                    {"op": [_term(2, [(0, "Y")])], "term": True, "circuit": _circ(1, [["H", 0], ["S", 0]]), "shots": None}]},
        {"kind": "exact", "tasks": [{"op": [_term(1, [(4, "Z")])], "circuit": c3, "shots": 0}]},
        {"kind": "bind", "tasks": [
            {"op": [_term(1, [(0, "Z")])], "circuit": _circ(2, [["RX", 0, {"const": "3/2", "terms": [["t", "1/2"], ["u", "1/4"]]}], ["X", 1]]), "shots": 3},
            {"op": [], "circuit": _circ(1, [["RZ", 0, {"const": 0, "terms": [["t", 2]]}]]), "shots": None}],
         "maps": [[["t", 2]], [["t", "1/2"], ["zz", 1]]]},
        # a single map for three tasks (fixed in 05054e7: zip used to drop two tasks; the map is used for all)
        {"kind": "bind", "tasks": [
            {"op": [_term(1, [(0, "Z")])], "circuit": _circ(1, [["RX", 0, {"const": 0, "terms": [["t", 1]]}]]), "shots": 3}] * 3,
         "maps": [[["t", 1]]]},
        # --- hardening corpus: one fixed representative per blind-spot class (generate() draws many more)
        # two zero-shot tasks and the same constant twice, called twice with the first results overwritten in between
        {"kind": "averaging", "seed": 8, "again": True, "share": "ops", "tasks": [
            dict(meas, shots=0), {"op": [_term(5, [])], "circuit": c3, "shots": 2}, dict(meas, shots=0),
            {"op": [_term(5, [])], "circuit": c3, "shots": 2}, meas]},
        # one circuit object, operators equal within every tolerance (2^-30 apart), second in another term order
        {"kind": "averaging", "seed": 9, "share": "both", "tasks": [
            {"op": [_term(2, [(0, "Z")]), _term(3, [(1, "Z")])], "circuit": c3, "shots": 4},
            {"op": [_term(Fraction(2) + Fraction(1, 2 ** 30), [(0, "Z")]), _term(3, [(1, "Z")])], "circuit": c3, "shots": 4},
            {"op": [_term(3, [(1, "Z")]), _term(2, [(0, "Z")])], "circuit": c3, "shots": 4}]},
        # coefficients below 1e-8, a zero coefficient, a coefficient 2^30 times its neighbour, a tiny imaginary constant
        {"kind": "averaging", "seed": 10, "tasks": [
            {"op": [_term(Fraction(3, 2 ** 40), [(0, "Z")]), _term(0, [(1, "Z")]), _term(Fraction(-5, 2 ** 40), [])], "circuit": c3, "shots": 1},
            {"op": [_term(2 ** 30, [(0, "Z")]), _term("1/8", [(2, "Z")])], "circuit": c3, "shots": 2},
            {"op": [_term(2, [], Fraction(1, 2 ** 50))], "circuit": c3, "shots": None},
            {"op": [_term(0, [(2, "Z")])], "term": True, "circuit": c3, "shots": 3}]},
        # numpy shot counts (a numpy zero is a zero-shot task) and numpy / int coefficients
        {"kind": "averaging", "seed": 11, "tasks": [
            dict(meas, shots=0, num="np"), dict(meas, num="np"), dict(meas, num="int"),
            {"op": [_term(2, [])], "circuit": c3, "shots": 0, "num": "np"}]},
        {"kind": "split", "again": True, "tasks": [dict(meas, num="np"), dict(meas, shots=0, num="np"), meas]},
        {"kind": "split", "again": True, "tasks": [meas, dict(meas, shots=2)]},
        {"kind": "nonmeasured", "again": True, "share": "ops", "tasks": [
            {"op": [_term(2, [])], "circuit": c3, "shots": 1}, dict(meas, shots=0), {"op": [_term(2, [])], "circuit": c3, "shots": 1},
            dict(meas, shots=0)]},
        # basis state through CNOT / SWAP (oracle only)
        {"kind": "averaging", "seed": 12, "nomodel": True, "tasks": [
            {"op": [_term(2, [(0, "Z")]), _term(3, [(1, "Z"), (2, "Z")])],
             "circuit": _circ(3, [["X", 0], ["CNOT", [0, 1]], ["SWAP", [1, 2]], ["CZ", [0, 2]]]), "shots": 3}]},
        # entangled state: <Z0 Z1> is not <Z0><Z1>; one rotation angle differs between the two tasks
        {"kind": "exact", "nomodel": True, "tasks": [
            {"op": [_term(2, [(0, "Z"), (1, "Z")]), _term(1, [(0, "X"), (1, "X")])],
             "circuit": _circ(2, [["H", 0], ["CNOT", [0, 1]], ["RX", 1, {"const": "1/2", "terms": []}]]), "shots": None},
            {"op": [_term(2, [(0, "Z"), (1, "Z")]), _term(1, [(0, "X"), (1, "X")])],
             "circuit": _circ(2, [["H", 0], ["CNOT", [0, 1]], ["RX", 1, {"const": "3/4", "terms": []}]]), "shots": None}]},
        # a map keyed by a symbol with assumptions / a Dummy of the same name binds nothing; the caller's one-map list
        # stays a one-map list; number types of the values
        {"kind": "bind", "again": True, "mapnum": "sympy", "tasks": [
            {"op": [_term(1, [(0, "Z")])], "circuit": _circ(1, [["RX", 0, {"const": 0, "terms": [["a", 1], ["b", 2]]}]]), "shots": 3}] * 2,
         "maps": [[["a|real", 1], ["b|dummy", 2], ["b", "1/4"]]]},
        # parameter scan on ONE circuit object; the maps hold the same values assigned to different symbols
        {"kind": "bind", "share_circuits": True, "tasks": [
            {"op": [_term(1, [(0, "Z")])], "circuit": _circ(1, [["RX", 0, {"const": 0, "terms": [["a", 1], ["b", 2]]}]]), "shots": 3}] * 3,
         "maps": [[["a", 1], ["b", 2]], [["a", 2], ["b", 1]], [["b", 1], ["a", 2]]]},
        {"kind": "pipeline", "seed": 13, "pi": True, "share": "circuits", "tasks": [
            {"op": [_term(2, [(0, "Z")]), _term(3, [(0, "Z"), (1, "Z")])],
             "circuit": _circ(2, [["RX", 0, {"const": 0, "terms": [["a", 1]]}], ["RY", 1, {"const": 1, "terms": [["b", 1]]}]]), "shots": 3}] * 3,
         "maps": [[["a", 1], ["b", 0]], [["a", 0], ["b", 1]], [["a", 2], ["b", 2]]]},
        # the same simulator, the same task objects: estimate, change one gate, estimate again, then exact values
        {"kind": "session", "seed": 14, "share": "both", "steps": [
            {"kind": "averaging", "tasks": [meas, dict(meas, shots=0)]},
            {"kind": "averaging", "again": True, "tasks": [dict(meas, circuit=_circ(3, [["X", 1], ["X", 2]])), dict(meas, shots=0)]},
            {"kind": "exact", "tasks": [meas, dict(meas, circuit=_circ(3, [["X", 1], ["X", 2]]))]}]},
        # 70 measured tasks (longer than a 64-circuit submission), values follow the position
        {"kind": "averaging", "seed": 15, "share": "circuits", "tasks": [
            {"op": [_term(i + 1, [(i % 2, "Z")])], "circuit": _circ(2, [["X", 1]]), "shots": 1 + i % 3} for i in range(70)]},
        # exact values on 10 / 12 qubits (numpy-backed simulator subclass): terms mixing an index >= 8 with a smaller
        # one that sits in a later hash slot of a set (Z1*Z8, Z3*Z9), two-digit next to one-digit indices (2 vs 10),
        # listed high-to-low, through the dict / string / from_iterable constructors; basis, product, entangled states
        {"kind": "exact", "nomodel": True, "sim": "numpy", "tasks": [
            {"op": [_term(2, [(8, "Z"), (1, "Z")]), _term(3, [(3, "Z"), (9, "Z")]), _term(5, [(0, "Z"), (8, "Z")]), _term(7, [])],
             "circuit": _circ(10, [["X", 1], ["X", 9]]), "shots": None, "build": b} for b in ("dict", "str", "iter")]},
        {"kind": "exact", "nomodel": True, "sim": "numpy", "tasks": [
            {"op": [_term(2, [(10, "X"), (2, "Z")]), _term("1/2", [(11, "Y"), (9, "Z"), (1, "X"), (2, "Z"), (8, "Z")]),
                    _term(3, [(2, "Z"), (10, "X")])],
             "circuit": _circ(12, [["X", 2], ["H", 10], ["H", 1], ["RY", 11, {"const": "3/4", "terms": []}], ["CNOT", [1, 9]]]),
             "shots": 0, "build": "str"}]},
        {"kind": "pipeline", "seed": 16, "pi": True, "sim": "numpy", "share": "circuits", "tasks": [
            {"op": [_term(2, [(8, "Z"), (1, "Z")]), _term(3, [(9, "Z")])], "build": "iter",
             "circuit": _circ(10, [["RX", 1, {"const": 0, "terms": [["a", 1]]}], ["RY", 8, {"const": 1, "terms": [["b", 1]]}]]), "shots": 2}] * 2,
         "maps": [[["a", 1], ["b", 0]], [["a", 0], ["b", 0]]]},
        # --- histories on ONE runner object: another public route between two estimation calls
        # get_wavefunction from |10> on the circuit object whose exact value is asked for next (2*Z0 on X(0)|00> is -2)
        {"kind": "history", "seed": 17, "share": "both", "steps": [
            {"kind": "route", "route": "wf_init", "init": {"kind": "basis", "k": 1}, "tasks": [dict(meas, circuit=_circ(2, [["X", 0]]), op=[_term(2, [(0, "Z")])])]},
            {"kind": "exact", "tasks": [dict(meas, circuit=_circ(2, [["X", 0]]), op=[_term(2, [(0, "Z")])])]},
            {"kind": "route", "route": "wf", "edit": "reverse", "tasks": [dict(meas, circuit=_circ(2, [["X", 0]]), op=[_term(2, [(0, "Z")])])]},
            {"kind": "route", "route": "exact_direct", "tasks": [dict(meas, circuit=_circ(2, [["X", 0]]), op=[_term(2, [(0, "Z")])])]},
            {"kind": "averaging", "tasks": [dict(meas, circuit=_circ(2, [["X", 0]]), op=[_term(2, [(0, "Z")])])]}]},
        # the caller runs the task's circuit itself with the task's shot count, flips every bit of what it got, estimates
        {"kind": "history", "seed": 18, "share": "tasks", "runner": "stub", "steps": [
            {"kind": "averaging", "tasks": [meas]},
            {"kind": "route", "route": "run", "n": 5, "edit": "flip", "tasks": [meas]},
            {"kind": "route", "route": "batch", "ns": [5], "as_tuple": True, "edit": "flip", "tasks": [meas]},
            {"kind": "averaging", "again": True, "tasks": [meas]}]},
        # exact value, then the circuit object gets one more gate in place (circuit.operations.append), exact again
        {"kind": "history", "seed": 19, "share": "both", "sim": "numpy", "steps": [
            {"kind": "exact", "tasks": [meas]},
            {"kind": "route", "route": "run", "n": 5, "tasks": [meas]},
            {"kind": "mutate", "what": "gate", "gate": ["X", 1], "tasks": [meas]},
            {"kind": "exact", "tasks": [dict(meas, circuit=_circ(3, [["X", 0], ["X", 2], ["X", 1]]))]},
            {"kind": "mutate", "what": "coef", "j": 0, "c": [5, 0], "tasks": [dict(meas, circuit=_circ(3, [["X", 0], ["X", 2], ["X", 1]]))]},
            {"kind": "averaging", "tasks": [dict(meas, circuit=_circ(3, [["X", 0], ["X", 2], ["X", 1]]),
                                                 op=[_term(5, [(0, "Z")])] + meas["op"][1:])]}]},
        # widths 9..12 and >= 64 (stub runner): mirrored supports
        {"kind": "averaging", "seed": 0, "runner": "stub", "tasks": [
            {"op": [_term(2, [(1, "Z")]), _term(3, [(8, "Z")]), _term(5, [(0, "Z"), (9, "Z")])], "circuit": _circ(10, [["X", 1], ["X", 9]]), "shots": 2},
            {"op": [_term(2, [(1, "Z")]), _term(3, [(64, "Z")]), _term(5, [(0, "Z"), (65, "Z")])], "circuit": _circ(66, [["X", 1], ["X", 65]]), "shots": 2}]},
    ]


# coefficient profiles of one operator: (scales a term may take (coefficient = k/8 * 2**scale), description)
#   tiny       every coefficient below the absolute tolerance of np.isclose / np.allclose (1e-8)
#   tiny+      ordinary coefficients next to tiny ones
#   huge+      ordinary coefficients next to ones 2**30 times larger (hidden by a relative tolerance of 1e-5)
# All sums of <= 6 such dyadic numbers are exact in double precision (< 50 significant bits).
_PROFILES = {"n": [0], "tiny": [-37], "tiny+": [0, -37], "huge+": [0, 30]}


def _pick_profile(rng, exact_only=True):
    r = rng.random()
    if not exact_only or r < 0.7:
        return "n"
    return "tiny" if r < 0.8 else ("tiny+" if r < 0.9 else "huge+")


def _rand_coeff(rng, allow_complex=True, profile="n", zeros=False, imtiny=False):
    """imtiny: the imaginary parts of this operator are all of size 2^-50..2^-46 (below 100 machine epsilons and
    below 1e-5 of the real part); decided once per operator so that the sum of the imaginary parts stays exact"""
    if zeros and rng.random() < 0.06:
        return Fraction(0), Fraction(0)  # a zero coefficient is a legal coefficient
    sc = Fraction(2) ** rng.choice(_PROFILES[profile])
    re = Fraction(rng.choice([k for k in range(-32, 33) if k != 0]), 8) * sc
    im = Fraction(0)
    if allow_complex and rng.random() < 0.12:
        im = Fraction(rng.randrange(-16, 17), 8) * (Fraction(1, 2 ** 47) if imtiny else sc)
    return re, im


def _is_double(f):
    return Fraction(float(f)) == f


def _exact_in_doubles(t):
    """every coefficient of the task is a double, and for a constant operator so is every partial sum (left to
    right, real and imaginary parts apart) – the oracle and the model compute in exact rationals"""
    re = im = Fraction(0)
    const = all(not term["ops"] for term in t["op"])
    for term in t["op"]:
        a, b = unrat(term["c"][0]), unrat(term["c"][1])
        if not (_is_double(a) and _is_double(b)):
            return False
        re, im = re + a, im + b
        if const and not (_is_double(re) and _is_double(im)):
            return False
    return True


def _case_exact_in_doubles(c):
    subs = c["steps"] if c["kind"] in ("session", "history") else [c]
    return all(_exact_in_doubles(t) for sub in subs for t in sub["tasks"])


def _hash_twin(c):
    """another coefficient with the same Python hash: hash(-1) == hash(-2), and hash(x) == hash(x * 2**61) for every
    float (hashes are taken modulo 2**61 - 1); both are exact doubles"""
    c = Fraction(c)
    if c == -1:
        return Fraction(-2)
    if c == -2:
        return Fraction(-1)
    return c * 2 ** 61 if abs(c) < 2 ** 40 else c / 2 ** 61


def _rand_ising_op(rng, n, wide=False, profile="n", zeros=False, twins=False):
    terms = []
    imtiny = rng.random() < 0.4
    for _ in range(rng.randrange(1, 5)):
        k = rng.randrange(1, n + 1)
        qs = rng.sample(range(n), k)  # insertion order of the term's dict is random
        if rng.random() < 0.7:
            qs = sorted(qs)
        if wide and rng.random() < 0.7:
            qs = sorted(set(qs) | {n + rng.randrange(0, 3)})
        re, im = _rand_coeff(rng, True, profile, zeros, imtiny)
        terms.append(_term(re, [(q, "Z") for q in qs], im))
    if rng.random() < 0.3:  # a constant term inside a non-constant operator
        re, im = _rand_coeff(rng, True, profile, zeros, imtiny)
        terms.insert(rng.randrange(len(terms) + 1), _term(re, [], im))
    if rng.random() < 0.15:  # an unsimplified duplicate
        terms.append(dict(rng.choice(terms)))
    if twins and rng.random() < 0.3:
        # the same support again with a coefficient that differs but has the same hash (values are never summed here)
        src = rng.choice([x for x in terms if x["ops"]])
        if rng.random() < 0.5:
            src["c"] = [rng.choice([-1, -2]), 0]
        if unrat(src["c"][0]) != 0:
            terms.insert(rng.randrange(len(terms) + 1), {"c": [rat(_hash_twin(unrat(src["c"][0]))), src["c"][1]], "ops": [list(o) for o in src["ops"]]})
    return terms


def _aligned_letters(circ):
    """per qubit the Pauli letter whose expectation is +-1 after the one-qubit gates on that qubit (None if there is
    none): choosing these letters makes the value of a term non-zero, so that a misplaced factor shows"""
    import numpy as np
    out = []
    paulis = {"X": np.array([[0, 1], [1, 0]], dtype=complex), "Y": np.array([[0, -1j], [1j, 0]], dtype=complex),
              "Z": np.array([[1, 0], [0, -1]], dtype=complex)}
    for q in range(circ["n"]):
        v = np.array([1, 0], dtype=complex)
        for g in circ["gates"]:
            if not isinstance(g[1], list) and g[1] == q and (g[0] in FIXED or (g[0] in PARAM and g[2] is not None and not g[2]["terms"])):
                v = np.array(_gate_matrix(g), dtype=complex) @ v
        best = None
        for letter, mat in paulis.items():
            if abs(abs(np.vdot(v, mat @ v)) - 1) < 1e-9:
                best = letter
        out.append(best)
    return out


def _rand_pauli_op(rng, n, zeros=False, aligned=None):
    terms = []
    for _ in range(rng.randrange(1, 4)):
        qs = rng.sample(range(n), rng.randrange(0, n + 1))  # the listed order is the insertion order of the term
        if rng.random() < 0.6:
            qs = sorted(qs)
        re, im = _rand_coeff(rng, True, "n", zeros)
        whole = aligned is not None and rng.random() < 0.5  # every factor aligned: the term's value is +-coefficient
        ops = []
        for q in qs:
            p = rng.choice("XYZ")
            if aligned is not None and aligned[q] and (whole or rng.random() < 0.5):
                p = aligned[q]
            ops.append((q, p))
        terms.append(_term(re, ops, im))
    return terms


def _rand_const_op(rng, profile="n", zeros=False):
    k = rng.choice([0, 1, 1, 2, 3])
    out = []
    imtiny = rng.random() < 0.4
    for _ in range(k):
        re, im = _rand_coeff(rng, True, profile, zeros, imtiny)
        out.append(_term(re, [], im))
    return out


def _rand_circuit(rng, n, basis=None, rich=False):
    gates = []
    if basis is None:
        basis = rng.random() < 0.7
    for q in range(n):
        if rng.random() < 0.55:
            gates.append(["X", q])
    for _ in range(rng.randrange(0, 3)):
        gates.append([rng.choice(["X", "Z", "Y", "S", "T"] if rich else ["X", "Z", "X", "Y"]), rng.randrange(n)])
    if not basis:
        for q in rng.sample(range(n), rng.randrange(1, n + 1)):
            gates.insert(rng.randrange(len(gates) + 1), ["H", q])
    return _circ(n, gates)


def _maybe_term(rng, op):
    t = {"op": op}
    if len(op) == 1 and rng.random() < 0.5:
        t["term"] = True
    return t


def _rand_shots(rng):
    return rng.choice([1, 1, 2, 3, rng.randrange(1, 51), rng.randrange(1, 51), rng.randrange(1, 51)])


def _rand_task(rng, kind, nmax, exotic=False):
    """exotic: coefficient profiles (tiny / huge next to ordinary), zero coefficients, numpy / int number types"""
    n = rng.randrange(1, nmax + 1)
    circ = _rand_circuit(rng, n)
    prof = _pick_profile(rng, exotic)
    if kind == "const":
        t = _maybe_term(rng, _rand_const_op(rng, prof, exotic))
        t["shots"] = rng.choice([None, 0, 1, 5, -2, rng.randrange(1, 51)] + ([2 ** 53 + 1] if exotic else []))
    elif kind == "zero":
        op = _rand_ising_op(rng, n, profile=prof, zeros=exotic) if rng.random() < 0.7 else \
            [x for x in _rand_pauli_op(rng, n) if x["ops"]] or [_term(1, [(0, "X")])]
        t = _maybe_term(rng, op)
        t["shots"] = 0
    elif kind == "meas":
        if _prepared_bits(circ) is None:
            prof = "n"  # sampled means are compared with a tolerance: ordinary magnitudes only
        t = _maybe_term(rng, _rand_ising_op(rng, n, profile=prof, zeros=exotic,
                                            twins=exotic and _prepared_bits(circ) is not None))
        t["shots"] = _rand_shots(rng)
    else:  # malformed
        which = rng.choice(["none", "neg", "nonising", "wide", "free"])
        t = _maybe_term(rng, _rand_ising_op(rng, n, wide=(which == "wide")))
        t["shots"] = rng.randrange(1, 20)
        if which == "none":
            t["shots"] = None
        elif which == "neg":
            t["shots"] = -rng.randrange(1, 5)
        elif which == "nonising":
            t["op"] = [_term(2, [(rng.randrange(n), rng.choice("XY"))])] + t["op"]
            t.pop("term", None)
        elif which == "free":
            circ = _circ(n, circ["gates"] + [["RX", rng.randrange(n), {"const": 0, "terms": [["theta", 1]]}]])
    if exotic and kind != "bad" and rng.random() < 0.3:
        t["num"] = rng.choice(["np", "int"])
    t["circuit"] = circ
    return t


def _rand_tasks(rng, nmax, malformed, exotic=False):
    k = rng.choice([0, 1, 2, 3, 3, 4, 5, 6, 8])
    kinds = [rng.choice(["const", "zero", "meas", "meas"]) for _ in range(k)]
    if k >= 3 and rng.random() < 0.7:
        kinds[:3] = ["const", "zero", "meas"]
        rng.shuffle(kinds)
    if malformed and k:
        for _ in range(rng.choice([1, 1, 2])):
            kinds[rng.randrange(k)] = "bad"
    tasks = [_rand_task(rng, kd, nmax, exotic) for kd in kinds]
    if k >= 2 and rng.random() < 0.15:  # the same task twice
        tasks[rng.randrange(k)] = tasks[rng.randrange(k)]
    return tasks


# ------------------------------------------------------------------ siblings: exactly one component differs
def _sibling(rng, t, nmax, ising=True):
    """a copy of the well-formed task t in which exactly ONE component is different (or none: 'same')"""
    import copy
    s = copy.deepcopy(t)
    n, op = s["circuit"]["n"], s["op"]
    moves = ["flip", "shots", "same", "term-add"]
    if op:
        moves += ["coef-eps", "coef-eps", "coef-neg", "coef-new"]
        if ising and _prepared_bits(s["circuit"]) is not None and not _is_const(s):
            moves.append("coef-twin")
    if len(op) >= 2:
        moves += ["term-drop", "term-order"]
    if len(op) == 1:
        moves.append("termflag")
    if any(term["ops"] and len(term["ops"]) < n for term in op):
        moves += ["qubit", "qubit"]
    if n < nmax:
        moves.append("width")
    if any(g[0] == "X" for g in s["circuit"]["gates"]) and n >= 2:
        moves.append("gate-move")
    mv = rng.choice(moves)
    if mv == "coef-eps":  # within every tolerance of ==, hash and np.isclose
        term = rng.choice(op)
        c0 = unrat(term["c"][0])
        # 2^-30 is below every tolerance of ==, hash and np.isclose; 2^-24 is visible at the 1e-9 of the exact values
        eps = Fraction(rng.choice([1, -1, 3]), 2 ** (30 if ising and rng.random() < 0.5 else 24))
        if abs(c0) >= 1024:  # relative to the magnitude, by a power of two: repeated steps stay exact in doubles
            eps *= 2 ** (abs(c0).numerator.bit_length() - abs(c0).denominator.bit_length())
        term["c"][0] = rat(c0 + eps)
    elif mv == "coef-twin":  # same hash, different value (only where values are exact: basis states, no sums)
        term = rng.choice([x for x in op if x["ops"]])
        c0 = unrat(term["c"][0])
        if c0 == 0 or rng.random() < 0.3:
            c0 = Fraction(rng.choice([-1, -2]))
        term["c"][0] = rat(_hash_twin(c0))
    elif mv == "coef-neg":
        term = rng.choice(op)
        term["c"] = [rat(-unrat(term["c"][0])), rat(-unrat(term["c"][1]))]
    elif mv == "coef-new":
        term = rng.choice(op)
        re, im = _rand_coeff(rng, False)
        term["c"] = [rat(re), rat(im)]
    elif mv == "term-drop":
        op.pop(rng.randrange(len(op)))
        s.pop("term", None)
    elif mv == "term-order":
        op.reverse()
    elif mv == "term-add":
        re, im = _rand_coeff(rng, False)
        qs = sorted(rng.sample(range(n), rng.randrange(0, n + 1)))
        op.insert(rng.randrange(len(op) + 1), _term(re, [(q, "Z" if ising else rng.choice("XYZ")) for q in qs], im))
        s.pop("term", None)
    elif mv == "termflag":
        if s.get("term"):
            s.pop("term")
        else:
            s["term"] = True
    elif mv == "qubit":
        term = rng.choice([x for x in op if x["ops"] and len(x["ops"]) < n])
        used = {q for q, _ in term["ops"]}
        j = rng.randrange(len(term["ops"]))
        term["ops"][j] = [rng.choice([q for q in range(n) if q not in used]), term["ops"][j][1]]
    elif mv == "flip":
        s["circuit"]["gates"].append(["X", rng.randrange(n)])
    elif mv == "gate-move":
        g = rng.choice([g for g in s["circuit"]["gates"] if g[0] == "X"])
        g[1] = rng.choice([q for q in range(n) if q != g[1]])
    elif mv == "width":
        s["circuit"]["n"] = n + 1
    elif mv == "shots":
        if s["shots"] is not None or not _is_const(s):
            s["shots"] = rng.choice([0, 1, 2, _rand_shots(rng)])
    if not _exact_in_doubles(s):  # e.g. dropping the last Z term left a constant sum that is not a double
        return copy.deepcopy(t)
    return s


def _sibling_tasks(rng, nmax, ising=True, kmax=6):
    """a task list grown from one task by single-component changes (chain or star), plus sometimes a constant and a
    zero-shot task; equal descriptions may become one object (share)"""
    n = rng.randrange(1, nmax + 1)
    if ising:
        base = _rand_task(rng, "meas", n, exotic=rng.random() < 0.3)
        if rng.random() < 0.7:
            base["circuit"] = _rand_circuit(rng, base["circuit"]["n"], basis=True)
        base.pop("num", None)
    else:
        circ = _rand_circuit(rng, n, basis=rng.random() < 0.3, rich=True)
        base = _maybe_term(rng, _rand_pauli_op(rng, n, aligned=_aligned_letters(circ)))
        base["circuit"] = circ
        base["shots"] = rng.choice([None, 0, 10])
    tasks = [base]
    for _ in range(rng.randrange(1, kmax)):
        tasks.append(_sibling(rng, rng.choice([tasks[-1], tasks[0]]), nmax, ising))
    if ising and rng.random() < 0.5:
        tasks.insert(rng.randrange(len(tasks) + 1), _rand_task(rng, "const", nmax))
        z = _sibling(rng, rng.choice(tasks[:1]), nmax)
        z["shots"] = 0
        tasks.insert(rng.randrange(len(tasks) + 1), z)
        if rng.random() < 0.5:  # a second zero-shot task / the same constant again
            z2 = _sibling(rng, z, nmax)
            z2["shots"] = 0
            tasks.insert(rng.randrange(len(tasks) + 1), z2)
    if rng.random() < 0.4:
        rng.shuffle(tasks)
    return tasks, rng.choice(["none", "circuits", "ops", "both", "tasks"])


def _long_case(rng):
    """a list longer than any batch / chunk size a runner might use (65..140 tasks), small basis-state circuits"""
    n = rng.randrange(1, 4)
    protos = [_rand_task(rng, kd, n) for kd in ("meas", "meas", "meas", "const", "zero")]
    for p in protos[:3]:
        p["circuit"] = _rand_circuit(rng, p["circuit"]["n"], basis=True)
        p["shots"] = rng.randrange(1, 6)
    tasks = []
    for _ in range(rng.choice([rng.randrange(65, 141), rng.randrange(65, 141), 127, 128, 129, 255, 256, 257, 511, 512, 513])):
        tasks.append(_sibling(rng, rng.choice(protos[:3]), n) if rng.random() < 0.85 else rng.choice(protos[3:]))
    return {"kind": "averaging", "seed": rng.randrange(2 ** 31), "tasks": tasks, "share": rng.choice(["none", "circuits", "both"])}


def _classical_case(rng, nmax):
    """basis states prepared with CNOT / SWAP / CZ next to X (oracle-only: the model's circuits are product circuits)"""
    tasks = []
    for _ in range(rng.randrange(1, 4)):
        n = rng.randrange(2, nmax + 1)
        gates = [["X", q] for q in range(n) if rng.random() < 0.6]
        for _ in range(rng.randrange(1, 4)):
            a, b = rng.sample(range(n), 2)
            gates.append([rng.choice(TWOQ), [a, b]])
            if rng.random() < 0.4:
                gates.append([rng.choice(["X", "Z", "S"]), rng.randrange(n)])
        t = _maybe_term(rng, _rand_ising_op(rng, n, profile=_pick_profile(rng), zeros=True))
        t["circuit"], t["shots"] = _circ(n, gates), _rand_shots(rng)
        tasks.append(t)
    return {"kind": "averaging", "seed": rng.randrange(2 ** 31), "tasks": tasks, "nomodel": True}


def _exactx_case(rng, nmax):
    """exact values for entangled states and numeric rotations (oracle-only)"""
    tasks = []
    for _ in range(rng.randrange(1, 4)):
        n = rng.randrange(2, nmax + 1)
        gates = []
        for _ in range(rng.randrange(2, 7)):
            r = rng.random()
            if r < 0.35:
                a, b = rng.sample(range(n), 2)
                gates.append([rng.choice(TWOQ), [a, b]])
            elif r < 0.65:
                gates.append([rng.choice(PARAM), rng.randrange(n), {"const": rat(Fraction(rng.randrange(-16, 17), 4)), "terms": []}])
            else:
                gates.append([rng.choice(["H", "H", "X", "Y", "S", "T"]), rng.randrange(n)])
        t = _maybe_term(rng, _rand_pauli_op(rng, n, zeros=True))
        t["circuit"], t["shots"] = _circ(n, gates), rng.choice([None, 0, 10])
        tasks.append(t)
    if len(tasks) >= 2 and rng.random() < 0.5:  # the same circuit with one rotation angle changed
        import copy
        t2 = copy.deepcopy(tasks[0])
        rot = [g for g in t2["circuit"]["gates"] if g[0] in PARAM]
        if rot:
            g = rng.choice(rot)
            g[2]["const"] = rat(unrat(g[2]["const"]) + Fraction(rng.choice([1, -1, 2]), 4))
            tasks[1] = t2
    return {"kind": "exact", "tasks": tasks, "nomodel": True, "share": rng.choice(["none", "ops", "both"])}


def _mixed_support(rng, n, k):
    """k distinct qubits of an n-qubit register (n >= 9) that mix indices below 8 with indices >= 8 (where the
    iteration order of a Python set of ints stops being ascending, and where indices get two digits), listed in a
    random order"""
    k = max(1, min(k, n))
    qs = set()
    if k >= 2:
        qs = {rng.randrange(8, n), rng.randrange(0, 8)}
    while len(qs) < k:
        qs.add(rng.randrange(n))
    qs = list(qs)
    r = rng.random()
    if r < 0.3:
        qs.sort()
    elif r < 0.5:
        qs.sort(reverse=True)
    else:
        rng.shuffle(qs)
    return qs


def _mixed_op(rng, n, letters, aligned=None):
    """1-4 terms on 1-6 qubits mixing low and high indices, sometimes a constant / a repeated string;
    aligned: per qubit the letter whose expectation is +-1 in the prepared state (used for half of the factors so
    that values are not all 0)"""
    terms = []
    for _ in range(rng.randrange(1, 5)):
        k = rng.choice([1, 2, 2, 2, 3, 3, 4, 4, 5, 6])
        qs = _mixed_support(rng, n, k)
        special = [q for q in range(n) if aligned is not None and aligned[q] in ("X", "Y") and aligned[q] in letters]
        if special and rng.random() < 0.6:  # mixed letters with a non-zero value: include a qubit prepared along X / Y
            q = rng.choice(special)
            if q not in qs:
                qs.insert(rng.randrange(len(qs) + 1), q)
        re, im = _rand_coeff(rng, True, "n", zeros=True)
        whole = aligned is not None and rng.random() < 0.6
        ops = []
        for q in qs:
            p = rng.choice(letters)
            if aligned is not None and aligned[q] and aligned[q] in letters and (whole or rng.random() < 0.5):
                p = aligned[q]
            ops.append((q, p))
        terms.append(_term(re, ops, im))
    if rng.random() < 0.25:
        re, im = _rand_coeff(rng)
        terms.insert(rng.randrange(len(terms) + 1), _term(re, [], im))
    if rng.random() < 0.25:  # the same string again (other coefficient, factors listed in another order)
        src = rng.choice(terms)
        ops = [tuple(o) for o in src["ops"]]
        rng.shuffle(ops)
        terms.append(_term(_rand_coeff(rng, False)[0], ops))
    return terms


def _wide_exact_case(rng):
    """exact values on registers of 9..14 qubits (numpy-backed simulator subclass, oracle only): basis states and
    simple product / lightly entangled states from a handful of gates; operators mixing qubit indices < 8 and >= 8
    in every insertion order and through every constructor"""
    tasks = []

    def width():
        return rng.randrange(9, 13) if rng.random() < 0.8 else rng.randrange(13, 15)
    n = width()
    for _ in range(rng.randrange(1, 4)):
        if rng.random() < 0.3:
            n = width()
        gates = []
        style = rng.choice(["basis", "basis", "product", "entangled"])
        for q in rng.sample(range(n), rng.randrange(1, 6)):
            gates.append(["X", q])
        if style != "basis":
            for q in rng.sample(range(n), rng.randrange(1, 4)):
                if rng.random() < 0.6:
                    gates.append(["H", q])
                    if rng.random() < 0.3:
                        gates.append(["S", q])  # prepared along Y
                else:
                    gates.append(["RY", q, {"const": rat(Fraction(rng.choice([1, 2, -3, 5]), 4)), "terms": []}])
        if style == "entangled":
            for _ in range(rng.randrange(1, 3)):
                a, b = rng.sample(range(n), 2)
                gates.append(["CNOT", [a, b]])
        aligned = _aligned_letters(_circ(n, gates))
        for g in gates:
            if g[0] == "CNOT":
                aligned[g[1][0]] = aligned[g[1][1]] = None
        t = _maybe_term(rng, _mixed_op(rng, n, "XYZ" if rng.random() < 0.6 else "Z", aligned))
        t["circuit"], t["shots"] = _circ(n, gates), rng.choice([None, 0, 10])
        t["build"] = rng.choice(["dict", "str", "iter"])
        if n >= 11:
            # factors listed in ascending order on the wider registers: a library that pads in the listed order would
            # build matrices of up to 2^(2n) entries there (listed-order effects are exercised at 9 and 10 qubits)
            for term in t["op"]:
                term["ops"].sort()
        tasks.append(t)
    c = {"kind": "exact", "tasks": tasks, "nomodel": True, "sim": "numpy", "share": rng.choice(["none", "ops", "both"])}
    if rng.random() < 0.3:
        c["again"] = True
    return c


def _wide_pipeline_case(rng):
    """the parameter-scan pipeline on 9..12 qubits: rotations by integer multiples of pi on a few low and high qubits"""
    syms = ["a", "b", "c"]
    n, k = rng.randrange(9, 13), rng.randrange(2, 5)

    def circuit():
        gates = []
        for q in sorted(_mixed_support(rng, n, rng.randrange(2, 5))):
            if rng.random() < 0.75:
                ss = rng.sample(syms, rng.randrange(1, 3))
                gates.append([rng.choice(["RX", "RY", "RX", "RZ"]), q,
                              {"const": rng.choice([0, 0, 1]), "terms": sorted([s2, rng.choice([1, 1, 2, 3, -1])] for s2 in ss)}])
            else:
                gates.append(["X", q])
        return _circ(n, gates)
    shared = rng.random() < 0.6
    c0 = circuit()
    tasks = []
    for _ in range(k):
        t = _maybe_term(rng, _mixed_op(rng, n, "Z"))
        t["shots"] = rng.choice([0, 1, 2, 5])
        t["circuit"] = c0 if shared else circuit()
        t["build"] = rng.choice(["dict", "str", "iter"])
        tasks.append(t)
    maps = [[[s2, rng.randrange(-3, 4)] for s2 in syms]]
    while len(maps) < k:
        m = [list(e) for e in maps[-1]]
        if rng.random() < 0.6:
            e = rng.choice(m)
            e[1] = e[1] + rng.choice([1, -1, 3])
        else:
            i, j = rng.sample(range(len(m)), 2)
            m[i][1], m[j][1] = m[j][1], m[i][1]
        maps.append(m)
    return {"kind": "pipeline", "seed": rng.randrange(2 ** 31), "tasks": tasks, "maps": maps, "pi": True,
            "sim": "numpy", "share": "circuits" if shared else "none"}


def _pipeline_case(rng, nmax):
    """parameter scan: symbolic rotations by (integer * symbol) * pi, every task bound with its own integer map, then
    estimated and evaluated exactly on ONE simulator; often all tasks hold one circuit object"""
    syms = ["a", "b", "c"]
    k = rng.randrange(2, 6)
    n = rng.randrange(1, nmax + 1)

    def circuit():
        gates = []
        for q in range(n):
            r = rng.random()
            if r < 0.6:
                ss = rng.sample(syms, rng.randrange(1, 3))
                gates.append([rng.choice(["RX", "RY", "RX", "RZ", "PHASE"]), q,
                              {"const": rng.choice([0, 0, 1]), "terms": sorted([s, rng.choice([1, 1, 2, 3, -1])] for s in ss)}])
            elif r < 0.8:
                gates.append([rng.choice(["X", "Z", "Y"]), q])
        return _circ(n, gates)
    shared = rng.random() < 0.6
    c0 = circuit()
    tasks = []
    for _ in range(k):
        t = _rand_task(rng, rng.choice(["meas", "meas", "meas", "const", "zero"]), n)
        if not _is_const(t):
            t = dict(_maybe_term(rng, _rand_ising_op(rng, n)), shots=t["shots"])
        t["circuit"] = c0 if shared else circuit()
        if t["shots"] is not None and t["shots"] < 0:
            t["shots"] = 3
        tasks.append(t)
    maps = [[[s, rng.randrange(-3, 4)] for s in syms]]
    while len(maps) < k:  # the next map differs from the one before in one value, a swap of two values, or the key order
        m = [list(e) for e in maps[-1]]
        r = rng.random()
        if r < 0.5:
            e = rng.choice(m)
            e[1] = e[1] + rng.choice([1, -1, 3])
        elif r < 0.8:
            i, j = rng.sample(range(len(m)), 2)
            m[i][1], m[j][1] = m[j][1], m[i][1]
        else:
            rng.shuffle(m)
        maps.append(m)
    if rng.random() < 0.15:
        maps = maps[:1]
    return {"kind": "pipeline", "seed": rng.randrange(2 ** 31), "tasks": tasks, "maps": maps, "pi": True,
            "share": "circuits" if shared else "none"}


def _session_case(rng, nmax):
    """2-4 calls on the same simulator and the same objects; consecutive calls differ in one task (replaced by a
    sibling), in the order of two tasks, or in the entry point"""
    import copy
    kind = rng.choice(["averaging", "averaging", "exact", "nonmeasured", "split"])
    if kind == "nonmeasured":
        tasks = [_rand_task(rng, rng.choice(["const", "zero"]), nmax) for _ in range(rng.randrange(1, 5))]
        for t in tasks:
            if t["shots"] is not None and t["shots"] < 0:
                t["shots"] = 0
    else:
        tasks, _ = _sibling_tasks(rng, nmax, ising=kind != "exact", kmax=4)
    steps = [{"kind": kind, "tasks": tasks}]
    for _ in range(rng.randrange(1, 4)):
        prev = steps[-1]["tasks"]
        nxt, k2 = list(prev), kind
        r = rng.random()
        if r < 0.55 and prev:
            i = rng.randrange(len(prev))
            sib = _sibling(rng, prev[i], nmax, ising=kind != "exact")
            if kind == "nonmeasured" and _kind(sib) not in ("const", "zero"):
                sib["shots"] = 0
            nxt[i] = sib
        elif r < 0.7 and len(prev) >= 2:
            i, j = rng.sample(range(len(prev)), 2)
            nxt[i], nxt[j] = nxt[j], nxt[i]
        elif r < 0.85 and kind in ("averaging", "exact"):
            k2 = "exact" if steps[-1]["kind"] == "averaging" else "averaging"
            if k2 == "averaging" and any(_kind(t) == "bad" for t in prev):
                k2 = steps[-1]["kind"]
        step = {"kind": k2 if r >= 0.7 else steps[-1]["kind"], "tasks": nxt}
        if rng.random() < 0.3:
            step["again"] = True
        steps.append(step)
    return {"kind": "session", "seed": rng.randrange(2 ** 31), "steps": steps,
            "share": rng.choice(["both", "both", "tasks", "circuits", "ops"])}


_ROUTE_WEIGHTS = ("wf_init", "wf_init", "wf_init", "wf", "wf", "wf0", "run", "run", "batch", "batch", "dist", "dist", "dist_exact",
                  "dist_exact", "exact_direct", "exact_direct", "counters")

# every other public route of a simulator / of a plain runner, with what the caller does to the result afterwards
_ROUTE_VARIANTS_SIM = (
    [{"route": "wf", "edit": e, "fresh": f} for e in (None, "reverse", "roll") for f in (False, True)]
    + [{"route": "wf0", "init": {"kind": "zero"}, "edit": e} for e in (None, "reverse")]
    + [{"route": "wf_init", "init": i, "edit": e, "fresh": f}
       for i, e in (({"kind": "basis"}, None), ({"kind": "basis"}, "reverse"), ({"kind": "uniform"}, None), ({"kind": "basis", "complex": True}, "roll"))
       for f in (False, True)]
    + [{"route": "run", "edit": e} for e in (None, "flip", "clear", "add")] + [{"route": "run", "edit": "flip", "fresh": True}]
    + [{"route": "batch", "edit": e, "as_estimation": True} for e in (None, "flip", "clear")] + [{"route": "batch", "scalar": True, "edit": "flip"}]
    + [{"route": "dist", "edit": e} for e in (None, "flip")]
    + [{"route": "dist_exact", "edit": e} for e in (None, "flip")]
    + [{"route": "exact_direct"}, {"route": "counters"}])


def _rand_route(rng, cur, idxs, stub):
    """one call of ANOTHER public route of the runner object on the circuits (operators) of cur[idxs]"""
    route = rng.choice(ROUTES_RUNNER[:3] * 3 + ROUTES_RUNNER[3:] if stub else _ROUTE_WEIGHTS)
    if route == "batch" and rng.random() < 0.3:
        idxs = list(range(len(cur)))
    st = {"kind": "route", "route": route, "tasks": [cur[i] for i in idxs], "n": rng.randrange(1, 6)}
    shots = [t["shots"] for t in st["tasks"] if isinstance(t["shots"], int) and t["shots"] > 0]
    if shots and rng.random() < 0.5:
        st["n"] = shots[0]  # the shot count the estimation will ask for
    meas = [t for t in cur if _kind(t) == "meas"]
    if route == "batch" and meas and rng.random() < 0.45:
        # exactly the submission an estimation of the working set makes: the measured tasks' circuits and shot counts
        st["tasks"], st["ns"] = meas, [t["shots"] for t in meas]
    if route == "wf0":
        st["init"] = {"kind": "zero", "complex": rng.random() < 0.5}
    elif route == "wf_init":
        st["init"] = {"kind": "basis", "k": rng.randrange(64)} if rng.random() < 0.75 else {"kind": "uniform"}
        st["init"]["complex"] = rng.random() < 0.5
    if route in ("wf0", "wf_init") and rng.random() < 0.3:
        st["positional"] = True
    if route in ("wf", "wf0", "wf_init"):
        st["edit"] = rng.choice([None, None, "reverse", "roll"])
    elif route in ("run", "batch"):
        st["edit"] = rng.choice([None, "flip", "flip", "clear", "add"])
        if route == "batch" and rng.random() < 0.4 and "ns" not in st:
            st["scalar"] = True
        if route == "batch" and rng.random() < 0.4:
            st["as_tuple"] = True
    elif route in ("dist", "dist_exact"):
        st["edit"] = rng.choice([None, "flip", "clear"])
    if rng.random() < 0.2:
        st["fresh"] = True  # on equal-but-distinct circuit objects
    if rng.random() < 0.3:
        st["drop"] = True  # the caller does not keep what it got back
    return {k: v for k, v in st.items() if v is not None}


def _rand_mutation(rng, cur, i, p_coef=0.5):
    """an in-place edit of the operator / circuit OBJECT of task cur[i]: returns (step, new working set) – every task
    holding that object (= every task with the same description of it: the pool builds equal descriptions as one
    object) now has the new content – or None"""
    import copy
    t = cur[i]
    if t["op"] and rng.random() < p_coef:
        j = rng.randrange(len(t["op"]))
        c = [rat(_rand_coeff(rng, False)[0]), 0]
        if c == list(t["op"][j]["c"]):
            return None
        key, new = _op_key(t), []
        for u in cur:
            if _op_key(u) == key:
                u = copy.deepcopy(u)
                u["op"][j]["c"] = list(c)
            new.append(u)
        step = {"kind": "mutate", "what": "coef", "tasks": [t], "j": j, "c": c}
    else:
        gates = t["circuit"]["gates"]
        gate = None if gates and rng.random() < 0.3 else [rng.choice(["X", "X", "Y", "Z"]), rng.randrange(t["circuit"]["n"])]
        key, new = common.canon(t["circuit"]), []
        for u in cur:
            if common.canon(u["circuit"]) == key:
                u = copy.deepcopy(u)
                if gate is None:
                    u["circuit"]["gates"].pop()
                else:
                    u["circuit"]["gates"].append(list(gate))
            new.append(u)
        step = {"kind": "mutate", "what": "gate", "tasks": [t], "gate": gate}
    if not all(_exact_in_doubles(u) for u in new):
        return None
    return step, new


def _targeted_histories(rng, nmax):
    """the systematic part: for each runner object (SymbolicSimulator, the numpy-backed BaseWavefunctionSimulator
    subclass, the stub BaseCircuitRunner subclass), EVERY other public route in every variant of _ROUTE_VARIANTS_SIM
    and every estimation entry point that uses the runner, one minimal history
        [estimation]  ->  the other route on the first task's circuit  ->  [in-place edit]  ->  estimation
    on one or two sibling tasks whose circuits prepare basis states"""
    import copy
    import json
    out = []
    for runner in ("symbolic", "numpy", "stub"):
        for var in _ROUTE_VARIANTS_SIM:
            if runner == "stub" and var["route"] not in ROUTES_RUNNER:
                continue
            for est in (("averaging",) if runner == "stub" else ("averaging", "exact")):
                n = rng.randrange(2, nmax + 1)
                base = _rand_task(rng, "meas", n)
                base["circuit"] = _rand_circuit(rng, base["circuit"]["n"], basis=True)
                base["shots"] = rng.choice([1, 1, 2, 3])
                cur = [base] + [_sibling(rng, base, nmax) for _ in range(rng.randrange(0, 2))]
                cur = [copy.deepcopy(t) for t in cur if _kind(t) == "meas"]
                if runner == "stub":
                    for t in cur:
                        t["circuit"]["gates"] = [g for g in t["circuit"]["gates"] if g[0] in ("X", "Y", "Z")]
                steps = []
                if rng.random() < 0.35:
                    steps.append({"kind": rng.choice(["averaging", est]), "tasks": list(cur)})
                st = dict({"kind": "route", "tasks": [cur[0]], "n": cur[0]["shots"]}, **copy.deepcopy(var))
                if st.get("init", {}).get("kind") == "basis":
                    st["init"]["k"] = rng.randrange(64)
                if st.pop("as_estimation", None):
                    st["tasks"], st["ns"] = list(cur), [t["shots"] for t in cur]
                    if rng.random() < 0.5:
                        st["as_tuple"] = True
                steps.append({k: v for k, v in st.items() if v not in (None, False)})
                if rng.random() < 0.5:
                    for _ in range(4):
                        mut = _rand_mutation(rng, cur, 0, p_coef=0.3)
                        if mut is not None:
                            steps.append(mut[0])
                            cur = mut[1]
                            break
                last = {"kind": est, "tasks": list(cur)}
                if est == "exact" and rng.random() < 0.3:
                    last = {"kind": "route", "route": "exact_direct", "tasks": list(cur)}
                elif rng.random() < 0.2:
                    last["again"] = True
                steps.append(last)
                case = {"kind": "history", "seed": rng.randrange(2 ** 31), "steps": steps, "share": rng.choice(["both", "tasks"]),
                        "targeted": True}
                if runner == "numpy":
                    case["sim"] = "numpy"
                if runner == "stub":
                    case["runner"] = "stub"
                out.append(json.loads(json.dumps(case)))
    return out


def _history_case(rng, nmax):
    """a history on ONE simulator (SymbolicSimulator / a numpy-backed subclass of BaseWavefunctionSimulator) or ONE
    runner (a BaseCircuitRunner subclass) and one pool of circuit / operator objects: estimation calls (averaging,
    exact, split, non-measured, bind, the bind -> estimate -> exact pipeline) interleaved with every OTHER public
    route of that object (get_wavefunction without / with an explicit |0..0> / another basis state / a superposition
    as initial state, run_and_measure, run_batch_and_measure, get_measurement_outcome_distribution sampled / exact,
    get_exact_expectation_values directly, the counters) on the SAME and on equal-but-distinct circuit objects,
    whose results (Wavefunction, Measurements, distribution, lists, the initial-state array, ExpectationValues) the
    caller edits in place; in-place edits of an operator's coefficient / a circuit's operation list; replacement of
    a task by a sibling.  Every estimation answer is judged against the task's content at that moment."""
    import copy
    import json
    runner = rng.choice(["symbolic", "symbolic", "symbolic", "numpy", "numpy", "stub"])
    stub = runner == "stub"
    ising = stub or rng.random() < 0.7
    cur, _ = _sibling_tasks(rng, nmax, ising=ising, kmax=4)
    cur = [copy.deepcopy(t) for t in cur]
    if stub:  # the stub runner executes X / Y / Z circuits
        for t in cur:
            t["circuit"]["gates"] = [g for g in t["circuit"]["gates"] if g[0] in ("X", "Y", "Z")]
    pi = ising and not stub and rng.random() < 0.2
    if not ising:
        est = ["exact", "exact", "exact", "exact_direct"]
    elif stub:
        est = ["averaging", "averaging", "averaging", "split", "nonmeasured"]
    else:
        est = ["averaging", "averaging", "averaging", "exact", "exact", "exact", "exact_direct", "split", "nonmeasured",
               "bind"] + ["pipeline"] * (4 if pi else 0)
    steps = []

    def estimation(focus):
        kind = rng.choice(est)
        tasks = list(cur)
        r = rng.random()
        if focus is not None and r < 0.6:
            tasks = [cur[i] for i in focus]
        elif r < 0.75 and len(tasks) >= 2:
            i, j = rng.sample(range(len(tasks)), 2)
            tasks[i], tasks[j] = tasks[j], tasks[i]
        if kind == "nonmeasured":
            tasks = [t for t in tasks if _kind(t) in ("const", "zero")]
        if kind == "exact_direct":
            return dict({"kind": "route", "route": "exact_direct", "tasks": tasks}, **({"kw": True} if rng.random() < 0.3 else {}))
        if kind == "pipeline":
            pc = _pipeline_case(rng, nmax)
            return {"kind": "pipeline", "tasks": pc["tasks"], "maps": pc["maps"], "pi": True}
        st = {"kind": kind, "tasks": tasks}
        if kind == "bind":
            if pi or rng.random() < 0.5:  # the working set itself (circuits without symbols: binding changes nothing)
                k = 1 if rng.random() < 0.3 else len(tasks)
                st["maps"] = [[[s2, rat(Fraction(rng.randrange(-8, 9), 4))] for s2 in rng.sample(["a", "b", "c"], rng.randrange(0, 3))]
                              for _ in range(k)]
            else:
                bc = _rand_bind_case(rng, nmax)
                st = {k: v for k, v in bc.items() if k in ("kind", "tasks", "maps", "mapnum")}
        r = rng.random()
        if r < 0.25:
            st["again"] = True
        elif r < 0.5 and kind in ("averaging", "exact", "nonmeasured"):
            st["scribble"] = True  # the caller overwrites the arrays of the answer and empties the list, then goes on
        if rng.random() < 0.15 and kind != "bind":
            st["fresh"] = True  # the call is made on equal-but-distinct task / circuit / operator objects
        return st

    if rng.random() < 0.5:
        steps.append(estimation(None))
    for _ in range(rng.randrange(2, 5)):
        r = rng.random()
        focus = None
        if r < 0.35:
            focus = [rng.randrange(len(cur))]
        elif r < 0.5 and len(cur) >= 2:
            focus = rng.sample(range(len(cur)), 2)
        for _ in range(rng.randrange(1, 4)):
            r = rng.random()
            idxs = focus if focus is not None and rng.random() < 0.8 else (
                [0] if rng.random() < 0.4 else rng.sample(range(len(cur)), rng.randrange(1, min(3, len(cur)) + 1)))
            if r < 0.62:
                steps.append(_rand_route(rng, cur, idxs, stub))
            elif r < 0.82:
                mut = _rand_mutation(rng, cur, idxs[0])
                if mut is not None:
                    steps.append(mut[0])
                    cur = mut[1]
            else:  # one task replaced by a sibling (another object, one component changed)
                sib = _sibling(rng, cur[idxs[0]], nmax, ising=ising)
                if stub:
                    sib["circuit"]["gates"] = [g for g in sib["circuit"]["gates"] if g[0] in ("X", "Y", "Z")]
                cur = list(cur)
                cur[idxs[0]] = sib
        steps.append(estimation(focus))
    case = {"kind": "history", "seed": rng.randrange(2 ** 31), "steps": steps, "share": rng.choice(["both", "both", "tasks"])}
    if runner == "numpy":
        case["sim"] = "numpy"
    if stub:
        case["runner"] = "stub"
    if pi:
        case["pi"] = True
    return json.loads(json.dumps(case))  # every description its own object: a replay builds exactly the same objects


def _rand_param(rng, syms):
    ss = rng.sample(syms, rng.randrange(0, min(3, len(syms)) + 1))
    return {"const": rat(Fraction(rng.randrange(-8, 9), 4)),
            "terms": [[s, rat(Fraction(rng.choice([k for k in range(-8, 9) if k]), 4))] for s in ss]}


def _rand_bind_case(rng, nmax):
    syms = ["a", "b", "c", "t0", "t1"]
    k = rng.choice([0, 1, 2, 3, 4, 5])
    tasks = []
    for _ in range(k):
        n = rng.randrange(1, nmax + 1)
        gates = []
        for _ in range(rng.randrange(0, 5)):
            if rng.random() < 0.7:
                gates.append([rng.choice(PARAM), rng.randrange(n), _rand_param(rng, syms)])
            else:
                gates.append([rng.choice(["X", "H", "Z"]), rng.randrange(n)])
        kd = rng.choice(["const", "zero", "meas"])
        t = _rand_task(rng, kd, n)
        t["circuit"] = _circ(n, gates)
        tasks.append(t)
    nm = k
    r = rng.random()
    if r < 0.08 and k > 0:
        nm = rng.randrange(0, k)
    elif r < 0.16:
        nm = k + rng.randrange(1, 3)
    elif r < 0.30:
        nm = 1  # a single map for every task
    # keys: plain symbols, sometimes a symbol of the same NAME that is a different symbol (assumptions / Dummy)
    keys = syms + ["unused"] + (["a|real", "b|dummy", "t0|real"] if rng.random() < 0.3 else [])
    maps = []
    for _ in range(nm):
        ss = rng.sample(keys, rng.randrange(0, 5))
        maps.append([[s, rat(Fraction(rng.randrange(-8, 9), 4))] for s in ss])
    case = {"kind": "bind", "tasks": tasks, "maps": maps}
    if k >= 2 and rng.random() < 0.4:
        # parameter scan: every task holds the same circuit (one shared object), one differing map per task
        import copy
        for t in tasks[1:]:
            t["circuit"] = copy.deepcopy(tasks[0]["circuit"])
        case["share_circuits"] = True
        if nm == k:
            ms = [[[s2, rat(Fraction(rng.randrange(-8, 9), 4))] for s2 in syms]]
            while len(ms) < k:  # sibling maps: one value changed / two values exchanged / key order changed / same
                m = [list(e) for e in ms[-1]]
                r2 = rng.random()
                if r2 < 0.4:
                    rng.choice(m)[1] = rat(Fraction(rng.randrange(-8, 9), 4))
                elif r2 < 0.75:
                    i, j = rng.sample(range(len(m)), 2)
                    m[i][1], m[j][1] = m[j][1], m[i][1]
                elif r2 < 0.9:
                    rng.shuffle(m)
                ms.append(m)
            case["maps"] = ms
    if rng.random() < 0.3:
        case["mapnum"] = rng.choice(["int", "sympy", "sympyfloat"])
    if rng.random() < 0.4:
        case["again"] = True
    return case


_WIDE_BANDS = ((9, 13), (13, 23), (60, 71))


def _wide_case(rng, band=None):
    """basis-state tasks on 9..12, 13..22 or 60..70 qubits whose operators hold supports differing only in digit
    grouping (Z1*Z2 next to Z12) and supports that are each other's mirror image"""
    lo, hi = band or _WIDE_BANDS[1]
    tasks = []
    for _ in range(rng.randrange(1, 4)):
        n = rng.randrange(lo, hi)
        flips = rng.sample(range(n), rng.randrange(1, 6))
        a, b = rng.randrange(1, 3), rng.randrange(0, 10)
        op = []
        if a != b and 10 * a + b < n:
            op += [_term(rng.randrange(1, 5), [(a, "Z"), (b, "Z")]), _term(rng.randrange(1, 5), [(10 * a + b, "Z")])]
            if 10 * a + b not in flips:
                flips.append(10 * a + b)
        for _ in range(rng.randrange(1, 3)):
            qs = rng.sample(range(n), rng.randrange(1, 4))
            op.append(_term(rng.randrange(-4, 5) or 1, [(q, "Z") for q in qs]))
            if rng.random() < 0.5:  # the mirrored support (qubit q <-> n-1-q)
                op.append(_term(rng.randrange(1, 5), [(n - 1 - q, "Z") for q in qs]))
        if n >= 9 and rng.random() < 0.7:
            op.append(_term(rng.randrange(1, 5), [(q, "Z") for q in _mixed_support(rng, n, rng.randrange(2, 5))]))
        rng.shuffle(op)
        t = {"op": op, "circuit": _circ(n, [["X", q] for q in flips]), "shots": rng.randrange(1, 9)}
        if rng.random() < 0.5:
            t["build"] = rng.choice(["str", "iter"])
        tasks.append(t)
    return {"kind": "averaging", "tasks": tasks, "seed": 0, "runner": "stub"}


def generate(rng, tier):
    big = tier == "thorough"
    nmax = 5 if big else 4
    mult = 8 if big else 1
    cases = []
    for _ in range(3000 if big else 300):
        exotic = rng.random() < 0.35
        c = {"kind": "averaging", "seed": rng.randrange(2 ** 31), "tasks": _rand_tasks(rng, nmax, rng.random() < 0.2, exotic)}
        if rng.random() < 0.3:
            c["again"] = True
        cases.append(c)
    for _ in range(70 * mult):
        tasks, share = _sibling_tasks(rng, nmax)
        c = {"kind": "averaging", "seed": rng.randrange(2 ** 31), "tasks": tasks, "share": share}
        if rng.random() < 0.3:
            c["again"] = True
        cases.append(c)
    for _ in range(800 if big else 100):
        k = rng.choice([0, 1, 2, 3, 4])
        tasks = []
        for _ in range(k):
            n = rng.randrange(1, nmax + 1)
            circ = _rand_circuit(rng, n, basis=rng.random() < 0.3, rich=True)
            op = _rand_pauli_op(rng, n, zeros=True, aligned=_aligned_letters(circ)) if rng.random() < 0.75 \
                else _rand_ising_op(rng, n, wide=rng.random() < 0.3)
            if rng.random() < 0.1:
                op = _rand_const_op(rng)
            t = _maybe_term(rng, op)
            t["circuit"] = circ
            t["shots"] = rng.choice([None, 0, 10])
            if rng.random() < 0.3:
                t["build"] = rng.choice(["str", "iter"])
            tasks.append(t)
        c = {"kind": "exact", "tasks": tasks}
        if rng.random() < 0.3:
            c["again"] = True
        cases.append(c)
    for _ in range(30 * mult):
        tasks, share = _sibling_tasks(rng, nmax, ising=False)
        cases.append({"kind": "exact", "tasks": tasks, "share": share})
    for _ in range(30 * mult):
        cases.append(_exactx_case(rng, nmax))
    for _ in range(800 if big else 100):
        exotic = rng.random() < 0.35
        if rng.random() < 0.25:
            tasks, share = _sibling_tasks(rng, nmax)
            cases.append({"kind": "split", "tasks": tasks, "share": share, "again": True})
        else:
            cases.append({"kind": "split", "tasks": _rand_tasks(rng, nmax, rng.random() < 0.3, exotic), "again": rng.random() < 0.5})
    for _ in range(400 if big else 60):
        k = rng.randrange(0, 6)
        exotic = rng.random() < 0.4
        tasks = [_rand_task(rng, rng.choice(["const", "zero", "const", "zero", "meas" if rng.random() < 0.15 else "zero"]), nmax, exotic) for _ in range(k)]
        c = {"kind": "nonmeasured", "tasks": tasks}
        if rng.random() < 0.5:
            c["again"] = True
        if rng.random() < 0.3:
            c["share"] = "ops"
        cases.append(c)
    for _ in range(800 if big else 100):
        cases.append(_rand_bind_case(rng, nmax))
    for _ in range(20 * mult):
        cases.append(_classical_case(rng, nmax))
    for _ in range(40 * mult):
        cases.append(_pipeline_case(rng, nmax))
    for _ in range(40 * mult):
        cases.append(_session_case(rng, nmax))
    for _ in range(3 if big else 1):
        cases += _targeted_histories(rng, nmax)
    for _ in range(110 * mult):
        cases.append(_history_case(rng, nmax))
    for _ in range(12 if big else 3):
        cases.append(_long_case(rng))
    cases += _gen_wide(rng, tier)
    for _ in range(150 if big else 30):
        cases.append(_wide_exact_case(rng))
    for _ in range(40 if big else 8):
        cases.append(_wide_pipeline_case(rng))
    # safety net: values are compared exactly, so every case must be exact in double precision
    return [c for c in cases if _case_exact_in_doubles(c)]


def _gen_wide(rng, tier):
    return [_wide_case(rng, _WIDE_BANDS[i % 3]) for i in range(45 if tier == "thorough" else 12)]


def nontrivial(c):
    k = c["kind"]
    if k == "session":
        return len(c["steps"]) >= 2 and any(nontrivial(st) or len(st["tasks"]) >= 2 for st in c["steps"])
    if k == "history":
        # an estimation call with at least one task that comes after another route of the runner / an in-place edit
        seen_other = False
        for st in c["steps"]:
            if st["kind"] in _OTHER_STEPS and st.get("route") != "exact_direct":
                seen_other = True
            elif seen_other and st["tasks"]:
                return True
        return False
    if k in _OTHER_STEPS:
        return False
    kinds = {_kind(t) for t in c["tasks"]}
    if k in ("averaging", "split"):
        return {"const", "zero", "meas"} <= kinds or (len(c["tasks"]) >= 3 and "meas" in kinds and bool(c.get("share") or c.get("runner")))
    if k == "exact":
        return len(c["tasks"]) >= 2 and any(p in "XY" for t in c["tasks"] for term in t["op"] for _, p in term["ops"])
    if k == "nonmeasured":
        return {"const", "zero"} <= kinds
    if k in ("bind", "pipeline"):
        ms = [common.canon(m) for m in c["maps"]]
        return len(c["tasks"]) >= 2 and ((len(ms) == len(c["tasks"]) and len(set(ms)) == len(ms)) or len(ms) == 1)
    return False


# ----------------------------------------------------------------------------------------------- implementation
def _snapshot(tasks):
    return [(id(t), type(t.operator).__name__, common.canon(_canon_op(t.operator)), common.canon(_canon_circuit(t.circuit)),
             None if t.number_of_shots is None else int(t.number_of_shots)) for t in tasks]


def _changed(lst, objs, snap):
    """None, or what happened to the caller's task list / tasks during the call"""
    if len(lst) != len(objs) or any(x is not y for x, y in zip(lst, objs)):
        return f"the caller's task list was modified (now {len(lst)} entries, {len(objs)} passed in)"
    for i, (x, y) in enumerate(zip(snap, _snapshot(lst))):
        if x != y:
            return f"the caller's task {i} was modified"
    return None


def _aliased(res):
    """pairs of positions whose results are one object / share their value array"""
    import numpy as np
    out = []
    for i in range(len(res)):
        for j in range(i):
            x, y = res[j], res[i]
            if x is None or y is None:
                continue
            if x is y or (isinstance(x.values, np.ndarray) and isinstance(y.values, np.ndarray)
                          and np.shares_memory(x.values, y.values)):
                out.append([j, i])
                if len(out) >= 5:
                    return out
    return out


def _scribble(res):
    """what a caller may do with results it owns: overwrite the arrays in place, empty the list"""
    import numpy as np
    for r in list(res):
        if r is None:
            continue
        arrays = [getattr(r, "values", None)] + list(getattr(r, "correlations", None) or []) \
            + list(getattr(r, "estimator_covariances", None) or [])
        for arr in arrays:
            if isinstance(arr, np.ndarray):
                try:
                    arr[...] = SCRIBBLE
                except (ValueError, TypeError):
                    pass
    if isinstance(res, list):
        res.clear()


class _Ctx:
    """the long-lived objects of one case (or of all steps of a session): object pool, one simulator, one recorder"""

    def __init__(self, c):
        self.pool = _Pool(c.get("share") or ("circuits" if c.get("share_circuits") else None), pi=bool(c.get("pi")))
        self.seed, self.stub = c.get("seed", 0), c.get("runner") == "stub"
        self.numpy_sim = c.get("sim") == "numpy"
        self._sim = self._rec = None
        self.kept = []  # what the caller got back from the other routes of the simulator / runner and still holds

    def sim(self):
        if self._sim is None:
            self._sim = _numpy_simulator(self.seed) if self.numpy_sim else _lib()[6](seed=self.seed)
        return self._sim

    def rec(self):
        if self._rec is None:
            self._rec = _Recorder(_stub_runner() if self.stub else self.sim())
        return self._rec


def _build_maps(c):
    mapnum = c.get("mapnum", "py")
    return [{_mk_symbol(s): _mk_value(v, mapnum, bool(c.get("pi"))) for s, v in m} for m in c["maps"]]


def _snap_maps(maps):
    return [(id(m), [(_sym_name(k), rat(Fraction(float(v)))) for k, v in m.items()]) for m in maps]


def _call(c, ctx):
    """one step: the call named by c['kind'] on c['tasks'] (made twice on the same objects if c['again'])"""
    sympy, C, EstimationTask, E, PauliSum, PauliTerm, SymbolicSimulator = _lib()
    k = c["kind"]
    # fresh: equal-but-distinct objects (tasks, circuits, operators built for this call only, dropped after it)
    pool = _Pool("none", ctx.pool.pi) if c.get("fresh") else ctx.pool
    tasks = [pool.task(t) for t in c["tasks"]]
    objs, snap = tuple(tasks), None
    maps = msnap = mobjs = None
    if k == "bind":
        maps = _build_maps(c)
        mobjs, msnap = tuple(maps), _snap_maps(maps)

    def once():
        if k == "averaging":
            rec = ctx.rec()
            rec.reset()
            try:
                res = E.estimate_expectation_values_by_averaging(rec, tasks)
            except Exception as e:
                out = _err(e)
                out["recorded"] = rec.recorded
                return out
            out = {"res": [None if r is None else [_cval(v) for v in r.values] for r in res],
                   "recorded": rec.recorded, "requests": rec.requests, "runs": rec.runs_for(objs),
                   "aliased": _aliased(res)}
            if c.get("again") or c.get("scribble"):
                _scribble(res)
            return out
        if k == "exact":
            res = E.calculate_exact_expectation_values(ctx.sim(), tasks)
            out = {"res": [[float(v) for v in r.values] for r in res], "aliased": _aliased(res)}
            if c.get("again") or c.get("scribble"):
                _scribble(res)
            return out
        if k == "split":
            m, nm, im, inm = E.split_estimation_tasks_to_measure(tasks)

            def ids(sub, idx):
                # identity of the returned task with the task at the remembered index
                return [i if i < len(objs) and s is objs[i] else -1 for s, i in zip(sub, idx)]
            out = {"to_measure": ids(m, im), "not_to_measure": ids(nm, inm), "idx_measure": [int(i) for i in im],
                   "idx_not": [int(i) for i in inm], "len_m": len(m), "len_nm": len(nm)}
            for lst in (m, nm, im, inm):  # the caller owns the four returned lists
                if isinstance(lst, list) and c.get("again"):
                    lst.clear()
            return out
        if k == "nonmeasured":
            res = E.evaluate_non_measured_estimation_tasks(tasks)
            out = {"res": [[_cval(v) for v in r.values] for r in res], "aliased": _aliased(res)}
            if c.get("again") or c.get("scribble"):
                _scribble(res)
            return out
        if k == "bind":
            res = E.evaluate_estimation_circuits(tasks, maps)
            out = {"res": [{"op": _canon_op(r.operator), "circuit": _canon_circuit(r.circuit),
                            "shots": None if r.number_of_shots is None else int(r.number_of_shots)} for r in res],
                   "op_same": [i < len(objs) and r.operator is objs[i].operator for i, r in enumerate(res)]}
            if isinstance(res, list) and c.get("again"):
                res.clear()
            return out
        raise AssertionError("unknown kind")

    def guarded():
        nonlocal snap
        snap = _snapshot(tasks)
        try:
            out = once()
        except Exception as e:
            out = _err(e)
        out["inputs"] = _changed(tasks, objs, snap)
        out["inputs_intact"] = out["inputs"] is None
        if maps is not None:
            bad = None
            if len(maps) != len(mobjs) or any(x is not y for x, y in zip(maps, mobjs)):
                bad = f"the caller's list of symbol maps was modified (now {len(maps)} entries, {len(mobjs)} passed in)"
            elif _snap_maps(maps) != msnap:
                bad = "a symbol map passed in was modified"
            out["maps"] = bad
        return out

    out = guarded()
    if c.get("again"):
        out["again"] = guarded()
    return out


def _run_pipeline(c, ctx):
    """bind (each task its own map) -> estimate by averaging -> exact values, all on one simulator"""
    sympy, C, EstimationTask, E, PauliSum, PauliTerm, SymbolicSimulator = _lib()
    tasks = [ctx.pool.task(t) for t in c["tasks"]]
    maps = _build_maps(c)
    try:
        bound = E.evaluate_estimation_circuits(tasks, maps)
    except Exception as e:
        return _err(e)
    out = {"bound": len(bound)}
    rec = ctx.rec()
    rec.reset()
    try:
        res = E.estimate_expectation_values_by_averaging(rec, bound)
        out["avg"] = [None if r is None else [_cval(v) for v in r.values] for r in res]
    except Exception as e:
        out["avg_err"] = f"{type(e).__name__}: {e}"[:160]
    try:
        res = E.calculate_exact_expectation_values(ctx.sim(), bound)
        out["exact"] = [[float(v) for v in r.values] for r in res]
    except Exception as e:
        out["exact_err"] = f"{type(e).__name__}: {e}"[:160]
    return out


# ------------------------------------------------------------------ histories: the OTHER public routes of the runner
ROUTES_SIM = ("wf", "wf0", "wf_init", "run", "batch", "dist", "dist_exact", "exact_direct", "counters")
ROUTES_RUNNER = ("run", "batch", "dist", "counters")


def _init_state(init, n):
    """the caller's initial state for get_wavefunction: |0..0> written out, another basis state, or the uniform
    superposition; float or complex array"""
    import numpy as np
    dim = 2 ** n
    dt = complex if init.get("complex") else float
    if init["kind"] == "uniform":
        return np.full(dim, dim ** -0.5, dtype=dt)
    v = np.zeros(dim, dtype=dt)
    v[0 if init["kind"] == "zero" or dim == 1 else 1 + init.get("k", 0) % (dim - 1)] = 1
    return v


def _edit_wavefunction(wf, how):
    """the caller edits the Wavefunction it was given, through its public item assignment (the norm stays 1)"""
    import numpy as np
    amps = np.array(wf.amplitudes, dtype=complex)
    wf[:] = amps[::-1].copy() if how == "reverse" else np.roll(amps, 1)


def _edit_measurements(m, how):
    """the caller edits the Measurements it was given (`bitstrings` is its public list)"""
    if how == "clear":
        m.bitstrings.clear()
    elif how == "add":
        width = len(m.bitstrings[0]) if m.bitstrings else 1
        m.add_counts({"1" * width: 2, "0" * width: 1})
    else:
        m.bitstrings[:] = [tuple(1 - int(b) for b in s) for s in m.bitstrings]


def _edit_distribution(d, how):
    dd = d.distribution_dict
    items = list(dd.items())
    dd.clear()
    if how != "clear":
        for key, v in items:
            dd[tuple(1 - int(b) for b in key)] = v


def _route(step, ctx):
    """one call of another public route of the SAME simulator / runner object the estimation calls use, on the
    circuits (operators) of step['tasks']; afterwards the caller may edit what it got back and what it passed in"""
    target = ctx.rec().inner
    pool = _Pool("none", ctx.pool.pi) if step.get("fresh") else ctx.pool
    tasks = [pool.task(t) for t in step["tasks"]]
    r, edit, n = step["route"], step.get("edit"), step.get("n", 3)
    out = {"route": r}
    got = []
    try:
        if r in ("wf", "wf0", "wf_init"):
            for t in tasks:
                if r == "wf":
                    wf = target.get_wavefunction(t.circuit)
                else:
                    init = _init_state(step["init"], t.circuit.n_qubits)
                    wf = (target.get_wavefunction(t.circuit, init) if step.get("positional")
                          else target.get_wavefunction(t.circuit, initial_state=init))
                    if edit:
                        init[...] = 0  # the array was the caller's
                        init[-1] = 1
                if edit:
                    _edit_wavefunction(wf, edit)
                got.append(wf)
        elif r == "run":
            for t in tasks:
                m = target.run_and_measure(t.circuit, n)
                if edit:
                    _edit_measurements(m, edit)
                got.append(m)
        elif r == "batch":
            circuits = [t.circuit for t in tasks]
            ns = list(step["ns"]) if step.get("ns") else (n if step.get("scalar") else [n + (i % 2) for i in range(len(circuits))])
            if step.get("as_tuple"):  # the estimation routine itself passes tuples
                circuits, ns = tuple(circuits), (tuple(ns) if isinstance(ns, list) else ns)
            ms = target.run_batch_and_measure(circuits, ns)
            if edit:
                for m in ms:
                    _edit_measurements(m, edit)
                if isinstance(circuits, list):
                    circuits.clear()
                if isinstance(ns, list):
                    ns[:] = [7] * len(ns)
            got.extend(ms)
            if edit and isinstance(ms, list):
                ms.clear()
        elif r in ("dist", "dist_exact"):
            for t in tasks:
                d = target.get_measurement_outcome_distribution(t.circuit, None if r == "dist_exact" else n)
                if edit:
                    _edit_distribution(d, edit)
                got.append(d)
        elif r == "exact_direct":
            out["values"] = [float(target.get_exact_expectation_values(circuit=t.circuit, operator=t.operator) if step.get("kw")
                                   else target.get_exact_expectation_values(t.circuit, t.operator)) for t in tasks]
        elif r == "counters":
            out["counters"] = [int(target.n_jobs_executed), int(target.n_circuits_executed)]
        else:
            raise AssertionError("unknown route")
    except AssertionError:
        raise
    except Exception as e:  # what the other routes return or raise is the subject of C04 / C14, not of this check
        out["err"] = f"{type(e).__name__}: {e}"[:160]
    if not step.get("drop"):
        ctx.kept.append(got)
    return out


def _mutate(step, ctx):
    """the caller edits a circuit / an operator of its tasks IN PLACE through the public attributes
    (`term.coefficient = ...`, `circuit.operations.append / pop`); the object stays the one object of its tasks"""
    import copy
    C = _lib()[1]
    PauliTerm = _lib()[5]
    t = step["tasks"][0]
    if step["what"] == "coef":
        obj = ctx.pool.op(t)
        term = obj if isinstance(obj, PauliTerm) else obj.terms[step["j"]]
        term.coefficient = _coeff(step["c"], t.get("num", "py"))
        new = copy.deepcopy(t)
        new["op"][step["j"]]["c"] = list(step["c"])
        ctx.pool.rekey(ctx.pool.ops, _op_key(t), _op_key(new))
        took = common.canon(_canon_op(ctx.pool.op(new))) == common.canon(_canon_op(_build_op(new)))
    else:
        circ = ctx.pool.circuit(t["circuit"])
        new = copy.deepcopy(t["circuit"])
        if step["gate"] is None:
            circ.operations.pop()
            new["gates"].pop()
        else:
            circ.operations.append(getattr(C, step["gate"][0])(step["gate"][1]))
            new["gates"].append(list(step["gate"]))
        ctx.pool.rekey(ctx.pool.circ, common.canon(t["circuit"]), common.canon(new))
        took = common.canon(_canon_circuit(ctx.pool.circuit(new))) == common.canon(_canon_circuit(_build_circuit(new, ctx.pool.pi)))
    # (if the public attribute handed out a copy the edit changed nothing: then nothing after it is judged)
    return {"mutated": step["what"] if took else None}


_OTHER_STEPS = ("route", "mutate")


def _run_step(step, ctx):
    if step["kind"] == "pipeline":
        return _run_pipeline(step, ctx)
    if step["kind"] == "route":
        return _route(step, ctx)
    if step["kind"] == "mutate":
        return _mutate(step, ctx)
    return _call(step, ctx)


def run_impl(c):
    k = c["kind"]
    ctx = _Ctx(c)
    if k in ("session", "history"):
        outs = []
        for step in c["steps"]:
            try:
                outs.append(_run_step(step, ctx))
            except Exception as e:  # keep the other steps' evidence
                outs.append({"exc": type(e).__name__, "msg": str(e)[:200]})
        return {"steps": outs}
    if k == "pipeline":
        return _run_pipeline(c, ctx)
    return _call(c, ctx)


# ----------------------------------------------------------------------------------------------- model side
def _jtask(t):
    return {"op": t["op"], "circuit": t["circuit"], "shots": t["shots"]}


def _requests_one(c, out):
    k = c["kind"]
    tasks = [_jtask(t) for t in c["tasks"]]
    if k == "averaging":
        return ("averaging", {"tasks": tasks, "recorded": out.get("recorded", []) if isinstance(out, dict) else []})
    if k == "bind":
        return ("bind", {"tasks": tasks, "maps": c["maps"]})
    return (k, {"tasks": tasks})


def _steps(c, out):
    """(sub-case, its output) pairs: the case itself, its second call, or the steps of a session"""
    if c["kind"] in ("session", "history"):
        outs = out.get("steps", []) if isinstance(out, dict) else []
        pairs = []
        for step, o in zip(c["steps"], outs):
            pairs += _steps(step, o)
        return pairs
    pairs = [(c, out, "")]
    if isinstance(out, dict) and isinstance(out.get("again"), dict):
        pairs.append((c, out["again"], "@again"))
    return pairs


def _modelled(c):
    if c["kind"] == "session":
        return not c.get("nomodel") and all(_modelled(st) for st in c["steps"])
    if c["kind"] == "history":
        return not c.get("nomodel")  # decided per step: the model answers every estimation call it knows
    return c["kind"] in ("averaging", "exact", "split", "nonmeasured", "bind") and not c.get("nomodel")


def _model_pairs(c, out):
    """the calls the model answers: every call of a modelled case; of a history, each estimation call of a modelled
    kind (the other routes of the runner and the caller's edits have no counterpart in the model: its answer
    depends on the task's content only, which is what the property says)"""
    if not _modelled(c):
        return []  # oracle-only case kinds
    pairs = _steps(c, out)
    if c["kind"] == "history":
        pairs = [p for p in pairs if _modelled(p[0])]
    return pairs


def requests(c, out):
    return [_requests_one(sub, o) for sub, o, _ in _model_pairs(c, out)]


def _all_definite(c):
    return all(_prepared_bits(t["circuit"]) is not None for t in c["tasks"] if _fixed_only(t["circuit"]))


def _vals_differ(a, b, tol):
    """a, b: lists of [re, im] rationals"""
    if len(a) != len(b):
        return True
    return any(abs(unrat(x[0]) - unrat(y[0])) > tol or abs(unrat(x[1]) - unrat(y[1])) > tol for x, y in zip(a, b))


def _sampler_law(c, out):
    """the assumed law of the runner on what was recorded: one batch entry per measured task, exactly the requested
    number of shots, full width, definite qubits read their prepared bit"""
    meas = [t for t in c["tasks"] if not _is_const(t) and t["shots"] != 0]
    rec = out.get("recorded", [])
    if "res" not in out:
        return None
    if len(rec) != len(meas):
        return f"runner returned {len(rec)} measurement sets for {len(meas)} measured tasks"
    for t, shots in zip(meas, rec):
        if len(shots) != t["shots"]:
            return f"runner returned {len(shots)} shots, {t['shots']} requested"
        mask = _definite_mask(t["circuit"])
        for s in shots:
            if len(s) != t["circuit"]["n"] or any(m is not None and m != b for m, b in zip(mask, s)):
                return f"sampled bitstring {s} has probability 0 for circuit {t['circuit']}"
    return None


def compare(c, out, resp):
    pairs = _model_pairs(c, out)
    if len(pairs) != len(resp):
        return f"{len(resp)} model answers for {len(pairs)} calls"
    for (sub, o, tag), r in zip(pairs, resp):
        msg = _compare_one(sub, o, r)
        if msg:
            return msg + (f" [{tag}]" if tag else "")
    return None


def _compare_one(c, out, r):
    if isinstance(r, dict) and "driver_error" in r:
        return "driver error: " + r["driver_error"]
    if isinstance(out, dict) and "exc" in out:
        return f"implementation raised unexpectedly: {out}"
    k = c["kind"]
    if k in ("averaging", "nonmeasured"):
        if isinstance(r, str) or "err" in out:
            if out.get("err") != r:
                return f"{k}: impl {out.get('err') or 'returned'} model {r if isinstance(r, str) else 'returned'}"
            return None
        if k == "averaging":
            law = _sampler_law(c, out)
            if law:
                return "assumed runner law violated: " + law
        tol = Fraction(0) if (k == "nonmeasured" or _all_definite(c)) else TOL
        if len(out["res"]) != len(r):
            return f"{k}: impl returned {len(out['res'])} results, model {len(r)}"
        for i, (a, b) in enumerate(zip(out["res"], r)):
            if a is None or b is None:
                if a != b:
                    return f"{k}: result {i} impl {a} model {b}"
            elif _vals_differ(a, b, tol):
                return f"{k}: result {i} impl {a} model {b}"
    elif k == "exact":
        if isinstance(r, str) or "err" in out:
            if out.get("err") != r:
                return f"exact: impl {out.get('err') or 'returned'} model {r if isinstance(r, str) else 'returned'}"
            return None
        if len(out["res"]) != len(r):
            return f"exact: impl returned {len(out['res'])} results, model {len(r)}"
        for i, (a, b) in enumerate(zip(out["res"], r)):
            mb = [common.cyc_to_complex(x) for x in b]
            if len(a) != len(mb) or any(abs(x - y) > 1e-9 for x, y in zip(a, mb)):
                return f"exact: result {i} impl {a} model {mb}"
    elif k == "split":
        for key in ("to_measure", "not_to_measure", "idx_measure", "idx_not"):
            if out.get(key) != r[key]:
                return f"split: {key} impl {out.get(key)} model {r[key]}"
    elif k == "bind":
        if isinstance(r, str) or "err" in out:
            if out.get("err") != r:
                return f"bind: impl {out.get('err') or 'returned'} model {r if isinstance(r, str) else 'returned'}"
            return None
        if len(out["res"]) != len(r):
            return f"bind: impl returned {len(out['res'])} tasks, model {len(r)}"
        for i, (a, b) in enumerate(zip(out["res"], r)):
            mb = {"op": [{"c": [rat(unrat(t["c"][0])), rat(unrat(t["c"][1]))], "ops": sorted(t["ops"])} for t in b["op"]],
                  "circuit": {"n": b["circuit"]["n"],
                              "gates": [[g[0], g[1], None if g[2] is None else
                                         {"const": rat(unrat(g[2]["const"])),
                                          "terms": sorted([s, rat(unrat(v))] for s, v in g[2]["terms"])}]
                                        for g in b["circuit"]["gates"]]},
                  "shots": b["shots"]}
            if common.canon(a) != common.canon(mb):
                return f"bind: task {i} impl {a} model {mb}"
    return None


# ----------------------------------------------------------------------------------------------- oracle
def _csum(op):
    re = sum((unrat(t["c"][0]) for t in op), Fraction(0))
    im = sum((unrat(t["c"][1]) for t in op), Fraction(0))
    return re, im


def _eq_exact(v, re, im=Fraction(0)):
    return unrat(v[0]) == re and unrat(v[1]) == im


def _near(v, re, im=Fraction(0)):
    return abs(unrat(v[0]) - re) <= TOL and abs(unrat(v[1]) - im) <= TOL


def _sign(bits, qs):
    s = 1
    for q in qs:
        if bits[q] == 1:
            s = -s
    return s


def _common_clauses(what, out):
    """clauses every value-returning entry point shares: the call leaves the caller's tasks as they were, and every
    task gets a result of its own (no result object / value array handed out for two positions)"""
    if out.get("inputs"):
        return (f"{what}-input-changed", f"{out['inputs']} (the results can no longer be those of the tasks passed in)")
    if out.get("aliased"):
        i, j = out["aliased"][0]
        return ("result-shared-between-tasks", f"{what}: positions {i} and {j} hold one and the same result object/array, "
                                               f"not one result per task (overwriting one overwrites the other)")
    return None


def _sample_sets(out, i, t, n_meas_before):
    """the measurements the runner delivered for task i's circuit with task i's shot count"""
    runs = out.get("runs")
    if runs is not None:
        return [r["shots"] for r in runs if i in r["tasks"] and r["n"] == t["shots"] and r["shots"]]
    rec = out.get("recorded", [])
    return [rec[n_meas_before]] if n_meas_before < len(rec) and rec[n_meas_before] else []


def _oracle_averaging(c, out):
    tasks = c["tasks"]
    kinds = [_kind(t) for t in tasks]
    if "bad" in kinds:
        return None  # outside the stated domain: only the model comparison speaks
    if "exc" in out or "err" in out:
        return ("averaging-raises", f"estimate_expectation_values_by_averaging raised on well-formed tasks: {out.get('err') or out.get('exc')} {out.get('msg', '')}")
    res = out["res"]
    if len(res) != len(tasks):
        return ("averaging-count", f"{len(res)} results for {len(tasks)} tasks")
    n_meas = 0
    for i, (t, kd, r) in enumerate(zip(tasks, kinds, res)):
        if r is None:
            return ("averaging-missing", f"no result at position {i} ({kd} task)")
        if kd == "const":
            re, im = _csum(t["op"])
            if len(r) != 1 or not _eq_exact(r[0], re, im):
                return ("constant-value", f"constant task at position {i} gave {r}, its constant is {re}+{im}j")
        elif kd == "zero":
            if len(r) != 1 or not _eq_exact(r[0], Fraction(0)):
                return ("zero-shot-value", f"zero-shot task at position {i} gave {r}, expected [0]")
        else:
            if len(r) != len(t["op"]):
                return ("term-count", f"task {i}: {len(r)} values for {len(t['op'])} terms")
            bits = _prepared_bits(t["circuit"])
            if bits is not None:
                for j, (term, v) in enumerate(zip(t["op"], r)):
                    cre, cim = unrat(term["c"][0]), unrat(term["c"][1])
                    lam = _sign(bits, [q for q, _ in term["ops"]])
                    good = _eq_exact(v, cre * lam) or (cim != 0 and _eq_exact(v, cre * lam, cim * lam))
                    if not good:
                        return ("basis-state-value", f"task {i} term {j}: basis state {bits}, coefficient {cre}+{cim}j, "
                                                     f"eigenvalue {lam}, value {v} (shots {t['shots']})")
            else:
                # a sampled circuit: the weighted mean over a set of measurements the runner delivered for this
                # circuit and this shot count (nothing to recompute from -> no verdict on this task)
                sets = _sample_sets(out, i, t, n_meas)
                bad = None
                for shots in sets:
                    bad = None
                    for j, (term, v) in enumerate(zip(t["op"], r)):
                        cre, cim = unrat(term["c"][0]), unrat(term["c"][1])
                        mean = Fraction(sum(_sign(s, [q for q, _ in term["ops"]]) for s in shots), len(shots))
                        if not (_near(v, cre * mean) or (cim != 0 and _near(v, cre * mean, cim * mean))):
                            bad = ("weighted-mean", f"task {i} term {j}: coefficient {cre}, sample mean {mean}, value {v}")
                            break
                    if bad is None:
                        break
                if bad:
                    return bad
            n_meas += 1
    return _common_clauses("averaging", out)


_R = 2 ** -0.5


def _gate_matrix(g):
    name = g[0]
    if name in ("I", "X", "Y", "Z", "H", "S", "T"):
        return {"I": [[1, 0], [0, 1]], "X": [[0, 1], [1, 0]], "Y": [[0, -1j], [1j, 0]], "Z": [[1, 0], [0, -1]],
                "H": [[_R, _R], [_R, -_R]], "S": [[1, 0], [0, 1j]], "T": [[1, 0], [0, cmath.exp(1j * cmath.pi / 4)]]}[name]
    if name in PARAM:
        th = float(unrat(g[2]["const"]))
        co, si = cmath.cos(th / 2), cmath.sin(th / 2)
        return {"RX": [[co, -1j * si], [-1j * si, co]], "RY": [[co, -si], [si, co]],
                "RZ": [[cmath.exp(-1j * th / 2), 0], [0, cmath.exp(1j * th / 2)]],
                "PHASE": [[1, 0], [0, cmath.exp(1j * th)]]}[name]
    return {"CNOT": [[1, 0, 0, 0], [0, 1, 0, 0], [0, 0, 0, 1], [0, 0, 1, 0]],
            "CZ": [[1, 0, 0, 0], [0, 1, 0, 0], [0, 0, 1, 0], [0, 0, 0, -1]],
            "SWAP": [[1, 0, 0, 0], [0, 0, 1, 0], [0, 1, 0, 0], [0, 0, 0, 1]]}[name]


def _simulable(c):
    """gates whose matrices the oracle writes down itself, all parameters numbers"""
    for g in c["gates"]:
        if g[0] in PARAM:
            if len(g) < 3 or g[2] is None or g[2]["terms"]:
                return False
        elif not ((g[0] in FIXED or g[0] in TWOQ) and (len(g) < 3 or g[2] is None)):
            return False
    return True


def _np_state(circ):
    """state vector of the circuit from |0..0>, qubit 0 the most significant bit of the index"""
    import numpy as np
    n = circ["n"]
    psi = np.zeros((2,) * n, dtype=complex)
    psi[(0,) * n] = 1
    for g in circ["gates"]:
        qs = g[1] if isinstance(g[1], list) else [g[1]]
        m = np.array(_gate_matrix(g), dtype=complex).reshape((2,) * (2 * len(qs)))
        psi = np.tensordot(m, psi, axes=(list(range(len(qs), 2 * len(qs))), qs))
        psi = np.moveaxis(psi, list(range(len(qs))), qs)
    return psi.reshape(-1)


def _quadratic_form(op, psi, n):
    """Re <psi| A |psi>: each Pauli string acts on the basis index by bit manipulation
    (X, Y flip the bit of their qubit; Z and Y contribute (-1)^bit, Y an extra i) – no matrices"""
    import numpy as np
    x = np.arange(2 ** n, dtype=np.int64)
    total = 0j
    for term in op:
        coeff = complex(float(unrat(term["c"][0])), float(unrat(term["c"][1])))
        flip, ph = 0, np.ones(2 ** n, dtype=complex)
        for q, p in term["ops"]:
            bit = (x >> (n - 1 - q)) & 1
            if p in "XY":
                flip |= 1 << (n - 1 - q)
            if p in "ZY":
                ph = ph * (1 - 2 * bit)
            if p == "Y":
                ph = ph * 1j
        total += coeff * np.sum(psi[x ^ flip].conjugate() * ph * psi)
    return total.real


def _exact_tol(op):
    return 1e-9 * max(1.0, sum(abs(complex(float(unrat(t["c"][0])), float(unrat(t["c"][1])))) for t in op))


def _oracle_exact(c, out):
    tasks = c["tasks"]
    for t in tasks:
        cc = t["circuit"]
        if not (_simulable(cc) and cc["n"] >= 1 and _op_width(t) <= cc["n"]):
            return None
    if "exc" in out or "err" in out:
        return ("exact-raises", f"calculate_exact_expectation_values raised on well-formed tasks: {out}")
    if len(out["res"]) != len(tasks):
        return ("exact-count", f"{len(out['res'])} results for {len(tasks)} tasks")
    for i, (t, r) in enumerate(zip(tasks, out["res"])):
        want = _quadratic_form(t["op"], _np_state(t["circuit"]), t["circuit"]["n"])
        if len(r) != 1 or abs(r[0] - want) > _exact_tol(t["op"]):
            return ("exact-value", f"task {i}: exact value {r}, quadratic form {want}")
    return _common_clauses("exact", out)


def _oracle_split(c, out):
    tasks = c["tasks"]
    if any(not _is_const(t) and (t["shots"] is None or t["shots"] < 0) for t in tasks):
        return None  # None / negative shot counts are outside the stated domain
    if "exc" in out or "err" in out:
        return ("split-raises", f"split_estimation_tasks_to_measure raised: {out}")
    notm = [i for i, t in enumerate(tasks) if _is_const(t) or (t["shots"] == 0 and t["shots"] is not None)]
    m = [i for i in range(len(tasks)) if i not in notm]
    if out["idx_measure"] != m or out["idx_not"] != notm:
        return ("split-partition", f"indices {out['idx_measure']} / {out['idx_not']}, expected {m} / {notm}")
    if out["to_measure"] != m or out["not_to_measure"] != notm or out["len_m"] != len(m) or out["len_nm"] != len(notm):
        return ("split-remembered-index", "a returned task is not the task at its remembered index")
    if out.get("inputs"):
        return ("split-input-changed", f"{out['inputs']} after the caller emptied the four lists it was given back "
                                       f"(the remembered indices no longer point at the tasks)")
    return None


def _oracle_nonmeasured(c, out):
    tasks = c["tasks"]
    kinds = [_kind(t) for t in tasks]
    if any(kd not in ("const", "zero") for kd in kinds):
        return None
    if "exc" in out or "err" in out:
        return ("nonmeasured-raises", f"evaluate_non_measured_estimation_tasks raised: {out}")
    if len(out["res"]) != len(tasks):
        return ("nonmeasured-count", f"{len(out['res'])} results for {len(tasks)} tasks")
    for i, (t, kd, r) in enumerate(zip(tasks, kinds, out["res"])):
        re, im = _csum(t["op"]) if kd == "const" else (Fraction(0), Fraction(0))
        if len(r) != 1 or not _eq_exact(r[0], re, im):
            return ("constant-value" if kd == "const" else "zero-shot-value", f"task {i} ({kd}) gave {r}, expected {re}+{im}j")
    return _common_clauses("nonmeasured", out)


def _bind_form(p, m):
    md = {s: unrat(v) for s, v in m}
    const = unrat(p["const"])
    terms = []
    for s, a in p["terms"]:
        if s in md:
            const += unrat(a) * md[s]
        else:
            terms.append([s, rat(unrat(a))])
    return {"const": rat(const), "terms": sorted(terms)}


def _oracle_bind(c, out):
    tasks, maps = c["tasks"], c["maps"]
    if len(maps) == 1:
        maps = maps * len(tasks)  # a single map is used for every task
    elif len(maps) != len(tasks):
        # neither one map nor one per task: must be rejected, never answered with fewer (or other) tasks
        if out.get("err") == "err:value":
            return None
        return ("bind-maps-shorter-than-tasks" if len(maps) < len(tasks) else "bind-length-mismatch-accepted",
                f"{len(tasks)} tasks and {len(maps)} symbol maps: expected ValueError, got "
                f"{len(out['res']) if 'res' in out else out} task(s)")
    if "exc" in out or "err" in out:
        return ("bind-raises", f"evaluate_estimation_circuits raised: {out}")
    res = out["res"]
    if len(res) != len(tasks):
        return ("bind-maps-shorter-than-tasks" if len(res) < len(tasks) else "bind-count",
                f"{len(tasks)} tasks and {len(c['maps'])} symbol map(s): {len(res)} tasks returned")
    if not out.get("inputs_intact", True):
        return ("bind-mutates-input", f"binding changed something else: {out.get('inputs') or 'the input tasks were modified'}")
    if out.get("maps"):
        return ("bind-mutates-maps", f"binding changed something else: {out['maps']}")
    for i, (t, m, r) in enumerate(zip(tasks, maps, res)):
        want = {"n": t["circuit"]["n"],
                "gates": [[g[0], g[1], None if len(g) < 3 or g[2] is None else _bind_form(g[2], m)] for g in t["circuit"]["gates"]]}
        if common.canon(r["circuit"]) != common.canon(want):
            return ("bind-own-map", f"task {i}: circuit {r['circuit']} is not its circuit bound with its own map {m}: {want}")
        if not out["op_same"][i] or r["shots"] != t["shots"]:
            return ("bind-changes-else", f"task {i}: operator or shot count changed ({r['shots']} vs {t['shots']})")
    return None


def _pipeline_bits(circ, m):
    """basis state prepared by X/Y/Z gates and rotations whose angle is (const + sum a_s*s) * pi with every symbol
    bound to an integer: RX / RY flip the qubit iff the multiple of pi is odd; None if not such a circuit"""
    md = {s: unrat(v) for s, v in m}
    bits = [0] * circ["n"]
    for g in circ["gates"]:
        if g[0] in ("X", "Y"):
            bits[g[1]] ^= 1
        elif g[0] in ("Z", "S", "T", "I"):
            pass
        elif g[0] in PARAM and len(g) > 2 and g[2] is not None:
            k = unrat(g[2]["const"])
            for s, a in g[2]["terms"]:
                if s not in md:
                    return None
                k += unrat(a) * md[s]
            if k.denominator != 1:
                return None
            if g[0] in ("RX", "RY") and k % 2 == 1:
                bits[g[1]] ^= 1
        else:
            return None
    return bits


def _oracle_pipeline(c, out):
    tasks, maps = c["tasks"], c["maps"]
    if len(maps) == 1:
        maps = maps * len(tasks)
    if len(maps) != len(tasks):
        return None
    prepared = [_pipeline_bits(t["circuit"], m) for t, m in zip(tasks, maps)]
    kinds = []
    for t, bits in zip(tasks, prepared):
        if _is_const(t):
            kinds.append("const")
        elif t["shots"] == 0:
            kinds.append("zero")
        elif bits is not None and isinstance(t["shots"], int) and t["shots"] > 0 and _is_ising(t) and _op_width(t) <= t["circuit"]["n"]:
            kinds.append("meas")
        else:
            return None
    if any(b is None for b in prepared):
        return None
    if "exc" in out or "err" in out or "avg_err" in out or "exact_err" in out:
        return ("pipeline-raises", f"bind -> estimate -> exact raised on well-formed tasks: {out}")
    if out["bound"] != len(tasks) or len(out["avg"]) != len(tasks) or len(out["exact"]) != len(tasks):
        return ("pipeline-count", f"{len(tasks)} tasks: {out['bound']} bound, {len(out['avg'])} estimated, {len(out['exact'])} exact")
    for i, (t, kd, bits, r, ex) in enumerate(zip(tasks, kinds, prepared, out["avg"], out["exact"])):
        if r is None:
            return ("averaging-missing", f"no result at position {i}")
        if kd == "const":
            re, im = _csum(t["op"])
            if len(r) != 1 or not _eq_exact(r[0], re, im):
                return ("constant-value", f"constant task at position {i} gave {r}, its constant is {re}+{im}j")
        elif kd == "zero":
            if len(r) != 1 or not _eq_exact(r[0], Fraction(0)):
                return ("zero-shot-value", f"zero-shot task at position {i} gave {r}, expected [0]")
        else:
            if len(r) != len(t["op"]):
                return ("term-count", f"task {i}: {len(r)} values for {len(t['op'])} terms")
            for j, (term, v) in enumerate(zip(t["op"], r)):
                cre, cim = unrat(term["c"][0]), unrat(term["c"][1])
                lam = _sign(bits, [q for q, _ in term["ops"]])
                if not (_eq_exact(v, cre * lam) or (cim != 0 and _eq_exact(v, cre * lam, cim * lam))):
                    return ("basis-state-value", f"task {i} term {j}: its circuit bound with its own map {maps[i]} prepares "
                                                 f"{bits}, coefficient {cre}, eigenvalue {lam}, value {v}")
        # exact value = quadratic form with the basis state = sum of Re(coefficient) * eigenvalue (Z-type terms)
        if _is_ising(t) and _op_width(t) <= t["circuit"]["n"]:
            want = float(sum(unrat(term["c"][0]) * _sign(bits, [q for q, _ in term["ops"]]) for term in t["op"]))
            if len(ex) != 1 or abs(ex[0] - want) > _exact_tol(t["op"]):
                return ("exact-value", f"task {i}: its circuit bound with its own map prepares {bits}: exact value {ex}, quadratic form {want}")
    return None


def _oracle_route(c, out):
    """of the other routes only the simulator's own get_exact_expectation_values is the subject of this property
    ('exact expectation values from a simulator equal the state's quadratic form with the operator')"""
    if c["route"] != "exact_direct":
        return None
    for t in c["tasks"]:
        cc = t["circuit"]
        if not (_simulable(cc) and cc["n"] >= 1 and _op_width(t) <= cc["n"]):
            return None
    if "exc" in out or "err" in out:
        return ("exact-raises", f"get_exact_expectation_values raised on a well-formed circuit and operator: {out}")
    vals = out.get("values", [])
    if len(vals) != len(c["tasks"]):
        return ("exact-count", f"{len(vals)} values for {len(c['tasks'])} calls")
    for i, (t, v) in enumerate(zip(c["tasks"], vals)):
        want = _quadratic_form(t["op"], _np_state(t["circuit"]), t["circuit"]["n"])
        if abs(v - want) > _exact_tol(t["op"]):
            return ("exact-value", f"simulator.get_exact_expectation_values(circuit, operator) of task {i}: {v}, quadratic form {want}")
    return None


_ORACLES = {"averaging": _oracle_averaging, "exact": _oracle_exact, "split": _oracle_split,
            "nonmeasured": _oracle_nonmeasured, "bind": _oracle_bind, "pipeline": _oracle_pipeline,
            "route": _oracle_route}


def _step_label(st):
    if st["kind"] == "route":
        lab = st["route"]
        if st["route"] in ("wf0", "wf_init"):
            lab += "[" + st["init"]["kind"] + "]"
        extra = [x for x in ("fresh", "edit") if st.get(x)]
        return lab + ("(" + ",".join(f"{x}={st[x]}" for x in extra) + ")" if extra else "")
    if st["kind"] == "mutate":
        return "in-place:" + st["what"]
    return (st["kind"] + ("(fresh objects)" if st.get("fresh") else "") + ("x2" if st.get("again") else "")
            + ("(results overwritten)" if st.get("scribble") else ""))


def oracle(c, out):
    """the property's own sentences, on the implementation's output only"""
    if not isinstance(out, dict):
        return ("no-output", "implementation produced no output")
    if c["kind"] in ("session", "history") and "steps" not in out:
        return ("session-raises", f"a sequence of calls on well-formed tasks raised: {out}")
    if c["kind"] == "history":
        for st, o in zip(c["steps"], out["steps"]):
            if st["kind"] == "mutate" and not (isinstance(o, dict) and o.get("mutated")):
                return None  # the harness could not make the in-place edit: nothing after it can be judged
    n = 0
    for sub, o, tag in _steps(c, out):
        n += 1
        if sub["kind"] not in _ORACLES:
            continue
        res = _ORACLES[sub["kind"]](sub, o)
        if res is not None:
            where = ""
            if c["kind"] == "session":
                where = f"call {n} of the sequence ({sub['kind']}, same runner and objects as the calls before): "
            if c["kind"] == "history":
                idx = next(i for i, st in enumerate(c["steps"]) if st is sub)
                trail = " -> ".join(_step_label(st) for st in c["steps"][:idx]) or "nothing"
                where = (f"step {idx + 1} of a history on ONE {c.get('sim') or c.get('runner') or 'symbolic'} runner object and one "
                         f"pool of task objects ({_step_label(sub)} after: {trail}); judged on the tasks' current content: ")
            if tag:
                where += "second identical call after the caller overwrote the first call's results: "
            return (res[0] + tag, where + res[1])
    return None


def distribution(cases, outs):
    mix, lens, errs, feats = {}, {}, {}, {}

    def feat(name):
        feats[name] = feats.get(name, 0) + 1
    hist = {"histories": 0, "runner_object": {}, "steps_per_history": {}, "estimation_calls": {}, "other_routes": {},
            "caller_edits_of_returned_objects": {}, "initial_states": {}, "on_equal_but_distinct_objects": 0,
            "in_place_edits_of_task_objects": {}, "in_place_edits_not_applied": 0,
            "estimation_calls_after_another_route_or_edit": 0, "other_route_raised": 0}

    def bump(d, k):
        d[k] = d.get(k, 0) + 1
    for c, o in zip(cases, outs):
        if c["kind"] != "history":
            continue
        hist["histories"] += 1
        bump(hist["runner_object"], c.get("sim") or c.get("runner") or "symbolic")
        bump(hist["steps_per_history"], str(len(c["steps"])))
        seen_other = False
        for st, so in zip(c["steps"], (o or {}).get("steps", []) if isinstance(o, dict) else []):
            if st["kind"] == "route":
                bump(hist["other_routes"], st["route"])
                if st.get("edit"):
                    bump(hist["caller_edits_of_returned_objects"], st["route"] + ":" + st["edit"])
                if "init" in st:
                    bump(hist["initial_states"], st["init"]["kind"])
                if isinstance(so, dict) and so.get("err"):
                    hist["other_route_raised"] += 1
            elif st["kind"] == "mutate":
                bump(hist["in_place_edits_of_task_objects"], st["what"])
                if not (isinstance(so, dict) and so.get("mutated")):
                    hist["in_place_edits_not_applied"] += 1
            else:
                bump(hist["estimation_calls"], st["kind"])
                if st.get("again") or st.get("scribble"):
                    bump(hist["caller_edits_of_returned_objects"], st["kind"] + ":overwritten" + ("+repeated" if st.get("again") else ""))
                if seen_other:
                    hist["estimation_calls_after_another_route_or_edit"] += 1
            if st.get("fresh"):
                hist["on_equal_but_distinct_objects"] += 1
            if st["kind"] in _OTHER_STEPS and st.get("route") != "exact_direct":
                seen_other = True
            elif st["kind"] == "route" and seen_other:
                hist["estimation_calls_after_another_route_or_edit"] += 1
    for c, o in zip(cases, outs):
        subs = c["steps"] if c["kind"] in ("session", "history") else [c]
        if c["kind"] == "averaging":
            key = "+".join(sorted({_kind(t) for t in c["tasks"]})) or "empty"
            mix[key] = mix.get(key, 0) + 1
        for sub in subs:
            n = len(sub["tasks"])
            lens[n] = lens.get(n, 0) + 1
            if sub.get("again"):
                feat("repeated_call")
        for name in ("share", "nomodel", "runner", "mapnum"):
            if c.get(name):
                feat(f"{name}={c[name]}")
        if c["kind"] not in ("session", "history") and any(t.get("num") for t in c["tasks"]):
            feat("numpy_or_int_numbers")
        if isinstance(o, dict) and o.get("err"):
            errs[o["err"]] = errs.get(o["err"], 0) + 1
    return {"averaging_task_mixtures": mix, "task_list_lengths": {str(k): v for k, v in sorted(lens.items())},
            "error_kinds_hit": errs, "features": feats, "histories_on_one_runner_object": hist,
            "sampled_circuits": sum(1 for c in cases if c["kind"] == "averaging" and not _all_definite(c))}
