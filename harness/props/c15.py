"""C15 — estimation returns one correctly weighted result per task, in task order."""
import cmath
from fractions import Fraction

from .. import common
from ..common import rat, unrat

PROP = "C15"
RULE = ("seeded random task lists per entry point (averaging / exact / split / nonmeasured / bind): interleavings of "
        "constant-operator, zero-shot and measurable tasks, Ising operators with dyadic (sometimes complex) "
        "coefficients, circuits of X/Y/Z/S/T layers (basis states) and H layers (sampled), shots 1-50, plus a "
        "malformed stream (None / negative shots, non-Ising measured operator, operator wider than the circuit, "
        "unbound symbols); non-trivial: an averaging or split list containing all three task kinds, an exact list "
        "with >=2 tasks one of which has an X/Y term, a bind list with >=2 tasks and pairwise different maps (or a single broadcast map), a "
        "nonmeasured list with both a constant and a zero-shot task; distinct = distinct canonical JSON of the case")
TRUSTED = [
    "the circuit runner returns one Measurements object per submitted circuit, in order (CircuitRunner protocol): "
    "hypothesis `hlaw` of result_at_index / measured_value_weighted, field RunnerLaw.onePer",
    "rng.choice(size=n, p=probs) never returns an outcome of probability 0 (RunnerLaw.support): a circuit preparing the "
    "basis state b is measured as copies of b only (hypothesis of basis_state_value / basis_state_exact; checked on "
    "every recorded batch of this run; runner_law_satisfiable proves the law for the runner the driver executes)",
    "the wavefunction simulator (get_wavefunction) and get_sparse_operator are parameters of exact_eq_quadratic_form "
    "(their correctness is the subject of C01/C04/C09); the driver instantiates them with product states of one-qubit "
    "gates and the Kronecker definition of Pauli strings (opMatrix, about which exact_basis_ising is proved), compared "
    "with the real code at 1e-9",
    "Circuit.bind is a parameter of bind_tasks_pointwise / bind_tasks_broadcast (its meaning is C06); the driver instantiates it with "
    "substitution into linear gate parameters",
    "float arithmetic is exact on the dyadic coefficients used with basis states; sampled means are compared at 1e-9",
]
ASSUMPTIONS = [
    "coefficients are Gaussian rationals; measured values keep the real part only (expectation_values_to_real), "
    "so 'coefficient times eigenvalue' is stated for real coefficients and 'Re(coefficient) times eigenvalue' in general",
    "only ExpectationValues.values are modelled (correlations / covariances are C10)",
    "circuits have at least one qubit",
]

TOL = Fraction(1, 10 ** 9)
FIXED = ("X", "Y", "Z", "H", "S", "T", "I")
PARAM = ("RX", "RY", "RZ", "PHASE")


# ----------------------------------------------------------------------------------------------- building
def _lib():
    common.use_repo()
    import sympy
    from orquestra.quantum import circuits as C
    from orquestra.quantum.api.estimation import EstimationTask
    from orquestra.quantum.estimation import _estimation as E
    from orquestra.quantum.operators import PauliSum, PauliTerm
    from orquestra.quantum.runners.symbolic_simulator import SymbolicSimulator
    return sympy, C, EstimationTask, E, PauliSum, PauliTerm, SymbolicSimulator


def _coeff(c):
    re, im = unrat(c[0]), unrat(c[1])
    return float(re) if im == 0 else complex(float(re), float(im))


def _build_op(t):
    _, _, _, _, PauliSum, PauliTerm, _ = _lib()
    terms = [PauliTerm({int(q): p for q, p in term["ops"]}, _coeff(term["c"])) for term in t["op"]]
    if t.get("term"):
        assert len(terms) == 1
        return terms[0]
    return PauliSum(terms)


def _build_param(p):
    sympy = _lib()[0]
    if not p["terms"]:
        return float(unrat(p["const"]))
    e = sympy.Float(float(unrat(p["const"]))) if unrat(p["const"]) != 0 else sympy.Integer(0)
    for s, a in p["terms"]:
        e = e + float(unrat(a)) * sympy.Symbol(s)
    return e


def _build_circuit(c):
    C = _lib()[1]
    ops = []
    for g in c["gates"]:
        ctor = getattr(C, g[0])
        if len(g) > 2 and g[2] is not None:
            ops.append(ctor(_build_param(g[2]))(g[1]))
        else:
            ops.append(ctor(g[1]))
    return C.Circuit(ops, n_qubits=c["n"])


def _build_task(t, circuits=None):
    EstimationTask = _lib()[2]
    if circuits is None:
        circ = _build_circuit(t["circuit"])
    else:
        # tasks with the same circuit spec share ONE Circuit object (as in a parameter scan / gradient)
        key = common.canon(t["circuit"])
        if key not in circuits:
            circuits[key] = _build_circuit(t["circuit"])
        circ = circuits[key]
    return EstimationTask(_build_op(t), circ, t["shots"])


def _canon_param(p):
    sympy = _lib()[0]
    e = sympy.sympify(p)
    syms = sorted(e.free_symbols, key=str)
    const = Fraction(float(e.subs({s: 0 for s in syms})))
    terms = []
    for s in syms:  # the parameters used here are linear forms
        a = Fraction(float(e.coeff(s)))
        if a != 0:
            terms.append([str(s), rat(a)])
    return {"const": rat(const), "terms": sorted(terms)}


def _canon_circuit(circ):
    gates = []
    for op in circ.operations:
        g = [op.gate.name, int(op.qubit_indices[0])]
        g.append(_canon_param(op.params[0]) if op.params else None)
        gates.append(g)
    return {"n": int(circ.n_qubits), "gates": gates}


def _canon_op(op):
    out = []
    for term in op.terms:
        c = complex(term.coefficient)
        out.append({"c": [rat(Fraction(c.real)), rat(Fraction(c.imag))],
                    "ops": sorted([int(q), p] for q, p in term._ops.items())})
    return out


def _cval(v):
    z = complex(v)
    return [rat(Fraction(z.real)), rat(Fraction(z.imag))]


class _Recorder:
    """a CircuitRunner that forwards to the real simulator and remembers what it returned"""

    def __init__(self, inner):
        self.inner, self.recorded, self.requests = inner, [], None

    def run_batch_and_measure(self, circuits, n_samples):
        self.requests = list(n_samples) if not isinstance(n_samples, int) else n_samples
        res = self.inner.run_batch_and_measure(circuits, n_samples)
        self.recorded = [[[int(b) for b in bits] for bits in m.bitstrings] for m in res]
        return res


_EXC = {ValueError: "err:value", TypeError: "err:type", IndexError: "err:index", RuntimeError: "err:runtime"}


def _stub_runner():
    """a runner built on BaseCircuitRunner that executes X/Y/Z-only circuits classically (exactly n copies of the
    prepared basis state) – lets wide registers be estimated without simulating 2^n amplitudes"""
    common.use_repo()
    from orquestra.quantum.api.circuit_runner import BaseCircuitRunner
    from orquestra.quantum.measurements import Measurements

    class Stub(BaseCircuitRunner):
        def _run_and_measure(self, circuit, n_samples):
            bits = [0] * circuit.n_qubits
            for op in circuit.operations:
                if op.gate.name in ("X", "Y"):
                    bits[op.qubit_indices[0]] ^= 1
                elif op.gate.name not in ("Z", "I"):
                    raise ValueError("stub runner executes X/Y/Z/I circuits only")
            return Measurements([tuple(bits)] * n_samples)
    return Stub()


def _err(e):
    for k, v in _EXC.items():
        if type(e) is k:
            return {"err": v, "msg": str(e)[:120]}
    raise e


# ----------------------------------------------------------------------------------------------- task facts
def _is_const(t):
    return all(not term["ops"] for term in t["op"])


def _is_ising(t):
    return all(p == "Z" for term in t["op"] for _, p in term["ops"])


def _op_width(t):
    return max([q + 1 for term in t["op"] for q, _ in term["ops"]], default=0)


def _has_free(c):
    return any(len(g) > 2 and g[2] is not None and g[2]["terms"] for g in c["gates"])


def _fixed_only(c):
    return all(g[0] in FIXED and (len(g) < 3 or g[2] is None) for g in c["gates"])


def _kind(t):
    """'const' | 'zero' | 'meas' | 'bad' (outside the stated domain)"""
    if _is_const(t):
        return "const"
    if t["shots"] == 0 and t["shots"] is not None:
        return "zero"
    c = t["circuit"]
    ok = (isinstance(t["shots"], int) and t["shots"] > 0 and _is_ising(t) and _op_width(t) <= c["n"]
          and c["n"] >= 1 and not _has_free(c) and _fixed_only(c))
    return "meas" if ok else "bad"


def _prepared_bits(c):
    """the basis state an X/Y/Z/S/T circuit prepares (None if an H makes it a superposition)"""
    bits = [0] * c["n"]
    for g in c["gates"]:
        if g[0] == "H":
            return None
        if g[0] in ("X", "Y"):
            bits[g[1]] ^= 1
    return bits


def _definite_mask(c):
    """per qubit: prepared bit if no H touched it, else None (only X/Y/Z/S/T/H circuits)"""
    bits, touched = [0] * c["n"], [False] * c["n"]
    for g in c["gates"]:
        if g[0] == "H":
            touched[g[1]] = True
        if g[0] in ("X", "Y"):
            bits[g[1]] ^= 1
    return [None if tc else b for b, tc in zip(bits, touched)]


# ----------------------------------------------------------------------------------------------- corpus / generation
def _term(c, ops, im=0):
    return {"c": [rat(c), rat(im)], "ops": [[q, p] for q, p in ops]}


def _circ(n, gates):
    return {"n": n, "gates": [list(g) for g in gates]}


def corpus():
    c3 = _circ(3, [["X", 0], ["X", 2]])
    meas = {"op": [_term(2, [(0, "Z")]), _term(3, [(1, "Z"), (2, "Z")]), _term(4, [])], "circuit": c3, "shots": 5}
    return [
        # F12 (fixed): the empty sum and an unsimplified constant sum as constant tasks
        {"kind": "averaging", "seed": 1, "tasks": [
            {"op": [], "circuit": c3, "shots": 7},
            {"op": [_term(2, []), _term(3, [])], "circuit": c3, "shots": 3},
            meas,
            {"op": [_term(2, [(0, "Z")])], "term": True, "circuit": c3, "shots": 0}]},
        {"kind": "averaging", "seed": 2, "tasks": [meas, {"op": [_term("3/2", [], 1)], "term": True, "circuit": c3, "shots": None}]},
        {"kind": "averaging", "seed": 3, "tasks": []},
        {"kind": "averaging", "seed": 4, "tasks": [{"op": [_term(2, [(0, "Z")])], "circuit": c3, "shots": None}]},
        {"kind": "averaging", "seed": 5, "tasks": [{"op": [_term(2, [(0, "X")])], "circuit": c3, "shots": 3}]},
        {"kind": "averaging", "seed": 6, "tasks": [{"op": [_term(2, [(5, "Z")])], "circuit": c3, "shots": 3}]},
        {"kind": "averaging", "seed": 7, "tasks": [
            {"op": [_term("1/2", [(0, "Z")]), _term(-1, [(0, "Z"), (1, "Z")])], "circuit": _circ(2, [["H", 0], ["X", 1]]), "shots": 16}]},
        {"kind": "nonmeasured", "tasks": [{"op": [], "circuit": c3, "shots": 1}, {"op": [_term(2, [(0, "Z")])], "circuit": c3, "shots": 0}]},
        {"kind": "nonmeasured", "tasks": [{"op": [_term(2, [(0, "Z")])], "circuit": c3, "shots": 4}]},
        {"kind": "split", "tasks": [meas, {"op": [], "circuit": c3, "shots": 7}, dict(meas, shots=0), meas]},
        {"kind": "exact", "tasks": [meas, {"op": [_term(2, [(0, "X")])], "term": True, "circuit": _circ(1, [["H", 0]]), "shots": None},
                                    {"op": [_term(2, [(0, "Y")])], "term": True, "circuit": _circ(1, [["H", 0], ["S", 0]]), "shots": None}]},
        {"kind": "exact", "tasks": [{"op": [_term(1, [(4, "Z")])], "circuit": c3, "shots": 0}]},
        {"kind": "bind", "tasks": [
            {"op": [_term(1, [(0, "Z")])], "circuit": _circ(2, [["RX", 0, {"const": "3/2", "terms": [["t", "1/2"], ["u", "1/4"]]}], ["X", 1]]), "shots": 3},
            {"op": [], "circuit": _circ(1, [["RZ", 0, {"const": 0, "terms": [["t", 2]]}]]), "shots": None}],
         "maps": [[["t", 2]], [["t", "1/2"], ["zz", 1]]]},
        # a single map for three tasks (fixed in 05054e7: zip used to drop two tasks; the map is used for all)
        {"kind": "bind", "tasks": [
            {"op": [_term(1, [(0, "Z")])], "circuit": _circ(1, [["RX", 0, {"const": 0, "terms": [["t", 1]]}]]), "shots": 3}] * 3,
         "maps": [[["t", 1]]]},
    ]


def _rand_coeff(rng, allow_complex=True):
    re = Fraction(rng.choice([k for k in range(-32, 33) if k != 0]), 8)
    im = Fraction(rng.randrange(-16, 17), 8) if allow_complex and rng.random() < 0.12 else Fraction(0)
    return re, im


def _rand_ising_op(rng, n, wide=False):
    terms = []
    for _ in range(rng.randrange(1, 5)):
        k = rng.randrange(1, n + 1)
        qs = sorted(rng.sample(range(n), k))
        if wide and rng.random() < 0.7:
            qs = sorted(set(qs) | {n + rng.randrange(0, 3)})
        re, im = _rand_coeff(rng)
        terms.append(_term(re, [(q, "Z") for q in qs], im))
    if rng.random() < 0.3:  # a constant term inside a non-constant operator
        re, im = _rand_coeff(rng)
        terms.insert(rng.randrange(len(terms) + 1), _term(re, [], im))
    if rng.random() < 0.15:  # an unsimplified duplicate
        terms.append(dict(rng.choice(terms)))
    return terms


def _rand_pauli_op(rng, n):
    terms = []
    for _ in range(rng.randrange(1, 4)):
        qs = sorted(rng.sample(range(n), rng.randrange(0, n + 1)))
        re, im = _rand_coeff(rng)
        terms.append(_term(re, [(q, rng.choice("XYZ")) for q in qs], im))
    return terms


def _rand_const_op(rng):
    k = rng.choice([0, 1, 1, 2, 3])
    return [_term(*_rand_coeff_pair(rng)) for _ in range(k)]


def _rand_coeff_pair(rng):
    re, im = _rand_coeff(rng)
    return re, [], im


def _rand_circuit(rng, n, basis=None, rich=False):
    gates = []
    if basis is None:
        basis = rng.random() < 0.7
    for q in range(n):
        if rng.random() < 0.55:
            gates.append(["X", q])
    for _ in range(rng.randrange(0, 3)):
        gates.append([rng.choice(["X", "Z", "Y", "S", "T"] if rich else ["X", "Z", "X", "Y"]), rng.randrange(n)])
    if not basis:
        for q in rng.sample(range(n), rng.randrange(1, n + 1)):
            gates.insert(rng.randrange(len(gates) + 1), ["H", q])
    return _circ(n, gates)


def _maybe_term(rng, op):
    t = {"op": op}
    if len(op) == 1 and rng.random() < 0.5:
        t["term"] = True
    return t


def _rand_task(rng, kind, nmax):
    n = rng.randrange(1, nmax + 1)
    circ = _rand_circuit(rng, n)
    if kind == "const":
        t = _maybe_term(rng, _rand_const_op(rng))
        t["shots"] = rng.choice([None, 0, 1, 5, -2, rng.randrange(1, 51)])
    elif kind == "zero":
        op = _rand_ising_op(rng, n) if rng.random() < 0.7 else [x for x in _rand_pauli_op(rng, n) if x["ops"]] or [_term(1, [(0, "X")])]
        t = _maybe_term(rng, op)
        t["shots"] = 0
    elif kind == "meas":
        t = _maybe_term(rng, _rand_ising_op(rng, n))
        t["shots"] = rng.randrange(1, 51)
    else:  # malformed
        which = rng.choice(["none", "neg", "nonising", "wide", "free"])
        t = _maybe_term(rng, _rand_ising_op(rng, n, wide=(which == "wide")))
        t["shots"] = rng.randrange(1, 20)
        if which == "none":
            t["shots"] = None
        elif which == "neg":
            t["shots"] = -rng.randrange(1, 5)
        elif which == "nonising":
            t["op"] = [_term(2, [(rng.randrange(n), rng.choice("XY"))])] + t["op"]
            t.pop("term", None)
        elif which == "free":
            circ = _circ(n, circ["gates"] + [["RX", rng.randrange(n), {"const": 0, "terms": [["theta", 1]]}]])
    t["circuit"] = circ
    return t


def _rand_tasks(rng, nmax, malformed):
    k = rng.choice([0, 1, 2, 3, 3, 4, 5, 6, 8])
    kinds = [rng.choice(["const", "zero", "meas", "meas"]) for _ in range(k)]
    if k >= 3 and rng.random() < 0.7:
        kinds[:3] = ["const", "zero", "meas"]
        rng.shuffle(kinds)
    if malformed and k:
        for _ in range(rng.choice([1, 1, 2])):
            kinds[rng.randrange(k)] = "bad"
    tasks = [_rand_task(rng, kd, nmax) for kd in kinds]
    if k >= 2 and rng.random() < 0.15:  # the same task twice
        tasks[rng.randrange(k)] = tasks[rng.randrange(k)]
    return tasks


def _rand_param(rng, syms):
    ss = rng.sample(syms, rng.randrange(0, min(3, len(syms)) + 1))
    return {"const": rat(Fraction(rng.randrange(-8, 9), 4)),
            "terms": [[s, rat(Fraction(rng.choice([k for k in range(-8, 9) if k]), 4))] for s in ss]}


def _rand_bind_case(rng, nmax):
    syms = ["a", "b", "c", "t0", "t1"]
    k = rng.choice([0, 1, 2, 3, 4, 5])
    tasks = []
    for _ in range(k):
        n = rng.randrange(1, nmax + 1)
        gates = []
        for _ in range(rng.randrange(0, 5)):
            if rng.random() < 0.7:
                gates.append([rng.choice(PARAM), rng.randrange(n), _rand_param(rng, syms)])
            else:
                gates.append([rng.choice(["X", "H", "Z"]), rng.randrange(n)])
        kd = rng.choice(["const", "zero", "meas"])
        t = _rand_task(rng, kd, n)
        t["circuit"] = _circ(n, gates)
        tasks.append(t)
    nm = k
    r = rng.random()
    if r < 0.08 and k > 0:
        nm = rng.randrange(0, k)
    elif r < 0.16:
        nm = k + rng.randrange(1, 3)
    elif r < 0.30:
        nm = 1  # a single map for every task
    maps = []
    for _ in range(nm):
        ss = rng.sample(syms + ["unused"], rng.randrange(0, 5))
        maps.append([[s, rat(Fraction(rng.randrange(-8, 9), 4))] for s in ss])
    case = {"kind": "bind", "tasks": tasks, "maps": maps}
    if k >= 2 and rng.random() < 0.4:
        # parameter scan: every task holds the same circuit (one shared object), one differing map per task
        import copy
        for t in tasks[1:]:
            t["circuit"] = copy.deepcopy(tasks[0]["circuit"])
        case["share_circuits"] = True
        if nm == k:
            case["maps"] = [[[s2, rat(Fraction(rng.randrange(-8, 9), 4))] for s2 in syms] for _ in range(k)]
    return case


def _wide_case(rng):
    """basis-state tasks on 13..22 qubits whose operators hold supports differing only in digit grouping"""
    tasks = []
    for _ in range(rng.randrange(1, 4)):
        n = rng.randrange(13, 23)
        flips = rng.sample(range(n), rng.randrange(1, 6))
        a, b = rng.randrange(1, 3), rng.randrange(0, 10)
        op = []
        if a != b and 10 * a + b < n:
            op += [_term(rng.randrange(1, 5), [(a, "Z"), (b, "Z")]), _term(rng.randrange(1, 5), [(10 * a + b, "Z")])]
            if 10 * a + b not in flips:
                flips.append(10 * a + b)
        for _ in range(rng.randrange(1, 3)):
            op.append(_term(rng.randrange(-4, 5) or 1, [(q, "Z") for q in rng.sample(range(n), rng.randrange(1, 4))]))
        rng.shuffle(op)
        tasks.append({"op": op, "circuit": _circ(n, [["X", q] for q in flips]), "shots": rng.randrange(1, 9)})
    return {"kind": "averaging", "tasks": tasks, "seed": 0, "runner": "stub"}


def generate(rng, tier):
    big = tier == "thorough"
    nmax = 5 if big else 4
    cases = []
    for _ in range(3000 if big else 300):
        cases.append({"kind": "averaging", "seed": rng.randrange(2 ** 31), "tasks": _rand_tasks(rng, nmax, rng.random() < 0.2)})
    for _ in range(800 if big else 100):
        k = rng.choice([0, 1, 2, 3, 4])
        tasks = []
        for _ in range(k):
            n = rng.randrange(1, nmax + 1)
            op = _rand_pauli_op(rng, n) if rng.random() < 0.75 else _rand_ising_op(rng, n, wide=rng.random() < 0.3)
            if rng.random() < 0.1:
                op = _rand_const_op(rng)
            t = _maybe_term(rng, op)
            t["circuit"] = _rand_circuit(rng, n, basis=rng.random() < 0.3, rich=True)
            t["shots"] = rng.choice([None, 0, 10])
            tasks.append(t)
        cases.append({"kind": "exact", "tasks": tasks})
    for _ in range(800 if big else 100):
        cases.append({"kind": "split", "tasks": _rand_tasks(rng, nmax, rng.random() < 0.3)})
    for _ in range(400 if big else 60):
        k = rng.randrange(0, 6)
        tasks = [_rand_task(rng, rng.choice(["const", "zero", "const", "zero", "meas" if rng.random() < 0.15 else "zero"]), nmax) for _ in range(k)]
        cases.append({"kind": "nonmeasured", "tasks": tasks})
    for _ in range(800 if big else 100):
        cases.append(_rand_bind_case(rng, nmax))
    cases += _gen_wide(rng, tier)
    return cases


def _gen_wide(rng, tier):
    return [_wide_case(rng) for _ in range(40 if tier == "thorough" else 8)]


def nontrivial(c):
    k = c["kind"]
    kinds = {_kind(t) for t in c["tasks"]}
    if k in ("averaging", "split"):
        return {"const", "zero", "meas"} <= kinds
    if k == "exact":
        return len(c["tasks"]) >= 2 and any(p in "XY" for t in c["tasks"] for term in t["op"] for _, p in term["ops"])
    if k == "nonmeasured":
        return {"const", "zero"} <= kinds
    if k == "bind":
        ms = [common.canon(m) for m in c["maps"]]
        return len(c["tasks"]) >= 2 and ((len(ms) == len(c["tasks"]) and len(set(ms)) == len(ms)) or len(ms) == 1)
    return False


# ----------------------------------------------------------------------------------------------- implementation
def run_impl(c):
    sympy, C, EstimationTask, E, PauliSum, PauliTerm, SymbolicSimulator = _lib()
    k = c["kind"]
    # identical JSON tasks (same dict object) are built once, so that "the same task twice" is the same object
    built, tasks, shared = {}, [], ({} if c.get("share_circuits") else None)
    for t in c["tasks"]:
        if id(t) not in built:
            built[id(t)] = _build_task(t, shared)
        tasks.append(built[id(t)])
    try:
        if k == "averaging":
            rec = _Recorder(_stub_runner() if c.get("runner") == "stub" else SymbolicSimulator(seed=c["seed"]))
            try:
                res = E.estimate_expectation_values_by_averaging(rec, tasks)
            except Exception as e:
                out = _err(e)
                out["recorded"] = rec.recorded
                return out
            return {"res": [None if r is None else [_cval(v) for v in r.values] for r in res],
                    "recorded": rec.recorded, "requests": rec.requests}
        if k == "exact":
            res = E.calculate_exact_expectation_values(SymbolicSimulator(seed=0), tasks)
            return {"res": [[float(v) for v in r.values] for r in res]}
        if k == "split":
            m, nm, im, inm = E.split_estimation_tasks_to_measure(tasks)

            def ids(sub, idx):
                # identity of the returned task with the task at the remembered index
                return [i if i < len(tasks) and s is tasks[i] else -1 for s, i in zip(sub, idx)]
            return {"to_measure": ids(m, im), "not_to_measure": ids(nm, inm), "idx_measure": [int(i) for i in im],
                    "idx_not": [int(i) for i in inm], "len_m": len(m), "len_nm": len(nm)}
        if k == "nonmeasured":
            res = E.evaluate_non_measured_estimation_tasks(tasks)
            return {"res": [[_cval(v) for v in r.values] for r in res]}
        if k == "bind":
            maps = [{sympy.Symbol(s): float(unrat(v)) for s, v in m} for m in c["maps"]]
            before = [_canon_circuit(t.circuit) for t in tasks]
            res = E.evaluate_estimation_circuits(tasks, maps)
            after = [_canon_circuit(t.circuit) for t in tasks]
            return {"res": [{"op": _canon_op(r.operator), "circuit": _canon_circuit(r.circuit), "shots": r.number_of_shots}
                            for r in res],
                    "op_same": [i < len(tasks) and r.operator is tasks[i].operator for i, r in enumerate(res)],
                    "inputs_intact": before == after}
    except Exception as e:
        return _err(e)
    raise AssertionError("unknown kind")


# ----------------------------------------------------------------------------------------------- model side
def _jtask(t):
    return {"op": t["op"], "circuit": t["circuit"], "shots": t["shots"]}


def requests(c, out):
    k = c["kind"]
    tasks = [_jtask(t) for t in c["tasks"]]
    if k == "averaging":
        return [("averaging", {"tasks": tasks, "recorded": out.get("recorded", []) if isinstance(out, dict) else []})]
    if k == "exact":
        return [("exact", {"tasks": tasks})]
    if k == "split":
        return [("split", {"tasks": tasks})]
    if k == "nonmeasured":
        return [("nonmeasured", {"tasks": tasks})]
    if k == "bind":
        return [("bind", {"tasks": tasks, "maps": c["maps"]})]
    return []


def _all_definite(c):
    return all(_prepared_bits(t["circuit"]) is not None for t in c["tasks"] if _fixed_only(t["circuit"]))


def _vals_differ(a, b, tol):
    """a, b: lists of [re, im] rationals"""
    if len(a) != len(b):
        return True
    return any(abs(unrat(x[0]) - unrat(y[0])) > tol or abs(unrat(x[1]) - unrat(y[1])) > tol for x, y in zip(a, b))


def _sampler_law(c, out):
    """the assumed law of the runner on what was recorded: one batch entry per measured task, exactly the requested
    number of shots, full width, definite qubits read their prepared bit"""
    meas = [t for t in c["tasks"] if not _is_const(t) and t["shots"] != 0]
    rec = out.get("recorded", [])
    if "res" not in out:
        return None
    if len(rec) != len(meas):
        return f"runner returned {len(rec)} measurement sets for {len(meas)} measured tasks"
    for t, shots in zip(meas, rec):
        if len(shots) != t["shots"]:
            return f"runner returned {len(shots)} shots, {t['shots']} requested"
        mask = _definite_mask(t["circuit"])
        for s in shots:
            if len(s) != t["circuit"]["n"] or any(m is not None and m != b for m, b in zip(mask, s)):
                return f"sampled bitstring {s} has probability 0 for circuit {t['circuit']}"
    return None


def compare(c, out, resp):
    r = resp[0]
    if isinstance(r, dict) and "driver_error" in r:
        return "driver error: " + r["driver_error"]
    if isinstance(out, dict) and "exc" in out:
        return f"implementation raised unexpectedly: {out}"
    k = c["kind"]
    if k in ("averaging", "nonmeasured"):
        if isinstance(r, str) or "err" in out:
            if out.get("err") != r:
                return f"{k}: impl {out.get('err') or 'returned'} model {r if isinstance(r, str) else 'returned'}"
            return None
        if k == "averaging":
            law = _sampler_law(c, out)
            if law:
                return "assumed runner law violated: " + law
        tol = Fraction(0) if (k == "nonmeasured" or _all_definite(c)) else TOL
        if len(out["res"]) != len(r):
            return f"{k}: impl returned {len(out['res'])} results, model {len(r)}"
        for i, (a, b) in enumerate(zip(out["res"], r)):
            if a is None or b is None:
                if a != b:
                    return f"{k}: result {i} impl {a} model {b}"
            elif _vals_differ(a, b, tol):
                return f"{k}: result {i} impl {a} model {b}"
    elif k == "exact":
        if isinstance(r, str) or "err" in out:
            if out.get("err") != r:
                return f"exact: impl {out.get('err') or 'returned'} model {r if isinstance(r, str) else 'returned'}"
            return None
        if len(out["res"]) != len(r):
            return f"exact: impl returned {len(out['res'])} results, model {len(r)}"
        for i, (a, b) in enumerate(zip(out["res"], r)):
            mb = [common.cyc_to_complex(x) for x in b]
            if len(a) != len(mb) or any(abs(x - y) > 1e-9 for x, y in zip(a, mb)):
                return f"exact: result {i} impl {a} model {mb}"
    elif k == "split":
        for key in ("to_measure", "not_to_measure", "idx_measure", "idx_not"):
            if out.get(key) != r[key]:
                return f"split: {key} impl {out.get(key)} model {r[key]}"
    elif k == "bind":
        if isinstance(r, str) or "err" in out:
            if out.get("err") != r:
                return f"bind: impl {out.get('err') or 'returned'} model {r if isinstance(r, str) else 'returned'}"
            return None
        if len(out["res"]) != len(r):
            return f"bind: impl returned {len(out['res'])} tasks, model {len(r)}"
        for i, (a, b) in enumerate(zip(out["res"], r)):
            mb = {"op": [{"c": [rat(unrat(t["c"][0])), rat(unrat(t["c"][1]))], "ops": sorted(t["ops"])} for t in b["op"]],
                  "circuit": {"n": b["circuit"]["n"],
                              "gates": [[g[0], g[1], None if g[2] is None else
                                         {"const": rat(unrat(g[2]["const"])),
                                          "terms": sorted([s, rat(unrat(v))] for s, v in g[2]["terms"])}]
                                        for g in b["circuit"]["gates"]]},
                  "shots": b["shots"]}
            if common.canon(a) != common.canon(mb):
                return f"bind: task {i} impl {a} model {mb}"
    return None


# ----------------------------------------------------------------------------------------------- oracle
def _csum(op):
    re = sum((unrat(t["c"][0]) for t in op), Fraction(0))
    im = sum((unrat(t["c"][1]) for t in op), Fraction(0))
    return re, im


def _eq_exact(v, re, im=Fraction(0)):
    return unrat(v[0]) == re and unrat(v[1]) == im


def _near(v, re, im=Fraction(0)):
    return abs(unrat(v[0]) - re) <= TOL and abs(unrat(v[1]) - im) <= TOL


def _sign(bits, qs):
    s = 1
    for q in qs:
        if bits[q] == 1:
            s = -s
    return s


def _oracle_averaging(c, out):
    tasks = c["tasks"]
    kinds = [_kind(t) for t in tasks]
    if "bad" in kinds:
        return None  # outside the stated domain: only the model comparison speaks
    if "exc" in out or "err" in out:
        return ("averaging-raises", f"estimate_expectation_values_by_averaging raised on well-formed tasks: {out.get('err') or out.get('exc')} {out.get('msg', '')}")
    res = out["res"]
    if len(res) != len(tasks):
        return ("averaging-count", f"{len(res)} results for {len(tasks)} tasks")
    rec = iter(out.get("recorded", []))
    for i, (t, kd, r) in enumerate(zip(tasks, kinds, res)):
        shots = next(rec, None) if kd == "meas" else None
        if r is None:
            return ("averaging-missing", f"no result at position {i} ({kd} task)")
        if kd == "const":
            re, im = _csum(t["op"])
            if len(r) != 1 or not _eq_exact(r[0], re, im):
                return ("constant-value", f"constant task at position {i} gave {r}, its constant is {re}+{im}j")
        elif kd == "zero":
            if len(r) != 1 or not _eq_exact(r[0], Fraction(0)):
                return ("zero-shot-value", f"zero-shot task at position {i} gave {r}, expected [0]")
        else:
            if len(r) != len(t["op"]):
                return ("term-count", f"task {i}: {len(r)} values for {len(t['op'])} terms")
            bits = _prepared_bits(t["circuit"])
            for j, (term, v) in enumerate(zip(t["op"], r)):
                cre, cim = unrat(term["c"][0]), unrat(term["c"][1])
                qs = [q for q, _ in term["ops"]]
                if bits is not None:
                    lam = _sign(bits, qs)
                    good = _eq_exact(v, cre * lam) or (cim != 0 and _eq_exact(v, cre * lam, cim * lam))
                    if not good:
                        return ("basis-state-value", f"task {i} term {j}: basis state {bits}, coefficient {cre}+{cim}j, "
                                                     f"eigenvalue {lam}, value {v} (shots {t['shots']})")
                else:
                    if not shots:
                        return None  # nothing recorded to recompute from
                    mean = Fraction(sum(_sign(s, qs) for s in shots), len(shots))
                    good = _near(v, cre * mean) or (cim != 0 and _near(v, cre * mean, cim * mean))
                    if not good:
                        return ("weighted-mean", f"task {i} term {j}: coefficient {cre}, sample mean {mean}, value {v}")
    return None


def _np_state(circ):
    import numpy as np
    r = 2 ** -0.5
    mats = {"I": [[1, 0], [0, 1]], "X": [[0, 1], [1, 0]], "Y": [[0, -1j], [1j, 0]], "Z": [[1, 0], [0, -1]],
            "H": [[r, r], [r, -r]], "S": [[1, 0], [0, 1j]], "T": [[1, 0], [0, cmath.exp(1j * cmath.pi / 4)]]}
    qs = [np.array([1, 0], dtype=complex) for _ in range(circ["n"])]
    for g in circ["gates"]:
        qs[g[1]] = np.array(mats[g[0]], dtype=complex) @ qs[g[1]]
    psi = np.array([1], dtype=complex)
    for v in qs:  # qubit 0 is the most significant bit
        psi = np.kron(psi, v)
    return psi


def _quadratic_form(op, psi, n):
    """Re <psi| A |psi> by acting with each Pauli string on basis states"""
    total = 0j
    for term in op:
        coeff = complex(float(unrat(term["c"][0])), float(unrat(term["c"][1])))
        acc = 0j
        for x in range(2 ** n):
            if psi[x] == 0:
                continue
            y, ph = x, 1 + 0j
            for q, p in term["ops"]:
                bit = (x >> (n - 1 - q)) & 1
                if p in "XY":
                    y ^= 1 << (n - 1 - q)
                if p == "Z":
                    ph *= -1 if bit else 1
                if p == "Y":
                    ph *= -1j if bit else 1j
            acc += psi[y].conjugate() * ph * psi[x]
        total += coeff * acc
    return total.real


def _oracle_exact(c, out):
    tasks = c["tasks"]
    for t in tasks:
        cc = t["circuit"]
        if not (_fixed_only(cc) and cc["n"] >= 1 and _op_width(t) <= cc["n"]):
            return None
    if "exc" in out or "err" in out:
        return ("exact-raises", f"calculate_exact_expectation_values raised on well-formed tasks: {out}")
    if len(out["res"]) != len(tasks):
        return ("exact-count", f"{len(out['res'])} results for {len(tasks)} tasks")
    for i, (t, r) in enumerate(zip(tasks, out["res"])):
        want = _quadratic_form(t["op"], _np_state(t["circuit"]), t["circuit"]["n"])
        if len(r) != 1 or abs(r[0] - want) > 1e-9:
            return ("exact-value", f"task {i}: exact value {r}, quadratic form {want}")
    return None


def _oracle_split(c, out):
    tasks = c["tasks"]
    if any(not _is_const(t) and (t["shots"] is None or t["shots"] < 0) for t in tasks):
        return None  # None / negative shot counts are outside the stated domain
    if "exc" in out or "err" in out:
        return ("split-raises", f"split_estimation_tasks_to_measure raised: {out}")
    notm = [i for i, t in enumerate(tasks) if _is_const(t) or (t["shots"] == 0 and t["shots"] is not None)]
    m = [i for i in range(len(tasks)) if i not in notm]
    if out["idx_measure"] != m or out["idx_not"] != notm:
        return ("split-partition", f"indices {out['idx_measure']} / {out['idx_not']}, expected {m} / {notm}")
    if out["to_measure"] != m or out["not_to_measure"] != notm or out["len_m"] != len(m) or out["len_nm"] != len(notm):
        return ("split-remembered-index", "a returned task is not the task at its remembered index")
    return None


def _oracle_nonmeasured(c, out):
    tasks = c["tasks"]
    kinds = [_kind(t) for t in tasks]
    if any(kd not in ("const", "zero") for kd in kinds):
        return None
    if "exc" in out or "err" in out:
        return ("nonmeasured-raises", f"evaluate_non_measured_estimation_tasks raised: {out}")
    if len(out["res"]) != len(tasks):
        return ("nonmeasured-count", f"{len(out['res'])} results for {len(tasks)} tasks")
    for i, (t, kd, r) in enumerate(zip(tasks, kinds, out["res"])):
        re, im = _csum(t["op"]) if kd == "const" else (Fraction(0), Fraction(0))
        if len(r) != 1 or not _eq_exact(r[0], re, im):
            return ("constant-value" if kd == "const" else "zero-shot-value", f"task {i} ({kd}) gave {r}, expected {re}+{im}j")
    return None


def _bind_form(p, m):
    md = {s: unrat(v) for s, v in m}
    const = unrat(p["const"])
    terms = []
    for s, a in p["terms"]:
        if s in md:
            const += unrat(a) * md[s]
        else:
            terms.append([s, rat(unrat(a))])
    return {"const": rat(const), "terms": sorted(terms)}


def _oracle_bind(c, out):
    tasks, maps = c["tasks"], c["maps"]
    if len(maps) == 1:
        maps = maps * len(tasks)  # a single map is used for every task
    elif len(maps) != len(tasks):
        # neither one map nor one per task: must be rejected, never answered with fewer (or other) tasks
        if out.get("err") == "err:value":
            return None
        return ("bind-maps-shorter-than-tasks" if len(maps) < len(tasks) else "bind-length-mismatch-accepted",
                f"{len(tasks)} tasks and {len(maps)} symbol maps: expected ValueError, got "
                f"{len(out['res']) if 'res' in out else out} task(s)")
    if "exc" in out or "err" in out:
        return ("bind-raises", f"evaluate_estimation_circuits raised: {out}")
    res = out["res"]
    if len(res) != len(tasks):
        return ("bind-maps-shorter-than-tasks" if len(res) < len(tasks) else "bind-count",
                f"{len(tasks)} tasks and {len(c['maps'])} symbol map(s): {len(res)} tasks returned")
    if not out.get("inputs_intact", True):
        return ("bind-mutates-input", "the input tasks' circuits were modified")
    for i, (t, m, r) in enumerate(zip(tasks, maps, res)):
        want = {"n": t["circuit"]["n"],
                "gates": [[g[0], g[1], None if len(g) < 3 or g[2] is None else _bind_form(g[2], m)] for g in t["circuit"]["gates"]]}
        if common.canon(r["circuit"]) != common.canon(want):
            return ("bind-own-map", f"task {i}: circuit {r['circuit']} is not its circuit bound with its own map {m}: {want}")
        if not out["op_same"][i] or r["shots"] != t["shots"]:
            return ("bind-changes-else", f"task {i}: operator or shot count changed ({r['shots']} vs {t['shots']})")
    return None


def oracle(c, out):
    """the property's own sentences, on the implementation's output only"""
    k = c["kind"]
    if not isinstance(out, dict):
        return ("no-output", "implementation produced no output")
    if k == "averaging":
        return _oracle_averaging(c, out)
    if k == "exact":
        return _oracle_exact(c, out)
    if k == "split":
        return _oracle_split(c, out)
    if k == "nonmeasured":
        return _oracle_nonmeasured(c, out)
    if k == "bind":
        return _oracle_bind(c, out)
    return None


def distribution(cases, outs):
    mix, lens, errs = {}, {}, {}
    for c, o in zip(cases, outs):
        if c["kind"] == "averaging":
            key = "+".join(sorted({_kind(t) for t in c["tasks"]})) or "empty"
            mix[key] = mix.get(key, 0) + 1
        n = len(c["tasks"])
        lens[n] = lens.get(n, 0) + 1
        if isinstance(o, dict) and o.get("err"):
            errs[o["err"]] = errs.get(o["err"], 0) + 1
    return {"averaging_task_mixtures": mix, "task_list_lengths": {str(k): v for k, v in sorted(lens.items())},
            "error_kinds_hit": errs,
            "sampled_circuits": sum(1 for c in cases if c["kind"] == "averaging" and not _all_definite(c))}
