"""C13 — splitting, batching and recombining shots never loses or invents a shot.

Case kinds
  expand / expand_sizes / combine_bitstrings / combine_counts / batches / scale / representing
      one call of one anchored function (model-compared where the float computation is exact)
  seq        a HISTORY of such calls executed one after the other in this process; with "reuse" the argument
             objects (lists, the distribution object) are long-lived and updated in place between the calls, the
             results of a step may be modified by the caller ("touch") before the next step, and every result is
             looked at again after the last step.  Siblings differ from the previous step in one component.
  representing / scale with "eng" / "ties"
             inputs ENGINEERED per branch of the stage that corrects the rounded numbers: p*n chosen entry by entry so
             that the rounded counts overshoot / undershoot n by 1..6 (odd+1/2 and even+1/2: round half to even; 1/2 +- eps),
             rare outcomes (0 < p*n <= 1/2: weight in the draw, no shot) next to dominant ones, explicit p = 0, n = 1..20000,
             outcomes of up to 70 sites and multi-level entries; every such input is asked with SEVERAL numpy seeds so that
             each random branch (top-up on an outcome without a shot, elimination drawn on an outcome without / with too few
             shots and drawn again) is taken; weight lists whose leftover units end inside a group of equal remainders
  pipeline   expand_sample_sizes -> split_into_batches -> (a runner delivering exactly the requested shots per copy)
             -> combine_bitstrings / combine_measurement_counts with the RETURNED objects (oracle only)
Arguments are always fresh copies of the case data (never the case's own lists), so a function that modifies its
arguments cannot falsify the reference the oracle compares with.
"""
import copy
from collections import Counter
from fractions import Fraction

from .. import common
from ..common import rat, unrat

PROP = "C13"
RULE = ("seeded random inputs per mechanism (expand/expand_sizes/combine_bitstrings/combine_counts/batches/scale/"
        "representing) plus an exhaustive (n,max) grid, call histories on long-lived argument objects (seq) and "
        "expand->batch->run->combine pipelines; distributions engineered per branch of the random correction stage "
        "(overshoot / undershoot by 1..6 after rounding, outcomes with weight but no shot, half-integers, explicit zeros, "
        "n = 1..20000, wide and multi-level outcomes) each asked with 5 (thorough: 8) numpy seeds; weight lists whose cut "
        "falls inside a group of equal remainders; non-trivial: n not a multiple of max with >=2 circuits, "
        "a batch list with a ragged last batch, a distribution needing top-up or elimination, weights with a "
        "non-zero leftover, a history of >=2 calls, a pipeline with an expanded circuit; distinct = distinct "
        "canonical JSON of the case")
TRUSTED = ["np.random.choice(size=k) returns exactly k draws, never an outcome of weight 0 (law assumed in "
           "representing_length / representing_support)",
           "the random correction stage is observed on the draws that np.random.seed(s) produces for the 5 (thorough: 8) "
           "seeds s tried per engineered (distribution, n) pair, not on every possible draw (all draws: theorems "
           "representing_length / representing_support on the model and translated_representing_* on the translated code)",
           "float arithmetic is exact on the dyadic inputs used for model comparison; other inputs are checked by the oracle only"]
ASSUMPTIONS = ["Python int // and % with positive divisor = Lean Int ediv/emod",
               "distributions given to get_measurements_representing_distribution are normalised (probabilities are exact "
               "rationals summing to 1, handed over as the nearest doubles); support = outcomes with p > 0",
               "scale_and_discretize: totals below 2**52 (where the float shares still have a fractional part); "
               "from 2**52 on see finding F18 in KNOWN_FINDINGS.txt"]

P61 = 2 ** 61 - 1  # CPython: hash(x) == hash(x + P61) for ints
MODEL_MAX_SHOTS = 4000  # representing results longer than this are checked by the oracle only


class _Circ:
    """stands for a circuit: compares by content and is unhashable (exactly like orquestra's Circuit)"""
    __slots__ = ("label",)

    def __init__(self, label):
        self.label = label

    def __eq__(self, other):
        return isinstance(other, _Circ) and other.label == self.label

    __hash__ = None

    def __repr__(self):
        return f"<circuit {self.label}>"


def _lab(x):
    if isinstance(x, _Circ):
        return x.label
    try:
        return int(x)
    except Exception:
        return repr(x)


def _mods():
    common.use_repo()
    from orquestra.quantum.circuits import _itertools as it
    from orquestra.quantum.measurements import Measurements
    from orquestra.quantum.distributions import MeasurementOutcomeDistribution
    from orquestra.quantum.utils import scale_and_discretize
    return it, Measurements, MeasurementOutcomeDistribution, scale_and_discretize


# ------------------------------------------------------------------------------------------------ corpus
def corpus():
    third = [["10", "1/3"], ["11", "1/3"], ["12", "1/3"]]
    return [
        {"kind": "expand", "n": 2 ** 60 + 1, "m": 2 ** 60},  # F4 (fixed): float ceil lost a shot
        {"kind": "expand", "n": 7, "m": 3},
        {"kind": "expand_sizes", "ns": [7, 6, 1], "m": 3},
        {"kind": "batches", "ns": [5, 9, 2], "max": 2},
        {"kind": "batches", "ns": [5, 9], "max": 0},
        {"kind": "scale", "values": [1, 2, 5], "total": 16, "exact": True},
        {"kind": "representing", "dist": [["00", "1/2"], ["11", "1/2"]], "n": 3, "seed": 1},
        {"kind": "representing", "dist": [["0", "1/2"], ["1", "1/2"]], "n": 1, "seed": 2},
        {"kind": "representing", "dist": [[format(i, "03b"), "1/8"] for i in range(8)], "n": 3, "seed": 5},
        {"kind": "combine_counts", "all": [[["00", 10], ["11", 20]]] * 3, "mults": [3], "alias": True},
        {"kind": "expand_sizes", "ns": [30, 10, 5], "m": 20, "labels": [0, 0, 1]},
        {"kind": "representing", "dist": third, "n": 10, "seed": 7, "tuples": True},
        # ---- histories / siblings (one component changed, same long-lived objects)
        {"kind": "seq", "reuse": False, "steps": [{"kind": "expand", "n": 9, "m": 4 + P61}, {"kind": "expand", "n": 9, "m": 4}]},
        {"kind": "seq", "reuse": False, "steps": [{"kind": "expand", "n": 5, "m": 2 ** 60}, {"kind": "expand", "n": 5 + P61, "m": 2 ** 60}]},
        {"kind": "seq", "reuse": False, "steps": [{"kind": "expand", "n": 9, "m": 10}, {"kind": "expand", "n": 9, "m": 4}]},
        {"kind": "seq", "reuse": True, "steps": [
            {"kind": "representing", "dist": [["00", "1/2"], ["11", "1/2"]], "n": 4, "seed": 3},
            {"kind": "representing", "dist": [["00", 1], ["11", 0]], "n": 4, "seed": 3},
            {"kind": "representing", "dist": [["00", 1], ["11", 0]], "n": 7, "seed": 3}]},
        {"kind": "seq", "reuse": True, "steps": [
            {"kind": "representing", "dist": [["00", "1/2"], ["11", "1/2"]], "n": 5, "seed": 3, "touch": True},
            {"kind": "representing", "dist": [["00", "1/2"], ["11", "1/2"]], "n": 5, "seed": 4}]},
        {"kind": "seq", "reuse": False, "steps": [
            {"kind": "representing", "dist": [["1,0", "1/2"], ["0,1", "1/2"]], "n": 3, "seed": 3, "tuples": True},
            {"kind": "representing", "dist": [["10", "1/2"], ["1", "1/2"]], "n": 3, "seed": 3, "tuples": True}]},
        {"kind": "seq", "reuse": True, "steps": [
            {"kind": "scale", "values": [1, 2, 5], "total": 16, "exact": True, "touch": True},
            {"kind": "scale", "values": [1, 2, 5], "total": 16, "exact": True},
            {"kind": "scale", "values": [1, 2, 5], "total": 17, "exact": True}]},
        {"kind": "seq", "reuse": True, "steps": [
            {"kind": "combine_bitstrings", "all": [["0"], ["1", "1"], ["0", "1"]], "mults": [1, 2], "touch": True},
            {"kind": "combine_bitstrings", "all": [["0"], ["1", "1"], ["0", "1"]], "mults": [2, 1]}]},
        # ---- special shapes
        {"kind": "batches", "ns": [3, 50, 7, 1], "max": 2, "labels": [4, 4, 4, 4], "objs": "equal"},
        {"kind": "batches", "ns": [2 ** 60, 2 ** 60 + 1, 2 ** 60 - 1], "max": 3},
        {"kind": "combine_counts", "all": [[["0", 2 ** 62]], [["0", 2 ** 62], ["1", 2 ** 63 + 1]]], "mults": [2]},
        {"kind": "combine_bitstrings", "all": [["01", "10"]] * 3 + [["11"]], "mults": [3, 1], "alias": True},
        {"kind": "scale", "values": [3, 1, 2, 2], "total": 3 * 2 ** 40 + 5, "exact": True},
        {"kind": "scale", "values": ["3/1099511627776", "1/1099511627776", "4/1099511627776"], "total": 13, "exact": True},
        {"kind": "representing", "dist": [["00", "1/2"], ["01", 0], ["10", 0], ["11", "1/2"]], "n": 1, "seed": 11},
        {"kind": "representing", "dist": third, "n": 100001, "seed": 9, "tuples": True},
        {"kind": "pipeline", "labels": [0, 0, 1], "ns": [7, 3, 5], "m": 3, "batch": 2, "objs": "same"},
        # ---- the random correction stage, one (distribution, n) pair asked with several numpy seeds
        # 8 shots: 4 x 1.5 -> 2 each, 1 -> 1 (9 shots: ONE too many), three outcomes with 0.5 / 0.25 / 0.25 -> no shot but
        # weight in the draw: with seeds 0, 3, 5 the outcome drawn for elimination has no shot and is drawn again
        {"kind": "seq", "reuse": False, "steps": [
            {"kind": "representing", "n": 8, "seed": sd, "eng": "over",
             "dist": [["000", "3/16"], ["001", "1/16"], ["010", "3/16"], ["011", "1/32"], ["100", "3/16"], ["101", "1/8"],
                      ["110", "1/32"], ["111", "3/16"]]} for sd in (0, 1, 3, 5)]},
        # 4 shots: 4 x 0.5 -> 0 each (half to even), 2 -> 2: TWO too few, every top-up lands on an outcome without a shot;
        # an outcome of probability 0 is listed
        {"kind": "seq", "reuse": True, "steps": [
            {"kind": "representing", "n": 4, "seed": sd, "eng": "under",
             "dist": [["000", "1/8"], ["001", "1/8"], ["010", "1/8"], ["011", 0], ["100", "1/8"], ["111", "1/2"]]} for sd in (0, 1, 2)]},
        # 3 units for shares 0.375 x 4 and 0.75 x 2: the cut falls inside the group of four equal remainders
        {"kind": "scale", "values": [1, 2, 1, 1, 2, 1], "total": 3, "exact": True, "ties": True},
        # ---- finding F18: totals from 2**52 on, where floats have no fractional part left (see KNOWN_FINDINGS.txt)
        {"kind": "scale", "values": [1, 2, 5], "total": 2 ** 53 + 1, "exact": False},
        {"kind": "scale", "values": ["2726259306200869/9007199254740992", "2325987016849297/2251799813685248"], "total": 8032965932052385, "exact": False},
    ]


# ------------------------------------------------------------------------------------------------ generators
def _flags(rng, c, objs=True, tup=True, np_=True):
    """exotic but legal argument types, a few percent each"""
    if objs and rng.random() < 0.35:
        c["objs"] = rng.choice(["same", "equal"])
    if tup and rng.random() < 0.15:
        c["tup"] = True
    if np_ and rng.random() < 0.1:
        c["np"] = True
    return c


def _gen_expand(rng):
    m = rng.choice([1, 2, 3, 7, 2 ** 53, 2 ** 60, rng.randrange(1, 2 ** 70)])
    q = rng.randrange(0, 40)  # the number of copies is what the code materialises: keep it small
    n = rng.choice([m, m + 1, 2 * m - 1, q * m + rng.randrange(0, m), q * m + 1, max(1, q * m - 1), max(1, m - 1)])
    return {"kind": "expand", "n": n, "m": m}


def _shaped(rng, ns):
    """special shapes of a list of sample counts: all equal, first == last, sorted either way, one outlier"""
    r = rng.random()
    if len(ns) < 2 or r < 0.6:
        return ns
    if r < 0.7:
        return [ns[0]] * len(ns)
    if r < 0.8:
        return ns[:-1] + [ns[0]]
    if r < 0.87:
        return sorted(ns)
    if r < 0.94:
        return sorted(ns, reverse=True)
    lo = min(ns)
    out = [lo] * len(ns)
    out[rng.randrange(len(ns))] = max(ns) + 1
    return out


def _gen_expand_sizes(rng, kmax=7):
    k = rng.randrange(0, kmax)
    m = rng.choice([1, 2, 3, 5, 8, 100, 2 ** 55])
    ns = _shaped(rng, [rng.choice([m, m + 1, rng.randrange(1, 4 * m + 2), rng.randrange(1, 30)]) for _ in range(k)])
    if m == 2 ** 55:
        ns = [min(n, 30 * m) for n in ns]
    return {"kind": "expand_sizes", "ns": ns, "m": m}


def _gen_bitstrings(rng, tot):
    return [[format(rng.randrange(8), "03b") for _ in range(rng.randrange(0, 4))] for _ in range(tot)]


def _gen_counts(rng, tot, big=False):
    allc = []
    for _ in range(tot):
        c = Counter(format(rng.randrange(4), "02b") for _ in range(rng.randrange(1, 6)))
        if big:
            c = {k: v + rng.choice([2 ** 53, 2 ** 62, 2 ** 63, 2 ** 64 + 1]) for k, v in c.items()}
        allc.append([[k2, v] for k2, v in c.items()])
    return allc


def _gen_mults(rng, kmax=6, mumax=4):
    return [rng.randrange(1, mumax) for _ in range(rng.randrange(0, kmax))]


def _gen_batches(rng):
    k = rng.randrange(0, 12)
    ns = _shaped(rng, [rng.randrange(1, 50) for _ in range(k)])
    mx = rng.choice([1, 2, 3, 4, 5, 7, 20, 0, -1])
    return {"kind": "batches", "ns": ns, "max": mx}


def _dyadic_weights(rng, k, hi=9):
    parts = [rng.randrange(1, hi) for _ in range(k)]
    s = sum(parts)
    p2 = 1
    while p2 < s:
        p2 *= 2
    parts[-1] += p2 - s
    return parts


def _gen_scale(rng, exact=None):
    k = rng.randrange(1, 7)
    if exact is None:
        exact = rng.random() < 0.6
    if exact:
        # dyadic weights with a power-of-two sum: floats are exact, compare with the model
        parts = _dyadic_weights(rng, k)
        scale = rng.choice([1, 2, 4, 8])
        vals = [rat(Fraction(p, scale)) for p in parts]
        return {"kind": "scale", "values": vals, "total": rng.randrange(1, 200), "exact": True}
    vals = [rat(Fraction(rng.randrange(1, 1000), rng.randrange(1, 1000))) for _ in range(k)]
    return {"kind": "scale", "values": vals, "total": rng.randrange(1, 5000), "exact": False}


def _cuts(rng, nk, den):
    cuts = sorted(rng.randrange(0, den + 1) for _ in range(nk - 1))
    return [b - a for a, b in zip([0] + cuts, cuts + [den])]


def _gen_representing(rng, wmax=4):
    w = rng.randrange(1, wmax)
    nk = rng.randrange(1, min(2 ** w, 6) + 1)
    keys = rng.sample([format(i, f"0{w}b") for i in range(2 ** w)], nk)
    den = rng.choice([2, 4, 8, 16, 32])
    ps = _cuts(rng, nk, den)
    dist = [[k2, rat(Fraction(p, den))] for k2, p in zip(keys, ps)]
    return {"kind": "representing", "dist": dist, "n": rng.randrange(1, 40), "seed": rng.randrange(2 ** 31)}


def _gen_representing_tuples(rng):
    # outcomes that are tuples of small integers, not bits (entries of two digits included)
    nk = rng.randrange(2, 6)
    width = rng.randrange(1, 3)
    keys = set()
    while len(keys) < nk:
        keys.add(",".join(str(rng.choice([0, 1, 2, 9, 10, 11, 12])) for _ in range(width)))
    den = rng.choice([4, 8, 16])
    ps = _cuts(rng, nk, den)
    if rng.random() < 0.5:
        ps, den = [1] * nk, nk
    dist = [[k2, rat(Fraction(p, den))] for k2, p in zip(sorted(keys), ps)]
    return {"kind": "representing", "dist": dist, "n": rng.randrange(1, 30), "seed": rng.randrange(2 ** 31), "tuples": True}


def _gen_representing_uniform(rng):
    # uniform distributions: the rounding stage leaves a deficit / excess of several shots
    w = rng.randrange(1, 5)
    keys = [format(i, f"0{w}b") for i in range(2 ** w)]
    dist = [[k2, rat(Fraction(1, 2 ** w))] for k2 in keys]
    return {"kind": "representing", "dist": dist, "n": rng.randrange(1, 3 * 2 ** w), "seed": rng.randrange(2 ** 31)}


def _gen_representing_heavy(rng):
    """many equally likely outcomes and a shot number for which the rounding stage is off by MANY shots: the
    top-up draws the same outcome repeatedly, the elimination asks for more copies of an outcome than exist"""
    w = rng.randrange(3, 6)
    allk = [format(i, f"0{w}b") for i in range(2 ** w)]
    kk = rng.choice([8, 16, 32, rng.randrange(6, 33)])
    kk = min(kk, 2 ** w)
    keys = rng.sample(allk, kk)
    h = kk // 2
    n = rng.choice([rng.randrange(h + 1, kk), rng.randrange(h + 1, kk), h + 1, rng.randrange(1, h),
                    rng.randrange(kk + 1, kk + h), rng.randrange(kk + h + 1, 2 * kk)])
    c = {"kind": "representing", "dist": [[k2, rat(Fraction(1, kk))] for k2 in keys], "n": n, "seed": rng.randrange(2 ** 31)}
    if kk & (kk - 1):
        c["exact"] = False
    return c


def _gen_representing_partial_support(rng):
    """several outcomes of probability 0 next to a uniform support; also fewer shots than keys"""
    w = rng.randrange(2, 5)
    allk = [format(i, f"0{w}b") for i in range(2 ** w)]
    nk = rng.randrange(3, min(2 ** w, 9) + 1)
    keys = rng.sample(allk, nk)
    s = rng.choice([1, 2, 4]) if nk > 4 else rng.choice([1, 2])
    supp = set(rng.sample(keys, s))
    dist = [[k2, rat(Fraction(1, s)) if k2 in supp else 0] for k2 in keys]
    n = rng.choice([1, rng.randrange(1, nk), rng.randrange(1, 3 * nk)])
    return {"kind": "representing", "dist": dist, "n": n, "seed": rng.randrange(2 ** 31)}


def _gen_representing_wide(rng):
    """registers of 9..14 sites, a handful of outcomes"""
    w = rng.randrange(9, 15)
    nk = rng.randrange(2, 6)
    keys = set()
    while len(keys) < nk:
        keys.add(format(rng.randrange(2 ** w), f"0{w}b"))
    den = rng.choice([4, 8, 16])
    ps = _cuts(rng, nk, den) if rng.random() < 0.5 else None
    if ps is None:
        ps, den = [1] * nk, nk
    dist = [[k2, rat(Fraction(p, den))] for k2, p in zip(sorted(keys), ps)]
    return {"kind": "representing", "dist": dist, "n": rng.randrange(1, 40), "seed": rng.randrange(2 ** 31)}


def _gen_representing_inexact(rng, big=False):
    """probabilities that are not dyadic (oracle only); with big: >= 1e5 shots and an off-by-few rounding stage"""
    nk = rng.choice([3, 5, 6, 7]) if big else rng.randrange(2, 7)
    w = 3
    keys = rng.sample([format(i, f"0{w}b") for i in range(2 ** w)], nk)
    if big or rng.random() < 0.4:
        ps, den = [1] * nk, nk
    else:
        ps = [rng.randrange(1, 50) for _ in range(nk)]
        den = sum(ps)
    dist = [[k2, rat(Fraction(p, den))] for k2, p in zip(keys, ps)]
    if big:
        # n = q*nk +- 1: every outcome is rounded the same way, the rounding stage is off by exactly one shot
        n = nk * rng.randrange(100001 // nk + 1, 260000 // nk) + rng.choice([1, -1])
    else:
        n = rng.randrange(1, 300)
    return {"kind": "representing", "dist": dist, "n": n, "seed": rng.randrange(2 ** 31), "exact": False}


# ---- distributions ENGINEERED for the branches of the random correction stage --------------------------------------
# get_measurements_representing_distribution rounds x_i = p_i * n per outcome (round half to even) and then corrects the
# total at random: too few shots -> outcomes are DRAWN and added, too many -> outcomes are drawn and ELIMINATED, a draw
# that cannot be subtracted (the outcome has no / not enough shots) is drawn again.  Which branch a call takes depends
# on the SHAPE of the x_i (how many round up / down, by how much, whether outcomes with weight have no shot at all) AND
# on the draw, so every engineered shape is asked with several numpy seeds.
def _rep_shape(dist, n):
    """the branch a (distribution, n) pair reaches, recomputed here in doubles: for steering the generator and for the
    input-distribution histogram only (the oracle judges length and support and never looks at this)"""
    xs = [float(unrat(p)) * n for _, p in dist]
    rs = [int(round(x)) for x in xs]
    ws = [0.5 - abs(0.5 - x % 1) for x in xs]
    return {"off": sum(rs) - n,
            "zero_shot_weighted": sum(1 for r, w in zip(rs, ws) if r == 0 and w > 0),
            "p0": sum(1 for _, p in dist if unrat(p) == 0),
            "halves": sum(1 for x in xs if x % 1 == 0.5),
            "min_present": min((r for r in rs if r > 0), default=0)}


def _eng_keys(rng, k, how):
    """k distinct outcomes: a narrow register, a wide one (17..70 sites, outcomes differing in ONE far site), or
    multi-level entries (two-digit values included; written 'a,b,c')"""
    if how == "tuples":
        width = 1
        while 7 ** width < 2 * k:
            width += 1
        width += rng.randrange(0, 2)
        keys = set()
        while len(keys) < k:
            keys.add(",".join(str(rng.choice([0, 1, 2, 9, 10, 11, 12])) for _ in range(width)))
        keys = sorted(keys)
        rng.shuffle(keys)
        return keys
    if how == "wide":
        w = rng.choice([17, 31, 32, 33, 63, 64, 65, 70])
        base = rng.getrandbits(w)
        pos = [0, w - 1] + rng.sample(range(1, w - 1), w - 2)
        vals = [base] + [base ^ (1 << b) for b in pos]
        vals = vals[:k]
        seen = set(vals)
        while len(vals) < k:
            v = rng.getrandbits(w)
            if v not in seen:
                seen.add(v)
                vals.append(v)
        rng.shuffle(vals)
        return [format(v, f"0{w}b") for v in vals]
    w = max(1, (k - 1).bit_length()) + rng.randrange(0, 3)
    return [format(v, f"0{w}b") for v in rng.sample(range(2 ** w), k)]


_ENG_WANTS = ["over", "over", "over", "under", "under", "exact"]


def _gen_representing_engineered(rng, exact=None, want=None, keys=None, n=None):
    """x_i = p_i * n chosen entry by entry:
         rare     0 < x < 1/2 (also x = 1/2, which rounds to 0: half to even): NO shot after rounding, but weight in the draw
         up       odd + 1/2, f + 1/2 + eps, f + (something above 1/2): rounds up, about +1/2 shot each
         down     even + 1/2, f + 1/2 - eps, f + (something below 1/2), f >= 1: rounds down, about -1/2 shot each
         integer  has shots, weight 0 in the draw;   zero  p = 0 listed explicitly;   dominant  whatever is left of n
       with the numbers of entries chosen for an OVERSHOOT / UNDERSHOOT of d = 1..6 shots (or none) after rounding.
       exact: n a power of two and x on a dyadic grid (doubles exact, compared with the model); otherwise any n up to
       20000 and decimal grids (p * n in doubles lands just above / just below the intended value; oracle only)."""
    F = Fraction
    if exact is None:
        exact = rng.random() < 0.5
    if exact:
        n = n or 2 ** rng.choice([0, 1, 2, 3, 3, 4, 5, 6, 7, 8, 10, 11])
        grid = rng.choice([4, 8, 16, 64, 1024])
    else:
        n = n or rng.choice([1, 2, 3, 5, 7, 10, 33, 100, 101, 999, 1000, 1023, 4999, rng.randrange(1, 300),
                             rng.randrange(1000, 20000)])
        grid = rng.choice([10, 100, 1000, 10 ** 6])
    half = grid // 2
    want = want or rng.choice(_ENG_WANTS)
    d = rng.choice([1, 1, 1, 2, 2, 3, 4, 6])
    z = rng.choice([0, 1, 1, 2, 3, 6])
    base = rng.choice([0, 0, 1, 1, 3, 8])  # smallest floor of the entries that have shots

    def rare():
        return rng.choice([F(1, grid), F(half - 1, grid), F(half - 1, grid), F(rng.randrange(1, half), grid), F(1, 2)])

    def up():
        f = base + rng.randrange(0, 3)
        t = rng.random()
        if t < 0.5:
            return F(f | 1) + F(1, 2)
        if t < 0.85:
            return F(f) + F(half + 1, grid)
        return F(f) + F(rng.randrange(half + 1, grid), grid)

    def down():
        f = max(1, base) + rng.randrange(0, 3)
        t = rng.random()
        if t < 0.5:
            return F(f + (f & 1)) + F(1, 2)
        if t < 0.85:
            return F(f) + F(half - 1, grid)
        return F(f) + F(rng.randrange(1, half), grid)

    rares = [rare() for _ in range(z)]
    r_tot = sum(rares)
    if want == "over":
        t = -((-2 * (d + r_tot)) // 1)
    elif want == "under":
        t = round(2 * (r_tot - d))
    else:
        t = round(2 * r_tot)
    nu, nd = (int(t), 0) if t >= 0 else (0, int(-t))
    pairs = rng.choice([0, 0, 1, 2, 5])  # further half-integers, one up and one down each
    movers = [up() for _ in range(nu + pairs)] + [down() for _ in range(nd + pairs)]
    movers += [F(max(1, base) + rng.randrange(0, 3)) for _ in range(rng.choice([0, 0, 1, 3]))]
    # small n: drop entries until the rest fits (the shape is then whatever is left; it is classified afterwards)
    movers.sort()
    while movers and sum(movers) + r_tot > n:
        movers.pop()
    while rares and sum(movers) + sum(rares) > n:
        rares.pop()
    xs = rares + movers
    dom = n - sum(xs)
    if dom > 0:
        if dom > 2 and rng.random() < 0.25:
            a = F(rng.randrange(1, int(dom)))  # two dominant outcomes, one of them an integer number of shots
            xs += [a, dom - a]
        else:
            xs.append(dom)
    # outcomes of probability 0 listed explicitly: none, a few, or MANY (a draw that gives them any weight at all then hits one)
    xs += [F(0)] * rng.choice([0, 0, 1, 3, 12, 40])
    rng.shuffle(xs)
    how = keys or rng.choice(["narrow", "narrow", "narrow", "wide", "tuples"])
    names = _eng_keys(rng, len(xs), how)
    c = {"kind": "representing", "dist": [[k2, rat(x / n)] for k2, x in zip(names, xs)], "n": n,
         "seed": rng.randrange(2 ** 31), "eng": want}
    if how == "tuples":
        c["tuples"] = True
    if not exact:
        c["exact"] = False
    return c


def _eng_class(c):
    """name of the correction-stage branch of a representing case (histogram key)"""
    s = _rep_shape(c["dist"], c["n"])
    if s["off"] == 0:
        name = "no_correction"
    else:
        name = ("overshoot_" if s["off"] > 0 else "undershoot_") + ("1" if abs(s["off"]) == 1 else "2" if abs(s["off"]) == 2 else "3plus")
    if s["zero_shot_weighted"]:
        name += "+outcomes_with_weight_but_no_shot"
    return name


def _gen_engineered_batch(rng, shapes, seeds):
    """`shapes` engineered distributions, the wanted branches taken in turn, EACH asked with `seeds` numpy seeds"""
    out = []
    for i in range(shapes):
        want = _ENG_WANTS[i % len(_ENG_WANTS)]
        c = None
        for _ in range(12):
            c = _gen_representing_engineered(rng, want=want)
            s = _rep_shape(c["dist"], c["n"])
            if (want == "over" and s["off"] > 0) or (want == "under" and s["off"] < 0) or (want == "exact" and s["off"] == 0):
                break
        if rng.random() < 0.1:
            _flags(rng, c, objs=False, tup=False)
        for _ in range(seeds):
            out.append(dict(copy.deepcopy(c), seed=rng.randrange(2 ** 31)))
    return out


def _gen_scale_ties(rng, exact=True):
    """scale_and_discretize where SEVERAL entries have the same remainder and the leftover units do not go round:
    groups of equal weights (so equal shares, equal remainders) and a total that leaves 1..k units to hand out, the
    cut falling inside a group of equal remainders; exact: weights sum to a power of two (doubles exact, model
    compared: floors plus 0/1, the leftover handed to the largest remainders, any order inside a tie)"""
    for _ in range(40):
        groups = rng.randrange(1, 4)
        vals = []
        for _g in range(groups):
            vals += [rng.choice([1, 1, 2, 3, 5, 6])] * rng.choice([2, 3, 4, 7, 16])
        if exact:
            s = sum(vals)
            p2 = 1
            while p2 < s:
                p2 *= 2
            if p2 > s:
                vals.append(p2 - s)
        rng.shuffle(vals)
        s = sum(vals)
        total = rng.choice([rng.randrange(1, len(vals) + 1), rng.randrange(1, 4 * len(vals) + 2), s + rng.choice([-1, 1]),
                            rng.randrange(1, 3) * s + rng.randrange(1, len(vals))])
        if total < 1:
            continue
        rem = [(Fraction(v * total, s)) % 1 for v in vals]
        left = total - sum((v * total) // s for v in vals)
        if left == 0:
            continue
        cut = sorted(rem, reverse=True)[left - 1]
        if sum(1 for r in rem if r > cut) < left < sum(1 for r in rem if r >= cut):
            break
    scale = Fraction(1, rng.choice([1, 1, 2, 8])) if exact else Fraction(1, rng.choice([1, 3, 10]))
    c = {"kind": "scale", "values": [rat(v * scale) for v in vals], "total": total, "exact": bool(exact), "ties": True}
    return c


def _scale_cut_in_tie(c):
    """does the cut between bumped and unbumped entries fall inside a group of equal (exact) remainders?"""
    vals = [unrat(v) for v in c["values"]]
    s, total = sum(vals), c["total"]
    if s <= 0 or total >= 2 ** 52:
        return False
    rem = [(v * total / s) % 1 for v in vals]
    left = total - sum((v * total / s) // 1 for v in vals)
    if left <= 0:
        return False
    cut = sorted(rem, reverse=True)[int(left) - 1]
    return sum(1 for r in rem if r > cut) < left < sum(1 for r in rem if r >= cut)


def _sibling(rng, c):
    """a copy of the case that differs in ONE component (it may equal the case: asked twice)"""
    s = copy.deepcopy(c)
    s.pop("touch", None)
    k = c["kind"]
    r = rng.random()
    if k == "expand_sizes":
        ns = s["ns"]
        if r < 0.3 or not ns:
            s["m"] = rng.choice([1, 2, 3, 5, 8, 100, max(1, c["m"] - 1), c["m"] + 1, c["m"] + P61])
            if s["m"] < c["m"]:
                s["ns"] = [min(n, 40 * s["m"]) for n in ns]
        elif r < 0.55:
            i = rng.randrange(len(ns))
            ns[i] = max(1, ns[i] + rng.choice([-1, 1, c["m"]]))
        elif r < 0.8 and len(ns) >= 2:
            i, j = rng.sample(range(len(ns)), 2)
            ns[i], ns[j] = ns[j], ns[i]
        elif r < 0.9:
            s["labels"] = [rng.randrange(0, 2) for _ in ns]
    elif k == "batches":
        ns = s["ns"]
        if r < 0.35 or not ns:
            s["max"] = rng.choice([1, 2, 3, 4, 5, 7, 20, max(1, c["max"]) + P61, max(1, c["max"] - 1)])
        elif r < 0.6:
            i = rng.randrange(len(ns))
            ns[i] = max(1, ns[i] + rng.choice([-1, 1, 100]))
        elif r < 0.85 and len(ns) >= 2:
            i, j = rng.sample(range(len(ns)), 2)
            ns[i], ns[j] = ns[j], ns[i]
    elif k in ("combine_bitstrings", "combine_counts"):
        mu = s["mults"]
        if r < 0.4 and len(mu) >= 2:
            rng.shuffle(mu)
            if mu == c["mults"]:
                mu.reverse()
        elif r < 0.6 and mu and max(mu) >= 2:
            i = [j for j, x in enumerate(mu) if x >= 2][0]
            mu[i:i + 1] = [1, mu[i] - 1]
        elif r < 0.85 and s["all"]:
            i = rng.randrange(len(s["all"]))
            s["all"][i] = (_gen_bitstrings if k == "combine_bitstrings" else _gen_counts)(rng, 1)[0]
    elif k == "scale":
        if r < 0.45:
            s["total"] = max(1, c["total"] + rng.choice([-1, 1, 7, c["total"]]))
        elif r < 0.7 and len(s["values"]) >= 2:
            v = s["values"]
            i, j = rng.sample(range(len(v)), 2)
            v[i], v[j] = v[j], v[i]
        elif r < 0.85:
            # one weight changed, still dyadic with a power-of-two total when the case is exact
            s["values"] = _gen_scale(rng, exact=c["exact"])["values"]
    elif k == "representing":
        d = s["dist"]
        if r < 0.35:
            s["n"] = max(1, c["n"] + rng.choice([-1, 1, 2, 5, -3]))
        elif r < 0.75 and len(d) >= 2:
            # the probability of one outcome moves to another one (support shrinks), same keys, same n
            pos = [i for i, (_, p) in enumerate(d) if unrat(p) > 0]
            if len(pos) >= 2:
                rng.shuffle(pos)
                j, gone = pos[0], pos[1:1 + rng.choice([1, 1, max(1, len(pos) // 2)])]
                for i in gone:
                    d[j][1] = rat(unrat(d[j][1]) + unrat(d[i][1]))
                    d[i][1] = 0
        elif r < 0.9 and len(d) >= 2:
            i, j = rng.sample(range(len(d)), 2)
            d[i][1], d[j][1] = d[j][1], d[i][1]
        s["seed"] = rng.randrange(2 ** 31)
    return s


def _touch_again(rng, base):
    """ask, edit the answer, ask the same again (on the same or on fresh argument objects)"""
    first = copy.deepcopy(base)
    first["touch"] = True
    again = copy.deepcopy(base)
    again.pop("touch", None)
    if "seed" in again:
        again["seed"] = rng.randrange(2 ** 31)
    return {"kind": "seq", "reuse": rng.random() < 0.5, "steps": [first, again]}


def _history(rng, base, length=None):
    if rng.random() < 0.25:
        return _touch_again(rng, base)
    steps = [base]
    for _ in range(length or rng.randrange(1, 4)):
        prev = steps[-1]
        nxt = _sibling(rng, prev)
        if rng.random() < 0.3:
            nxt = copy.deepcopy(steps[0])  # the first request again after the others
            nxt.pop("touch", None)
        steps.append(nxt)
    for st in steps[:-1]:
        if rng.random() < 0.35:
            st["touch"] = True
    return {"kind": "seq", "reuse": rng.random() < 0.6, "steps": steps}


def generate(rng, tier):
    big = tier == "thorough"
    cases = []
    grid = 40 if big else 14
    for n in range(1, grid + 1):
        for m in range(1, grid + 1):
            cases.append({"kind": "expand", "n": n, "m": m})
    for _ in range(400 if big else 60):
        cases.append(_flags(rng, _gen_expand(rng), objs=False, tup=False))
    for _ in range(600 if big else 80):
        c = _gen_expand_sizes(rng)
        cases.append(_flags(rng, c))
        if len(c["ns"]) >= 2:
            # the same (equal) circuit at several, also consecutive, positions of the request
            labels = [rng.randrange(0, 2) for _ in c["ns"]]
            cases.append(_flags(rng, {"kind": "expand_sizes", "ns": list(c["ns"]), "m": c["m"], "labels": labels}))
    for _ in range(20 if big else 4):
        # long requests (>= 64 circuits) with one entry beyond 2**53
        k = rng.randrange(64, 140)
        m = rng.choice([3, 8, 2 ** 60])
        ns = [rng.randrange(1, 4 * min(m, 10)) for _ in range(k)]
        ns[rng.randrange(k)] = 2 * m + 1
        cases.append(_flags(rng, {"kind": "expand_sizes", "ns": ns, "m": m, "labels": [rng.randrange(0, 3) for _ in range(k)]}))
    for _ in range(400 if big else 60):
        mults = _gen_mults(rng)
        tot = sum(mults) + (rng.choice([-1, 1]) if rng.random() < 0.15 and sum(mults) > 0 else 0)
        allb = _gen_bitstrings(rng, tot)
        cases.append(_flags(rng, {"kind": "combine_bitstrings", "all": allb, "mults": mults}, objs=False, np_=False))
        allc = _gen_counts(rng, tot, big=rng.random() < 0.15)
        c = {"kind": "combine_counts", "all": allc, "mults": mults}
        if rng.random() < 0.2:
            c["counter"] = True
        cases.append(_flags(rng, c, objs=False, np_=False))
        if tot >= 2 and tot == sum(mults):
            rep = [allc[0]] * tot if rng.random() < 0.5 else [rng.choice(allc[:2]) for _ in range(tot)]
            cases.append({"kind": "combine_counts", "all": rep, "mults": mults, "alias": True})
            repb = [allb[0]] * tot if rng.random() < 0.5 else [rng.choice(allb[:2]) for _ in range(tot)]
            cases.append({"kind": "combine_bitstrings", "all": repb, "mults": mults, "alias": True})
    for _ in range(60 if big else 12):
        # many copies per circuit (>= 9, >= 13, >= 64)
        mults = [rng.choice([1, 9, 13, 17, 64, 70]) for _ in range(rng.randrange(1, 4))]
        tot = sum(mults)
        cases.append({"kind": "combine_bitstrings", "all": _gen_bitstrings(rng, tot), "mults": mults})
        cases.append({"kind": "combine_counts", "all": _gen_counts(rng, tot, big=rng.random() < 0.3), "mults": mults})
    for _ in range(30 if big else 6):
        # many circuits (>= 64 groups), one or two copies each
        mults = [rng.choice([1, 1, 2, 3]) for _ in range(rng.randrange(64, 120))]
        tot = sum(mults)
        cases.append({"kind": "combine_bitstrings", "all": _gen_bitstrings(rng, tot), "mults": mults})
        cases.append({"kind": "combine_counts", "all": _gen_counts(rng, tot), "mults": mults})
    for _ in range(400 if big else 60):
        c = _gen_batches(rng)
        k = len(c["ns"])
        r = rng.random()
        if r < 0.1:
            c["n_circuits"] = k + 1
        elif r < 0.4 and k >= 2:
            # equal circuits at several positions, asking for different numbers of samples
            c["labels"] = [rng.randrange(0, 3) for _ in range(k)]
        elif r < 0.5 and k >= 1:
            c["same_obj"] = True  # the caller batches the sample counts themselves: one list object in both roles
        if rng.random() < 0.2 and k:
            # sample counts that differ only beyond 2**53 / 2**63
            base = rng.choice([2 ** 53, 2 ** 60, 2 ** 63, 2 ** 70])
            c["ns"] = [base + rng.randrange(-2, 3) for _ in range(k)]
        cases.append(_flags(rng, c, objs="same_obj" not in c and "n_circuits" not in c))
    for _ in range(20 if big else 4):
        k = rng.randrange(64, 200)
        cases.append(_flags(rng, {"kind": "batches", "ns": [rng.randrange(1, 50) for _ in range(k)],
                                  "max": rng.choice([1, 7, 63, 64, 65, k - 1, k, k + 1]),
                                  "labels": [rng.randrange(0, 5) for _ in range(k)]}))
    # size ladder across the round numbers (255 .. 1025 circuits / groups / weights; the property bounds none of them)
    for k in rng.sample([255, 256, 257, 511, 512, 513, 1000, 1023, 1024, 1025], 10 if big else 4):
        m = rng.choice([3, 8, 64])
        cases.append(_flags(rng, {"kind": "expand_sizes", "ns": [rng.randrange(1, 4 * m) for _ in range(k)], "m": m,
                                  "labels": [rng.randrange(0, 7) for _ in range(k)]}))
        cases.append(_flags(rng, {"kind": "batches", "ns": [rng.randrange(1, 50) for _ in range(k)],
                                  "max": rng.choice([1, 7, 64, 128, 255, 256, 257, 1024, k - 1, k, k + 1]),
                                  "labels": [rng.randrange(0, 5) for _ in range(k)]}))
        mults = [rng.choice([1, 1, 2, 3]) for _ in range(k)]
        cases.append({"kind": "combine_bitstrings", "all": _gen_bitstrings(rng, sum(mults)), "mults": mults})
        cases.append({"kind": "combine_counts", "all": _gen_counts(rng, sum(mults)), "mults": mults})
        one = [k]      # ONE circuit run in k copies
        cases.append({"kind": "combine_counts", "all": _gen_counts(rng, k), "mults": one})
        cases.append({"kind": "scale", "values": [rng.choice([1, 2, 3]) for _ in range(k)], "total": rng.choice([k - 1, k, k + 1, 7 * k + 3]), "exact": False})
    for _ in range(400 if big else 80):
        c = _gen_scale(rng)
        r = rng.random()
        if c["exact"] and r < 0.25:
            # the same proportions at a very small / very large magnitude (still exact: powers of two)
            f = Fraction(2) ** rng.choice([-60, -40, -30, 30, 40])
            c["values"] = [rat(unrat(v) * f) for v in c["values"]]
        elif c["exact"] and r < 0.5:
            c["total"] = rng.choice([rng.randrange(10 ** 5, 10 ** 7), rng.randrange(2 ** 30, 2 ** 44)])
        elif not c["exact"] and r < 0.3:
            c["total"] = rng.randrange(10 ** 5, 2 ** 40)
        elif not c["exact"] and r < 0.5:
            # weights spanning many orders of magnitude, the small ones still owed several units
            c["values"] = [rat(unrat(v) * Fraction(2) ** rng.choice([0, 0, -27, -20, 20, 30])) for v in c["values"]]
            c["total"] = rng.randrange(2 ** 36, 2 ** 44)
        if rng.random() < 0.15:
            c["num"] = rng.choice(["int", "np"])
        cases.append(_flags(rng, c, objs=False))
    for _ in range(40 if big else 10):
        # all weights equal / few distinct weights / many weights (>= 64)
        k = rng.choice([2, 3, 5, 8, 64, 100])
        if rng.random() < 0.5:
            vals = [rat(Fraction(1, rng.choice([1, 2, 4])))] * k
            exact = k in (2, 8, 64)
        else:
            vals = [rng.choice([1, 2, 3]) for _ in range(k)]
            exact = sum(vals) & (sum(vals) - 1) == 0
        cases.append({"kind": "scale", "values": vals, "total": rng.choice([1, k - 1, k, k + 1, rng.randrange(1, 1000)]),
                      "exact": exact})
    for _ in range(60 if big else 14):
        # FEWER units than entries with skewed weights: one (or two) dominant weights own several units, most entries get none
        k = rng.choice([3, 4, 5, 8, 17, 40, 65])
        m = max(k.bit_length() + rng.randrange(1, 5), 4)
        ndom = rng.choice([1, 1, 2])
        tiny = k - ndom
        dom_total = 2 ** m - tiny                      # weights sum to 2^m: the shares are exact in doubles
        doms = [dom_total] if ndom == 1 else [dom_total // 2 + 1, dom_total - dom_total // 2 - 1]
        vals = doms + [1] * tiny
        rng.shuffle(vals)
        cases.append({"kind": "scale", "values": vals, "total": rng.randrange(2, k) if k > 2 else 1, "exact": True})
    for _ in range(60 if big else 12):
        # weights that ALMOST sum to one (probabilities written with six decimals: 1 - 1e-5 < sum < 1 + 1e-5, sum != 1) with a large
        # total: treating "close to 1" as 1 moves entries several units away from their proportional share (oracle only: not dyadic)
        k = rng.choice([5, 8, 12, 30])
        raw = [rng.random() for _ in range(k)]
        tot = sum(raw)
        vals = [Fraction(round(x / tot * 10 ** 6), 10 ** 6) for x in raw]
        vals[0] += Fraction(rng.choice([-9, -7, -4, 3, 6, 9]), 10 ** 6) + (1 - sum(vals))
        if vals[0] <= 0 or sum(vals) == 1:
            continue
        cases.append({"kind": "scale", "values": [rat(v) for v in vals], "total": rng.choice([10 ** 6, 10 ** 7 + 3, 10 ** 9, 2 ** 40 + 1]),
                      "exact": False})
    for _ in range(10 if big else 2):
        # F18 (known): totals from 2**52 on
        cases.append({"kind": "scale", "values": [1, 2, 5], "total": 2 ** 53 + 1 + 2 * rng.randrange(0, 2 ** 20), "exact": False})
        cases.append({"kind": "scale", "values": _gen_scale(rng, exact=False)["values"], "total": rng.randrange(2 ** 52, 2 ** 53), "exact": False})
    for _ in range(300 if big else 60):
        cases.append(_flags(rng, _gen_representing(rng), objs=False, tup=False))
    for _ in range(200 if big else 40):
        cases.append(_gen_representing_tuples(rng))
    for _ in range(300 if big else 60):
        cases.append(_gen_representing_uniform(rng))
    for _ in range(300 if big else 60):
        cases.append(_gen_representing_partial_support(rng))
    for _ in range(300 if big else 60):
        cases.append(_gen_representing_heavy(rng))
    for _ in range(100 if big else 20):
        cases.append(_gen_representing_wide(rng))
    for _ in range(200 if big else 40):
        cases.append(_gen_representing_inexact(rng))
    for _ in range(12 if big else 4):
        cases.append(_gen_representing_inexact(rng, big=True))
    # ---- the random correction stage: shapes engineered per branch (overshoot / undershoot by 1..6, rare outcomes without a
    # shot, half-integers, explicit zeros, n = 1 .. 20000, wide and multi-level outcomes), EACH with several numpy seeds
    cases.extend(_gen_engineered_batch(rng, 240 if big else 54, 8 if big else 5))
    for _ in range(40 if big else 8):
        # the same engineered distribution asked again and again in ONE process (also on the caller's long-lived object),
        # only the state of numpy's generator differs from call to call
        base = _gen_representing_engineered(rng, want=rng.choice(["over", "over", "under"]))
        steps = [dict(copy.deepcopy(base), seed=rng.randrange(2 ** 31)) for _ in range(4)]
        cases.append({"kind": "seq", "reuse": rng.random() < 0.5, "steps": steps})
    for _ in range(200 if big else 40):
        cases.append(_flags(rng, _gen_scale_ties(rng, exact=rng.random() < 0.7), objs=False))
    # ---- histories
    for _ in range(150 if big else 30):
        # expansions asked one after the other: same n / other max (both directions), same max / other n,
        # arguments with equal hash
        m = rng.choice([2, 3, 5, 8, 100])
        n = rng.randrange(m + 1, 6 * m)
        m2 = rng.choice([x for x in (1, 2, 3, 5, 8, 100, 1000) if x != m])
        hm = rng.choice([2 ** 59, 2 ** 60, 2 ** 60 + 3])
        hn = rng.randrange(1, 2 ** 20)
        steps = rng.choice([
            [(n, m), (n, m2)], [(n, m2), (n, m)], [(n, m), (n + 1, m)], [(n, m + P61), (n, m)],
            [(n, m), (n, m + P61)], [(hn, hm), (hn + P61, hm)], [(hn + P61, hm), (hn, hm)],
            [(n, m), (n, m2), (n, m)]])
        cases.append({"kind": "seq", "reuse": False, "steps": [{"kind": "expand", "n": a, "m": b} for a, b in steps]})
    for _ in range(150 if big else 30):
        base = _gen_expand_sizes(rng, kmax=6)
        if rng.random() < 0.5 and base["ns"]:
            base["labels"] = [rng.randrange(0, 2) for _ in base["ns"]]
        cases.append(_history(rng, _flags(rng, base, tup=False)))
    for _ in range(150 if big else 30):
        base = _gen_batches(rng)
        if base["max"] <= 0:
            base["max"] = 2
        if rng.random() < 0.5 and base["ns"]:
            base["labels"] = [rng.randrange(0, 3) for _ in base["ns"]]
        cases.append(_history(rng, _flags(rng, base, tup=False)))
    for _ in range(150 if big else 30):
        mults = _gen_mults(rng)
        tot = sum(mults)
        if rng.random() < 0.5:
            base = {"kind": "combine_bitstrings", "all": _gen_bitstrings(rng, tot), "mults": mults}
        else:
            base = {"kind": "combine_counts", "all": _gen_counts(rng, tot), "mults": mults}
        if rng.random() < 0.3:
            base["alias"] = True
        cases.append(_history(rng, base))
    for _ in range(150 if big else 30):
        cases.append(_history(rng, _gen_scale(rng)))
    for _ in range(400 if big else 90):
        g = rng.choice([_gen_representing, _gen_representing_uniform, _gen_representing_partial_support,
                        _gen_representing_tuples, _gen_representing_heavy, _gen_representing_heavy,
                        _gen_representing_engineered, _gen_representing_engineered])
        cases.append(_history(rng, g(rng)))
    for _ in range(60 if big else 12):
        # outcomes whose digits concatenate to the same text: (1,0) and (10,), (1,1,2) and (11,2) …
        a = rng.sample(["1,0", "1,1", "1,2", "2,0", "2,1", "9,1", "10,1", "1,10"], 2)
        b = [x.replace(",", "") for x in a]
        sa = {"kind": "representing", "dist": [[x, "1/2"] for x in a], "n": rng.randrange(1, 12),
              "seed": rng.randrange(2 ** 31), "tuples": True}
        sb = {"kind": "representing", "dist": [[x, "1/2"] for x in b], "n": rng.randrange(1, 12),
              "seed": rng.randrange(2 ** 31), "tuples": True}
        steps = [sa, sb] if rng.random() < 0.5 else [sb, sa]
        cases.append({"kind": "seq", "reuse": rng.random() < 0.5, "steps": steps})
    for _ in range(150 if big else 36):
        # the smallest requests (one circuit, one group, one weight, one or two outcomes): asked, answer edited, asked again
        kind = rng.choice(["expand_sizes", "expand_sizes", "combine_bitstrings", "combine_counts", "scale", "representing"])
        if kind == "expand_sizes":
            m = rng.choice([1, 2, 3, 5, 8])
            base = {"kind": kind, "ns": [rng.randrange(1, 5 * m + 2) for _ in range(rng.choice([1, 1, 2]))], "m": m}
            _flags(rng, base, tup=False)
        elif kind == "scale":
            base = {"kind": kind, "values": _dyadic_weights(rng, rng.choice([1, 2])), "total": rng.randrange(1, 50), "exact": True}
        elif kind == "representing":
            base = rng.choice([_gen_representing, _gen_representing_uniform])(rng)
        else:
            mults = [rng.randrange(1, 4)]
            gen = _gen_bitstrings if kind == "combine_bitstrings" else _gen_counts
            base = {"kind": kind, "all": gen(rng, mults[0]), "mults": mults}
        cases.append(_touch_again(rng, base))
    # ---- pipelines
    for _ in range(300 if big else 70):
        k = rng.randrange(0, 7)
        m = rng.choice([1, 2, 3, 5, 8])
        ns = [rng.choice([m, m + 1, rng.randrange(1, 5 * m + 2)]) for _ in range(k)]
        c = {"kind": "pipeline", "labels": [rng.randrange(0, 3) for _ in range(k)] if rng.random() < 0.6 else list(range(k)),
             "ns": ns, "m": m, "batch": rng.choice([1, 2, 3, 5, 100])}
        cases.append(_flags(rng, c, tup=False))
    return cases


def nontrivial(c):
    k = c["kind"]
    if k == "expand":
        return c["n"] % c["m"] != 0 and c["n"] > c["m"]
    if k == "expand_sizes":
        return len(c["ns"]) >= 2 and any(n % c["m"] for n in c["ns"])
    if k in ("combine_bitstrings", "combine_counts"):
        return len(c["mults"]) >= 2 and max(c["mults"]) >= 2
    if k == "batches":
        return c["max"] >= 1 and len(c["ns"]) % max(c["max"], 1) != 0 and len(c["ns"]) > c["max"]
    if k == "scale":
        return len(c["values"]) >= 2
    if k == "representing":
        return len(c["dist"]) >= 2
    if k == "seq":
        return len(c["steps"]) >= 2
    if k == "pipeline":
        return any(n > c["m"] for n in c["ns"])
    return False


# ------------------------------------------------------------------------------------------------ implementation
def _ints_of(c):
    for key in ("n", "m", "max", "total", "batch"):
        if isinstance(c.get(key), int):
            yield c[key]
    yield from (x for x in c.get("ns", []) if isinstance(x, int))


def _npint(c, x):
    """numpy integers instead of Python ints (only when every integer of the request fits comfortably)"""
    if c.get("np") and isinstance(x, int) and all(abs(v) < 2 ** 31 for v in _ints_of(c)):
        import numpy as np
        return np.int64(x)
    return x


def _arg(pool, role, content, c):
    """the argument object for `role`: a tuple, a fresh list, or (history with reuse) the caller's long-lived list
    updated in place"""
    if c.get("tup"):
        return tuple(content)
    if pool is not None and pool.get("reuse"):
        obj = pool.get(role)
        if isinstance(obj, list):
            obj[:] = content
            return obj
        pool[role] = list(content)
        return pool[role]
    return list(content)


def _circuits(c, labels):
    how = c.get("objs")
    if how == "same":
        made = {}
        return [made.setdefault(x, _Circ(x)) for x in labels]
    if how == "equal":
        return [_Circ(x) for x in labels]
    return list(labels)


def _bitstring_for(label, copy_index, shot):
    return format((label * 7 + copy_index * 3 + shot * 5) % 8, "03b")


def _run_pipeline(c, it):
    labels, ns = c["labels"], c["ns"]
    circuits = _circuits(c, labels)
    ns_arg = [_npint(c, n) for n in ns]
    new_c, new_n, mults = it.expand_sample_sizes(circuits, ns_arg, _npint(c, c["m"]))
    out = {"batches": [], "short_batch": None}
    all_bits, pos = [], 0
    # a runner: every batch is executed with the batch's sample count, each copy keeps the shots it asked for
    for chunk, n_batch in it.split_into_batches(new_c, new_n, c["batch"]):
        out["batches"].append([[_lab(x) for x in chunk], int(n_batch)])
        for circ in chunk:
            want = int(new_n[pos])
            if int(n_batch) < want and out["short_batch"] is None:
                out["short_batch"] = [pos, want, int(n_batch)]
            all_bits.append([_bitstring_for(_lab(circ), pos, s) for s in range(min(want, int(n_batch)))])
            pos += 1
    all_counts = [dict(Counter(b)) for b in all_bits]
    out["copies"] = pos
    cb = it.combine_bitstrings(all_bits, mults)
    cc = it.combine_measurement_counts(all_counts, mults)
    out["bit_totals"] = [len(g) for g in cb]
    out["count_totals"] = [int(sum(d.values())) for d in cc]
    out["agree"] = [dict(Counter(g)) == {k: int(v) for k, v in d.items()} for g, d in zip(cb, cc)]
    out["new_circuits"] = [_lab(x) for x in new_c]
    out["new_ns"] = [int(x) for x in new_n]
    out["mults"] = [int(x) for x in mults]
    out["args_intact"] = [_lab(x) for x in circuits] == list(labels) and [int(x) for x in ns_arg] == list(ns)
    return out


def _run_one(c, pool=None):
    it, Measurements, MOD, scale_and_discretize = _mods()
    k = c["kind"]
    touch = c.get("touch")
    try:
        if k == "expand":
            ns, mult = it._expand_sample_size(_npint(c, c["n"]), _npint(c, c["m"]))
            return {"ns": [int(x) for x in ns], "mult": int(mult)}
        if k == "expand_sizes":
            labels = c.get("labels") or list(range(len(c["ns"])))
            circuits = _arg(pool, "circuits", _circuits(c, labels), c)
            ns_arg = _arg(pool, "ns", [_npint(c, n) for n in c["ns"]], c)
            a, b, m = it.expand_sample_sizes(circuits, ns_arg, _npint(c, c["m"]))
            out = {"circuits": [_lab(x) for x in a], "ns": [int(x) for x in b], "mults": [int(x) for x in m]}
            out["args_intact"] = [_lab(x) for x in circuits] == list(labels) and [int(x) for x in ns_arg] == c["ns"]
            if touch:
                # the caller edits what it was given back (its own lists from now on)
                for lst in (a, b, m):
                    if isinstance(lst, list):
                        lst.append(lst[0] if lst else 1)
                        lst.reverse()
            return out
        if k in ("combine_bitstrings", "combine_counts"):
            bits = k == "combine_bitstrings"
            mk = (lambda g: list(g)) if bits else (lambda d: (Counter if c.get("counter") else dict)(dict(map(tuple, d))))
            if c.get("alias"):
                # equal per-copy results are the SAME object (a memoising backend returns shared objects)
                shared = {}
                args = [shared.setdefault(common.canon(d), mk(d)) for d in c["all"]]
            else:
                args = [mk(d) for d in c["all"]]
            args = _arg(pool, "all", args, c)
            mults = _arg(pool, "mults", c["mults"], c)
            show = (lambda g: list(g)) if bits else (lambda d: [[kk, int(v)] for kk, v in d.items()])
            plain = (lambda g: list(g)) if bits else (lambda d: sorted((kk, int(v)) for kk, v in d.items()))
            f = it.combine_bitstrings if bits else it.combine_measurement_counts
            res = f(args, mults)
            out = {"res": [show(d) for d in res]}
            want = [list(g) for g in c["all"]] if bits else [sorted(map(tuple, d)) for d in c["all"]]
            out["args_intact"] = [plain(a) for a in args] == want and list(mults) == c["mults"]
            res2 = f(args, mults)
            out["again"] = [show(d) for d in res2]
            if touch:
                for d in res:
                    if bits and isinstance(d, list):
                        d.append("000")
                    elif not bits and isinstance(d, dict) and d:
                        d[next(iter(d))] += 5
            return out
        if k == "batches":
            nc = c.get("n_circuits", len(c["ns"]))
            labels = c.get("labels") or list(range(nc))
            ns_arg = _arg(pool, "ns", [_npint(c, n) for n in c["ns"]], c)
            circuits = ns_arg if c.get("same_obj") else _arg(pool, "circuits", _circuits(c, labels), c)
            mx = _npint(c, c["max"])
            res = list(it.split_into_batches(circuits, ns_arg, mx))
            out = {"res": [[[_lab(x) for x in b], int(n)] for b, n in res]}
            want_c = c["ns"] if c.get("same_obj") else list(labels)
            out["args_intact"] = [_lab(x) for x in circuits] == want_c and [int(x) for x in ns_arg] == c["ns"]
            return out
        if k == "scale":
            import numpy as np
            vals = [float(unrat(v)) for v in c["values"]]
            if c.get("num") == "int":
                vals = [int(v) if v == int(v) and abs(v) < 2 ** 53 else v for v in vals]
            elif c.get("num") == "np":
                vals = [np.float64(v) for v in vals]
            vals_arg = _arg(pool, "values", vals, c)
            res = scale_and_discretize(vals_arg, _npint(c, c["total"]))
            out = {"res": [int(x) for x in res], "integral": all(x == int(x) for x in res),
                   "args_intact": [float(v) for v in vals_arg] == [float(v) for v in vals]}
            if touch and isinstance(res, list) and res:
                res[0] += 3
                res.append(1)
            return out
        if k == "representing":
            import numpy as np
            np.random.seed(c["seed"])
            if c.get("tuples"):
                new = {tuple(int(x) for x in kk.split(",")): float(unrat(p)) for kk, p in c["dist"]}
                show = lambda t: ",".join(str(b) for b in t)  # noqa: E731
            else:
                new = {tuple(int(x) for x in kk): float(unrat(p)) for kk, p in c["dist"]}
                show = lambda t: "".join(str(b) for b in t)  # noqa: E731
            d = None
            if pool is not None and pool.get("reuse"):
                d = pool.get("dist")
            if d is not None:
                # the caller's long-lived distribution object, its public dict updated in place
                d.distribution_dict.clear()
                d.distribution_dict.update(new)
            else:
                if pool is not None:
                    pool.pop("dist", None)  # the previous object is dropped before the new one is made
                d = MOD(dict(new))
                if pool is not None:
                    pool["dist"] = d
            before = dict(d.distribution_dict)
            m = Measurements.get_measurements_representing_distribution(d, _npint(c, c["n"]))
            # (only n + 64 shots of an over-long answer are transcribed: an implementation that accumulates shots
            # from call to call must not make the check quadratic)
            keep = int(c["n"]) + 64
            out = {"res": [show(t) for t in m.bitstrings[:keep]], "len": len(m.bitstrings),
                   "source_intact": before == d.distribution_dict}
            if pool is not None:
                pool.setdefault("handed_out", []).append((len(pool.get("outs", [])), m, show, list(m.bitstrings[:keep]), bool(touch)))
            if touch:
                m.bitstrings.append(m.bitstrings[0])
                m.bitstrings.append(m.bitstrings[0])
                m.bitstrings.reverse()
            return out
        if k == "pipeline":
            return _run_pipeline(c, it)
    except ValueError as e:
        return {"err": "err:value", "msg": str(e)[:100]}
    raise AssertionError("unknown kind")


class _NoAnswer(Exception):
    pass


_HANGS = [0]
CALL_DEADLINE_S = 30  # the calls made here take milliseconds (a quarter of a million shots: well under a second)


def _bounded(c, pool=None):
    """_run_one under a deadline: a call that does not come back is reported with its input instead of stalling the
    whole check (the runner's own alarm is suspended for the duration and re-armed afterwards)"""
    import signal
    import time
    if _HANGS[0] >= 4:
        return {"exc": "NotRun", "msg": "not executed: four earlier calls of this run did not return"}
    try:
        old = signal.getsignal(signal.SIGALRM)
        left = signal.alarm(0)
    except ValueError:  # not the main thread: no deadline available
        return _run_one(c, pool)

    def on_alarm(signum, frame):
        raise _NoAnswer()

    t0 = time.time()
    limit = CALL_DEADLINE_S if _HANGS[0] == 0 else 3
    signal.signal(signal.SIGALRM, on_alarm)
    signal.alarm(limit)
    try:
        return _run_one(c, pool)
    except _NoAnswer:
        _HANGS[0] += 1
        return {"exc": "NoAnswer", "msg": f"the call did not return within {limit} s"}
    finally:
        signal.alarm(0)
        signal.signal(signal.SIGALRM, old)
        if left:
            signal.alarm(max(1, left - int(time.time() - t0)))


def run_impl(c):
    if c["kind"] != "seq":
        return _bounded(c)
    pool = {"reuse": bool(c.get("reuse")), "outs": []}
    for st in c["steps"]:
        try:
            o = _bounded(st, pool)
        except Exception as e:  # same convention as the runner: recorded, the oracle fails the step
            o = {"exc": type(e).__name__, "msg": str(e)[:200]}
        pool["outs"].append(o)
    late = []
    for i, m, show, recorded, touched in pool.get("handed_out", []):
        # a result handed out earlier is looked at again after the later calls
        if not touched and list(m.bitstrings[:len(recorded) + 1]) != recorded:
            late.append({"step": i, "len": len(m.bitstrings), "now": [show(t) for t in m.bitstrings[:len(recorded) + 1]]})
    return {"steps": pool["outs"], "late": late}


# ------------------------------------------------------------------------------------------------ model
def _requests_one(c, out):
    k = c["kind"]
    if k == "expand":
        return [("expand", {"n": c["n"], "m": c["m"]})]
    if k == "expand_sizes":
        return [("expand_sizes", {"circuits": c.get("labels") or list(range(len(c["ns"]))), "ns": c["ns"], "m": c["m"]})]
    if k == "combine_bitstrings":
        return [("combine_bitstrings", {"all": c["all"], "mults": c["mults"]})]
    if k == "combine_counts":
        return [("combine_counts", {"all": c["all"], "mults": c["mults"]})]
    if k == "batches":
        nc = c.get("n_circuits", len(c["ns"]))
        labels = c["ns"] if c.get("same_obj") else (c.get("labels") or list(range(nc)))
        return [("batches", {"circuits": labels, "ns": c["ns"], "max": c["max"]})]
    if k == "scale":
        return [("scale", {"values": c["values"], "total": c["total"], "order": []})] if c["exact"] else []
    if k == "representing":
        if "res" not in out or not c.get("exact", True) or c["n"] > MODEL_MAX_SHOTS or out.get("len") != len(out["res"]):
            return []
        return [("representing_check", {"dist": c["dist"], "n": c["n"], "result": out["res"]})]
    return []


def requests(c, out):
    if c["kind"] != "seq":
        return _requests_one(c, out)
    return [r for st, o in zip(c["steps"], out["steps"]) for r in _requests_one(st, o)]


def _compare_one(c, out, resp):
    r = resp[0]
    if isinstance(r, dict) and "driver_error" in r:
        return "driver error: " + r["driver_error"]
    k = c["kind"]
    if k == "expand":
        if out.get("ns") != r["ns"] or [out.get("mult")] != r["mult"]:
            return f"_expand_sample_size: impl {out} model {r}"
    elif k == "expand_sizes":
        if (out.get("circuits"), out.get("ns"), out.get("mults")) != (r["circuits"], r["ns"], r["mults"]):
            return f"expand_sample_sizes: impl {out} model {r}"
    elif k == "combine_bitstrings":
        if (out.get("err") or out.get("res")) != r:
            return f"combine_bitstrings: impl {out} model {r}"
    elif k == "combine_counts":
        got = out.get("err") or out.get("res")
        want = "err:value" if r == "err" else r
        if got != want:
            return f"combine_measurement_counts: impl {out} model {r}"
    elif k == "batches":
        want = r if isinstance(r, str) else [[b[0], b[1][0]] for b in r]
        if (out.get("err") or out.get("res")) != want:
            return f"split_into_batches: impl {out} model {want}"
    elif k == "scale":
        floors, rem = r["floors"], [unrat(x) for x in r["remainders"]]
        res = out.get("res")
        if res is None or len(res) != len(floors):
            return f"scale_and_discretize: impl {out} model floors {floors}"
        bumps = [a - b for a, b in zip(res, floors)]
        if any(b not in (0, 1) for b in bumps):
            return f"scale_and_discretize: impl {res} is not floors {floors} plus 0/1"
        kk = c["total"] - sum(floors)
        if sum(bumps) != kk:
            return f"scale_and_discretize: {sum(bumps)} bumps, model leftover {kk}"
        lo = min([rem[i] for i, b in enumerate(bumps) if b], default=None)
        hi = max([rem[i] for i, b in enumerate(bumps) if not b], default=None)
        if lo is not None and hi is not None and lo < hi:
            return "scale_and_discretize: bumped an entry with a smaller remainder than an unbumped one"
    elif k == "representing":
        if not r.get("ok"):
            return f"get_measurements_representing_distribution: impl {out.get('res')} not reproduced by the model: {r}"
    return None


def compare(c, out, resp):
    if c["kind"] != "seq":
        return _compare_one(c, out, resp)
    pos = 0
    for i, (st, o) in enumerate(zip(c["steps"], out["steps"])):
        n = len(_requests_one(st, o))
        if n:
            msg = _compare_one(st, o, resp[pos:pos + n])
            if msg:
                return f"step {i}: {msg}"
        pos += n
    return None


# ------------------------------------------------------------------------------------------------ oracle
def _regroup_totals(new, mults):
    pos, tot = 0, []
    for mu in mults:
        tot.append(sum(new[pos:pos + mu]))
        pos += mu
    return tot, pos


def _oracle_batches(batches, labels, ns, mx, tag):
    flat = [x for b, _ in batches for x in b]
    if flat != list(labels):
        return (tag + "-cover", f"batches {batches} do not cover circuits {list(labels)} once in order")
    pos = 0
    for b, n in batches:
        if not (1 <= len(b) <= mx):
            return (tag + "-size", f"batch {b} violates size bound {mx}")
        asked = ns[pos:pos + len(b)]
        if any(a > n for a in asked):
            return (tag + "-samples", f"batch {b} requests {n} samples < a circuit's request {asked}")
        pos += len(b)
    return None


def _oracle_one(c, out):
    """the property's own sentences, on the implementation's output only"""
    k = c["kind"]
    if "exc" in out and k != "scale":
        return (k + "-raise", f"{k} raised {out}")
    if k == "expand":
        n, m = c["n"], c["m"]
        ns = out.get("ns")
        if ns is None or sum(ns) != n or any(not (1 <= x <= m) for x in ns) or out.get("mult") != len(ns):
            return ("expand-sample-size", f"_expand_sample_size({n},{m}) = {out}: counts must lie in 1..max, sum to n, multiplicity = #copies")
    elif k == "expand_sizes":
        ns, m = c["ns"], c["m"]
        if "ns" not in out:
            return ("expand-sizes-raise", f"expand_sample_sizes raised {out}")
        new, mults, circ = out["ns"], out["mults"], out["circuits"]
        if any(not (1 <= x <= m) for x in new):
            return ("expand-sizes", f"expanded counts {new} outside 1..{m}")
        tot, pos = _regroup_totals(new, mults)
        if tot != ns or pos != len(new) or len(mults) != len(ns):
            return ("expand-sizes", f"per-circuit totals {tot} differ from requested {ns}")
        labels = c.get("labels") or list(range(len(ns)))
        want = [labels[i] for i, mu in enumerate(mults) for _ in range(mu)]
        if circ != want:
            return ("expand-sizes-order", f"expanded circuits {circ} not grouped in order {want}")
        if not out.get("args_intact", True):
            return ("expand-sizes-mutates", "expand_sample_sizes modified the circuits / sample counts it was given")
    elif k == "combine_bitstrings":
        if len(c["all"]) != sum(c["mults"]):
            return None if out.get("err") else ("combine-accepts-mismatch", "length mismatch accepted")
        if "res" not in out:
            return ("combine-raise", f"combine_bitstrings raised {out}")
        pos, want = 0, []
        for mu in c["mults"]:
            want.append([b for g in c["all"][pos:pos + mu] for b in g])
            pos += mu
        # "never loses or invents a shot": per circuit the same shots with the same multiplicities (the order
        # inside a group is compared with the model only)
        def bag(groups):
            return [sorted(g) for g in groups]
        if bag(out["res"]) != bag(want):
            return ("combine-bitstrings", f"combined {out['res']} but groups are {want}")
        if bag(out.get("again", want)) != bag(want):
            return ("combine-bitstrings-repeat", f"combining the same per-copy results a second time gave {out['again']}, groups are {want}")
        if not out.get("args_intact", True):
            return ("combine-bitstrings-mutates", "combine_bitstrings modified the per-copy results it was given")
    elif k == "combine_counts":
        if len(c["all"]) != sum(c["mults"]):
            return None if out.get("err") else ("combine-accepts-mismatch", "length mismatch accepted")
        if "res" not in out:
            return ("combine-raise", f"combine_measurement_counts raised {out}")
        for name in ("res", "again"):
            pos = 0
            res = out.get(name, out["res"])
            for mu, got in zip(c["mults"], res):
                want = Counter()
                for g in c["all"][pos:pos + mu]:
                    for kk, v in g:
                        want[kk] += v
                pos += mu
                if dict(want) != dict(map(tuple, got)):
                    if name == "again":
                        return ("combine-counts-repeat", f"combining the same per-copy results a second time gave {got}, group totals are {dict(want)}")
                    return ("combine-counts", f"combined counts {got} but group totals are {dict(want)}")
            if len(res) != len(c["mults"]):
                return ("combine-counts", "wrong number of combined results")
        if not out.get("args_intact", True):
            return ("combine-counts-mutates", "combine_measurement_counts modified the per-copy results it was given")
    elif k == "batches":
        nc = c.get("n_circuits", len(c["ns"]))
        bad = nc != len(c["ns"]) or c["max"] <= 0
        if bad:
            return None if out.get("err") else ("batches-accept-invalid", f"invalid request accepted: {out}")
        if "res" not in out:
            return ("batches-raise", f"split_into_batches raised {out}")
        labels = c["ns"] if c.get("same_obj") else (c.get("labels") or list(range(nc)))
        bad = _oracle_batches(out["res"], labels, c["ns"], c["max"], "batches")
        if bad:
            return bad
        if not out.get("args_intact", True):
            return ("batches-mutates", "split_into_batches modified the circuits / sample counts it was given")
    elif k == "scale":
        # totals from 2**52 on: the float shares have no fractional part, the listed finding F18, kept apart
        pre = "scale-total-from-2^52" if c["total"] >= 2 ** 52 else None
        if "res" not in out:
            return (pre or "scale-raise", f"scale_and_discretize({c['values']}, {c['total']}) raised {out}")
        vals = [unrat(v) for v in c["values"]]
        s = sum(vals)
        if len(out["res"]) != len(vals):
            return (pre or "scale-sum", f"{len(out['res'])} integers returned for {len(vals)} weights")
        if not out.get("integral", True):
            return (pre or "scale-sum", "scale_and_discretize returned non-integers")
        if sum(out["res"]) != c["total"]:
            return (pre or "scale-sum", f"scaled {out['res']} sums to {sum(out['res'])} != {c['total']}")
        for v, r in zip(vals, out["res"]):
            share = v * c["total"] / s
            # slack: the weights reach the code as floats (relative error 2**-53 each)
            if abs(r - share) > 1 + Fraction(1, 10 ** 6) + share / 10 ** 9:
                return (pre or "scale-within-one", f"entry {r} farther than one from share {float(share)}")
        if not out.get("args_intact", True):
            return ("scale-mutates", "scale_and_discretize modified the weights it was given")
    elif k == "representing":
        if "res" not in out:
            return ("representing-raise", f"get_measurements_representing_distribution raised {out}")
        if out.get("len", len(out["res"])) != c["n"]:
            return ("representing-length", f"{out.get('len', len(out['res']))} shots returned, {c['n']} requested")
        supp = {kk for kk, p in c["dist"] if unrat(p) > 0}
        outside = set(out["res"]) - supp
        if outside:
            return ("representing-support", f"shots {sorted(outside)[:10]} outside the support {sorted(supp)[:20]}")
        if not out.get("source_intact", True):
            return ("representing-mutates", "the distribution argument was modified")
    elif k == "pipeline":
        ns, m = c["ns"], c["m"]
        if "err" in out:
            return ("pipeline-raise", f"expand -> batch -> run -> combine raised {out}")
        new, mults = out["new_ns"], out["mults"]
        if any(not (1 <= x <= m) for x in new):
            return ("expand-sizes", f"expanded counts {new} outside 1..{m}")
        tot, pos = _regroup_totals(new, mults)
        if tot != ns or pos != len(new) or len(mults) != len(ns):
            return ("expand-sizes", f"per-circuit totals {tot} of the expansion differ from requested {ns}")
        want = [c["labels"][i] for i, mu in enumerate(mults) for _ in range(mu)]
        if out["new_circuits"] != want:
            return ("expand-sizes-order", f"expanded circuits {out['new_circuits']} not grouped in order {want}")
        bad = _oracle_batches(out["batches"], out["new_circuits"], new, c["batch"], "batches")
        if bad:
            return bad
        if out["short_batch"] is not None:
            return ("batches-samples", f"copy {out['short_batch'][0]} asked for {out['short_batch'][1]} samples, its batch ran {out['short_batch'][2]}")
        if out["bit_totals"] != ns:
            return ("pipeline-bitstring-totals", f"combined bitstrings per circuit {out['bit_totals']}, requested {ns} (multiplicities {mults})")
        if out["count_totals"] != ns:
            return ("pipeline-count-totals", f"combined counts per circuit {out['count_totals']}, requested {ns} (multiplicities {mults})")
        if not all(out["agree"]):
            return ("pipeline-counts-vs-bitstrings", "combined counts are not the histogram of the combined bitstrings")
        if not out.get("args_intact", True):
            return ("expand-sizes-mutates", "the circuits / sample counts given to the pipeline were modified")
    return None


def oracle(c, out):
    if c["kind"] != "seq":
        return _oracle_one(c, out)
    for i, (st, o) in enumerate(zip(c["steps"], out.get("steps", []))):
        res = _oracle_one(st, o)
        if res is not None:
            return (res[0], f"call {i + 1} of {len(c['steps'])} in this history: {res[1]}")
    if len(out.get("steps", [])) != len(c["steps"]):
        return ("seq-raise", f"history not executed: {out}")
    for late in out.get("late", []):
        st = c["steps"][late["step"]]
        supp = {kk for kk, p in st["dist"] if unrat(p) > 0}
        if late["len"] != st["n"] or set(late["now"]) - supp:
            return ("representing-result-shared",
                    f"the result of call {late['step'] + 1} ({st['n']} shots) changed when a later call was made: now {late['now'][:12]}…")
    return None


def distribution(cases, outs):
    def flat(cs):
        for c in cs:
            if c["kind"] == "seq":
                yield from c["steps"]
            else:
                yield c
    rej = sum(1 for o in outs if isinstance(o, dict) and o.get("err"))
    allc = list(flat(cases))
    # the branches of the random correction stage reached by ALL representing calls (engineered or not), and how many
    # (distribution, n) pairs were asked with several numpy seeds
    branches, per_shape = Counter(), Counter()
    for c in allc:
        if c["kind"] == "representing":
            branches[_eng_class(c)] += 1
            per_shape[common.canon([c["dist"], c["n"]])] += 1
    return {"rejected_requests": rej,
            "representing_correction_branches": dict(sorted(branches.items())),
            "representing_inputs_asked_with_3_or_more_seeds": sum(1 for v in per_shape.values() if v >= 3),
            "representing_engineered_calls": sum(1 for c in allc if c.get("eng")),
            "representing_explicit_zero_probability": sum(1 for c in allc if c["kind"] == "representing"
                                                          and any(unrat(p) == 0 for _, p in c["dist"])),
            "representing_outcomes_wider_than_32_sites": sum(1 for c in allc if c["kind"] == "representing" and not c.get("tuples")
                                                             and len(c["dist"][0][0]) > 32),
            "scale_cut_inside_group_of_equal_remainders": sum(1 for c in allc if c["kind"] == "scale" and _scale_cut_in_tie(c)),
            "calls_including_history_steps": len(allc),
            "histories_reusing_argument_objects": sum(1 for c in cases if c["kind"] == "seq" and c.get("reuse")),
            "steps_touching_their_result": sum(1 for c in allc if c.get("touch")),
            "unhashable_circuit_objects": sum(1 for c in allc if c.get("objs")),
            "numpy_integers": sum(1 for c in allc if c.get("np")),
            "representing_max_shots": max((c["n"] for c in allc if c["kind"] == "representing"), default=0),
            "expand_nonmultiple": sum(1 for c in allc if c["kind"] == "expand" and c["n"] % c["m"]),
            "max_n": max((c["n"] for c in allc if c["kind"] == "expand"), default=0)}
