"""C13 — splitting, batching and recombining shots never loses or invents a shot."""
from collections import Counter
from fractions import Fraction

from .. import common
from ..common import rat, unrat

PROP = "C13"
RULE = ("seeded random inputs per mechanism (expand/expand_sizes/combine_bitstrings/combine_counts/batches/scale/"
        "representing) plus an exhaustive (n,max) grid; non-trivial: n not a multiple of max with >=2 circuits, "
        "a batch list with a ragged last batch, a distribution needing top-up or elimination, weights with a "
        "non-zero leftover; distinct = distinct canonical JSON of the case")
TRUSTED = ["np.random.choice(size=k) returns exactly k draws, never an outcome of weight 0 (law assumed in "
           "representing_length / representing_support)",
           "float arithmetic is exact on the dyadic inputs used for model comparison; other inputs are checked by the oracle only"]
ASSUMPTIONS = ["Python int // and % with positive divisor = Lean Int ediv/emod"]


def _mods():
    common.use_repo()
    from orquestra.quantum.circuits import _itertools as it
    from orquestra.quantum.measurements import Measurements
    from orquestra.quantum.distributions import MeasurementOutcomeDistribution
    from orquestra.quantum.utils import scale_and_discretize
    return it, Measurements, MeasurementOutcomeDistribution, scale_and_discretize


def corpus():
    return [
        {"kind": "expand", "n": 2 ** 60 + 1, "m": 2 ** 60},  # F4 (fixed): float ceil lost a shot
        {"kind": "expand", "n": 7, "m": 3},
        {"kind": "expand_sizes", "ns": [7, 6, 1], "m": 3},
        {"kind": "batches", "ns": [5, 9, 2], "max": 2},
        {"kind": "batches", "ns": [5, 9], "max": 0},
        {"kind": "scale", "values": [1, 2, 5], "total": 16, "exact": True},
        {"kind": "representing", "dist": [["00", "1/2"], ["11", "1/2"]], "n": 3, "seed": 1},
        {"kind": "representing", "dist": [["0", "1/2"], ["1", "1/2"]], "n": 1, "seed": 2},
        {"kind": "representing", "dist": [[format(i, "03b"), "1/8"] for i in range(8)], "n": 3, "seed": 5},
        {"kind": "combine_counts", "all": [[["00", 10], ["11", 20]]] * 3, "mults": [3], "alias": True},
        {"kind": "expand_sizes", "ns": [30, 10, 5], "m": 20, "labels": [0, 0, 1]},
        {"kind": "representing", "dist": [["10", "1/3"], ["11", "1/3"], ["12", "1/3"]], "n": 10, "seed": 7, "tuples": True},
    ]


def generate(rng, tier):
    big = tier == "thorough"
    cases = []
    grid = 40 if big else 14
    for n in range(1, grid + 1):
        for m in range(1, grid + 1):
            cases.append({"kind": "expand", "n": n, "m": m})
    for _ in range(400 if big else 60):
        m = rng.choice([1, 2, 3, 7, 2 ** 53, 2 ** 60, rng.randrange(1, 2 ** 70)])
        q = rng.randrange(0, 40)  # the number of copies is what the code materialises: keep it small
        n = rng.choice([m, m + 1, 2 * m - 1, q * m + rng.randrange(0, m), q * m + 1, max(1, q * m - 1), max(1, m - 1)])
        cases.append({"kind": "expand", "n": n, "m": m})
    for _ in range(600 if big else 80):
        k = rng.randrange(0, 7)
        m = rng.choice([1, 2, 3, 5, 8, 100, 2 ** 55])
        ns = [rng.choice([m, m + 1, rng.randrange(1, 4 * m + 2), rng.randrange(1, 30) * (1 if m > 1 else 1)]) for _ in range(k)]
        cases.append({"kind": "expand_sizes", "ns": ns, "m": m})
        if k >= 2:
            # the same (equal) circuit at several, also consecutive, positions of the request
            labels = [rng.randrange(0, 2) for _ in range(k)]
            cases.append({"kind": "expand_sizes", "ns": ns, "m": m, "labels": labels})
    for _ in range(400 if big else 60):
        k = rng.randrange(0, 6)
        mults = [rng.randrange(1, 4) for _ in range(k)]
        tot = sum(mults) + (rng.choice([-1, 1]) if rng.random() < 0.15 and sum(mults) > 0 else 0)
        allb = [[format(rng.randrange(8), "03b") for _ in range(rng.randrange(0, 4))] for _ in range(tot)]
        cases.append({"kind": "combine_bitstrings", "all": allb, "mults": mults})
        allc = []
        for _ in range(tot):
            c = Counter(format(rng.randrange(4), "02b") for _ in range(rng.randrange(1, 6)))
            allc.append([[k2, v] for k2, v in c.items()])
        cases.append({"kind": "combine_counts", "all": allc, "mults": mults})
        if tot >= 2 and tot == sum(mults):
            rep = [allc[0]] * tot if rng.random() < 0.5 else [rng.choice(allc[:2]) for _ in range(tot)]
            cases.append({"kind": "combine_counts", "all": rep, "mults": mults, "alias": True})
    for _ in range(400 if big else 60):
        k = rng.randrange(0, 12)
        ns = [rng.randrange(1, 50) for _ in range(k)]
        mx = rng.choice([1, 2, 3, 4, 5, 7, 20, 0, -1])
        c = {"kind": "batches", "ns": ns, "max": mx}
        if rng.random() < 0.1:
            c["n_circuits"] = k + 1
        cases.append(c)
    for _ in range(400 if big else 80):
        k = rng.randrange(1, 7)
        if rng.random() < 0.6:
            # dyadic weights with a power-of-two sum: floats are exact, compare with the model
            parts = [rng.randrange(1, 9) for _ in range(k)]
            s = sum(parts)
            p2 = 1
            while p2 < s:
                p2 *= 2
            parts[-1] += p2 - s
            scale = rng.choice([1, 2, 4, 8])
            vals = [rat(Fraction(p, scale)) for p in parts]
            cases.append({"kind": "scale", "values": vals, "total": rng.randrange(1, 200), "exact": True})
        else:
            vals = [rat(Fraction(rng.randrange(1, 1000), rng.randrange(1, 1000))) for _ in range(k)]
            cases.append({"kind": "scale", "values": vals, "total": rng.randrange(1, 5000), "exact": False})
    for _ in range(300 if big else 60):
        w = rng.randrange(1, 4)
        nk = rng.randrange(1, min(2 ** w, 6) + 1)
        keys = rng.sample([format(i, f"0{w}b") for i in range(2 ** w)], nk)
        den = rng.choice([2, 4, 8, 16, 32])
        cuts = sorted(rng.randrange(0, den + 1) for _ in range(nk - 1))
        ps = [b - a for a, b in zip([0] + cuts, cuts + [den])]
        dist = [[k2, rat(Fraction(p, den))] for k2, p in zip(keys, ps)]
        cases.append({"kind": "representing", "dist": dist, "n": rng.randrange(1, 40), "seed": rng.randrange(2 ** 31)})
    for _ in range(200 if big else 40):
        # outcomes that are tuples of small integers, not bits (entries of two digits included)
        nk = rng.randrange(2, 6)
        width = rng.randrange(1, 3)
        keys = set()
        while len(keys) < nk:
            keys.add(",".join(str(rng.choice([0, 1, 2, 9, 10, 11, 12])) for _ in range(width)))
        den = rng.choice([4, 8, 16])
        cuts = sorted(rng.randrange(0, den + 1) for _ in range(nk - 1))
        ps = [b - a for a, b in zip([0] + cuts, cuts + [den])]
        if rng.random() < 0.5:
            ps, den = [1] * nk, nk
        dist = [[k2, rat(Fraction(p, den))] for k2, p in zip(sorted(keys), ps)]
        cases.append({"kind": "representing", "dist": dist, "n": rng.randrange(1, 30), "seed": rng.randrange(2 ** 31), "tuples": True})
    for _ in range(300 if big else 60):
        # uniform distributions: the rounding stage leaves a deficit / excess of several shots
        w = rng.randrange(1, 5)
        keys = [format(i, f"0{w}b") for i in range(2 ** w)]
        dist = [[k2, rat(Fraction(1, 2 ** w))] for k2 in keys]
        cases.append({"kind": "representing", "dist": dist, "n": rng.randrange(1, 3 * 2 ** w), "seed": rng.randrange(2 ** 31)})
    return cases


def nontrivial(c):
    k = c["kind"]
    if k == "expand":
        return c["n"] % c["m"] != 0 and c["n"] > c["m"]
    if k == "expand_sizes":
        return len(c["ns"]) >= 2 and any(n % c["m"] for n in c["ns"])
    if k in ("combine_bitstrings", "combine_counts"):
        return len(c["mults"]) >= 2 and max(c["mults"]) >= 2
    if k == "batches":
        return c["max"] >= 1 and len(c["ns"]) % max(c["max"], 1) != 0 and len(c["ns"]) > c["max"]
    if k == "scale":
        return len(c["values"]) >= 2
    if k == "representing":
        return len(c["dist"]) >= 2
    return False


def run_impl(c):
    it, Measurements, MOD, scale_and_discretize = _mods()
    k = c["kind"]
    try:
        if k == "expand":
            ns, mult = it._expand_sample_size(c["n"], c["m"])
            return {"ns": list(ns), "mult": mult}
        if k == "expand_sizes":
            cs = c.get("labels") or list(range(len(c["ns"])))
            a, b, m = it.expand_sample_sizes(cs, c["ns"], c["m"])
            return {"circuits": list(a), "ns": list(b), "mults": list(m)}
        if k == "combine_bitstrings":
            return {"res": it.combine_bitstrings(c["all"], c["mults"])}
        if k == "combine_counts":
            if c.get("alias"):
                # equal per-copy results are the SAME dict object (a memoising backend returns shared objects)
                pool = {}
                args = [pool.setdefault(common.canon(d), dict(map(tuple, d))) for d in c["all"]]
            else:
                args = [dict(map(tuple, d)) for d in c["all"]]
            res = it.combine_measurement_counts(args, c["mults"])
            out = {"res": [[[kk, v] for kk, v in d.items()] for d in res]}
            out["args_intact"] = [sorted(a.items()) for a in args] == [sorted(map(tuple, d)) for d in c["all"]]
            res2 = it.combine_measurement_counts(args, c["mults"])
            out["again"] = [[[kk, v] for kk, v in d.items()] for d in res2]
            return out
        if k == "batches":
            cs = list(range(c.get("n_circuits", len(c["ns"]))))
            res = list(it.split_into_batches(cs, c["ns"], c["max"]))
            return {"res": [[list(b), n] for b, n in res]}
        if k == "scale":
            vals = [float(unrat(v)) for v in c["values"]]
            return {"res": [int(x) for x in scale_and_discretize(vals, c["total"])]}
        if k == "representing":
            import numpy as np
            np.random.seed(c["seed"])
            if c.get("tuples"):
                d = MOD({tuple(int(x) for x in kk.split(",")): float(unrat(p)) for kk, p in c["dist"]})
                show = lambda t: ",".join(str(b) for b in t)  # noqa: E731
            else:
                d = MOD({kk: float(unrat(p)) for kk, p in c["dist"]})
                show = lambda t: "".join(str(b) for b in t)  # noqa: E731
            before = dict(d.distribution_dict)
            m = Measurements.get_measurements_representing_distribution(d, c["n"])
            return {"res": [show(t) for t in m.bitstrings],
                    "source_intact": before == d.distribution_dict}
    except ValueError as e:
        return {"err": "err:value", "msg": str(e)[:100]}
    raise AssertionError("unknown kind")


def requests(c, out):
    k = c["kind"]
    if k == "expand":
        return [("expand", {"n": c["n"], "m": c["m"]})]
    if k == "expand_sizes":
        return [("expand_sizes", {"circuits": c.get("labels") or list(range(len(c["ns"]))), "ns": c["ns"], "m": c["m"]})]
    if k == "combine_bitstrings":
        return [("combine_bitstrings", {"all": c["all"], "mults": c["mults"]})]
    if k == "combine_counts":
        return [("combine_counts", {"all": c["all"], "mults": c["mults"]})]
    if k == "batches":
        return [("batches", {"circuits": list(range(c.get("n_circuits", len(c["ns"])))), "ns": c["ns"], "max": c["max"]})]
    if k == "scale":
        return [("scale", {"values": c["values"], "total": c["total"], "order": []})] if c["exact"] else []
    if k == "representing":
        if "res" not in out:
            return []
        return [("representing_check", {"dist": c["dist"], "n": c["n"], "result": out["res"]})]
    return []


def compare(c, out, resp):
    r = resp[0]
    if isinstance(r, dict) and "driver_error" in r:
        return "driver error: " + r["driver_error"]
    k = c["kind"]
    if k == "expand":
        if out.get("ns") != r["ns"] or [out.get("mult")] != r["mult"]:
            return f"_expand_sample_size: impl {out} model {r}"
    elif k == "expand_sizes":
        if (out.get("circuits"), out.get("ns"), out.get("mults")) != (r["circuits"], r["ns"], r["mults"]):
            return f"expand_sample_sizes: impl {out} model {r}"
    elif k == "combine_bitstrings":
        if (out.get("err") or out.get("res")) != r:
            return f"combine_bitstrings: impl {out} model {r}"
    elif k == "combine_counts":
        got = out.get("err") or out.get("res")
        want = "err:value" if r == "err" else r
        if got != want:
            return f"combine_measurement_counts: impl {out} model {r}"
    elif k == "batches":
        want = r if isinstance(r, str) else [[b[0], b[1][0]] for b in r]
        if (out.get("err") or out.get("res")) != want:
            return f"split_into_batches: impl {out} model {want}"
    elif k == "scale":
        floors, rem = r["floors"], [unrat(x) for x in r["remainders"]]
        res = out.get("res")
        if res is None or len(res) != len(floors):
            return f"scale_and_discretize: impl {out} model floors {floors}"
        bumps = [a - b for a, b in zip(res, floors)]
        if any(b not in (0, 1) for b in bumps):
            return f"scale_and_discretize: impl {res} is not floors {floors} plus 0/1"
        kk = c["total"] - sum(floors)
        if sum(bumps) != kk:
            return f"scale_and_discretize: {sum(bumps)} bumps, model leftover {kk}"
        lo = min([rem[i] for i, b in enumerate(bumps) if b], default=None)
        hi = max([rem[i] for i, b in enumerate(bumps) if not b], default=None)
        if lo is not None and hi is not None and lo < hi:
            return "scale_and_discretize: bumped an entry with a smaller remainder than an unbumped one"
    elif k == "representing":
        if not r.get("ok"):
            return f"get_measurements_representing_distribution: impl {out.get('res')} not reproduced by the model: {r}"
    return None


def oracle(c, out):
    """the property's own sentences, on the implementation's output only"""
    k = c["kind"]
    if k == "expand":
        n, m = c["n"], c["m"]
        ns = out.get("ns")
        if ns is None or sum(ns) != n or any(not (1 <= x <= m) for x in ns) or out.get("mult") != len(ns):
            return ("expand-sample-size", f"_expand_sample_size({n},{m}) = {out}: counts must lie in 1..max, sum to n, multiplicity = #copies")
    elif k == "expand_sizes":
        ns, m = c["ns"], c["m"]
        if "ns" not in out:
            return ("expand-sizes-raise", f"expand_sample_sizes raised {out}")
        new, mults, circ = out["ns"], out["mults"], out["circuits"]
        if any(not (1 <= x <= m) for x in new):
            return ("expand-sizes", f"expanded counts {new} outside 1..{m}")
        pos, tot = 0, []
        for mu in mults:
            tot.append(sum(new[pos:pos + mu]))
            pos += mu
        if tot != ns or pos != len(new) or len(mults) != len(ns):
            return ("expand-sizes", f"per-circuit totals {tot} differ from requested {ns}")
        labels = c.get("labels") or list(range(len(ns)))
        want = [labels[i] for i, mu in enumerate(mults) for _ in range(mu)]
        if circ != want:
            return ("expand-sizes-order", f"expanded circuits {circ} not grouped in order {want}")
    elif k == "combine_bitstrings":
        if len(c["all"]) != sum(c["mults"]):
            return None if out.get("err") else ("combine-accepts-mismatch", "length mismatch accepted")
        if "res" not in out:
            return ("combine-raise", f"combine_bitstrings raised {out}")
        pos, want = 0, []
        for mu in c["mults"]:
            want.append([b for g in c["all"][pos:pos + mu] for b in g])
            pos += mu
        if out["res"] != want:
            return ("combine-bitstrings", f"combined {out['res']} but groups are {want}")
    elif k == "combine_counts":
        if len(c["all"]) != sum(c["mults"]):
            return None if out.get("err") else ("combine-accepts-mismatch", "length mismatch accepted")
        if "res" not in out:
            return ("combine-raise", f"combine_measurement_counts raised {out}")
        pos = 0
        for mu, got in zip(c["mults"], out["res"]):
            want = Counter()
            for g in c["all"][pos:pos + mu]:
                for kk, v in g:
                    want[kk] += v
            pos += mu
            if dict(want) != dict(map(tuple, got)):
                return ("combine-counts", f"combined counts {got} but group totals are {dict(want)}")
        if len(out["res"]) != len(c["mults"]):
            return ("combine-counts", "wrong number of combined results")
        if [sorted(map(tuple, d)) for d in out.get("again", out["res"])] != [sorted(map(tuple, d)) for d in out["res"]]:
            return ("combine-counts-repeat", "combining the same per-copy results a second time gave different totals")
        if not out.get("args_intact", True):
            return ("combine-counts-mutates", "combine_measurement_counts modified the per-copy results it was given")
    elif k == "batches":
        nc = c.get("n_circuits", len(c["ns"]))
        bad = nc != len(c["ns"]) or c["max"] <= 0
        if bad:
            return None if out.get("err") else ("batches-accept-invalid", f"invalid request accepted: {out}")
        if "res" not in out:
            return ("batches-raise", f"split_into_batches raised {out}")
        flat = [x for b, _ in out["res"] for x in b]
        if flat != list(range(nc)):
            return ("batches-cover", f"batches {out['res']} do not cover circuits 0..{nc - 1} once in order")
        for b, n in out["res"]:
            if not (1 <= len(b) <= c["max"]):
                return ("batches-size", f"batch {b} violates size bound {c['max']}")
            if any(c["ns"][i] > n for i in b):
                return ("batches-samples", f"batch {b} requests {n} < a circuit's request")
    elif k == "scale":
        if "res" not in out:
            return ("scale-raise", f"scale_and_discretize raised {out}")
        vals = [unrat(v) for v in c["values"]]
        s = sum(vals)
        if sum(out["res"]) != c["total"]:
            return ("scale-sum", f"scaled {out['res']} sums to {sum(out['res'])} != {c['total']}")
        for v, r in zip(vals, out["res"]):
            if abs(r - v * c["total"] / s) > 1 + Fraction(1, 10 ** 6):
                return ("scale-within-one", f"entry {r} farther than one from share {float(v * c['total'] / s)}")
    elif k == "representing":
        if "res" not in out:
            return ("representing-raise", f"get_measurements_representing_distribution raised {out}")
        if len(out["res"]) != c["n"]:
            return ("representing-length", f"{len(out['res'])} shots returned, {c['n']} requested")
        supp = {kk for kk, p in c["dist"] if unrat(p) > 0}
        if any(b not in supp for b in out["res"]):
            return ("representing-support", f"shots {sorted(set(out['res']) - supp)} outside the support")
        if not out.get("source_intact", True):
            return ("representing-mutates", "the distribution argument was modified")
    return None


def distribution(cases, outs):
    rej = sum(1 for o in outs if isinstance(o, dict) and o.get("err"))
    return {"rejected_requests": rej,
            "expand_nonmultiple": sum(1 for c in cases if c["kind"] == "expand" and c["n"] % c["m"]),
            "max_n": max((c["n"] for c in cases if c["kind"] == "expand"), default=0)}
