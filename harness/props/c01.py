"""C01 — a circuit acts as the ordered product of its gates on the named qubits."""
import math
from fractions import Fraction

from .. import circ, common
from ..common import rat, unrat

PROP = "C01"
RULE = ("seeded random lifts / circuits / simulator runs / concatenations + exhaustive ordered index tuples of small "
        "registers + HISTORIES (sequences of lifted_matrix / to_unitary / apply / get_wavefunction / + calls on circuit, "
        "operation, simulator and array objects that are kept alive, each call differing from an earlier one in exactly one "
        "component, results overwritten by the caller in between); non-trivial: >= 2 operations, with at least one gate of "
        "arity >= 2 on non-adjacent or descending indices, or an idle qubit (single lifts: arity >= 2 on non-adjacent or "
        "descending indices, or an idle qubit; histories: >= 2 result-producing calls, one of them on such a circuit); "
        "distinct = distinct canonical JSON of the case")
TRUSTED = [
    "numpy `@`, `np.kron`, `np.eye`, `np.multiply`, `np.exp` and sympy `Matrix.__matmul__`, `kronecker_product`, `eye`, "
    "`transpose` are the matrix product / Kronecker product / identity / entrywise operations (the model computes them "
    "exactly in Q(zeta_8); the check compares with tolerance 1e-9 relative to the largest entry)",
    "`_get_wavefunction_from_native_circuit` of a simulator built on BaseWavefunctionSimulator returns what applying the "
    "operations of the native piece one at a time returns (hypothesis `hnative` of get_wavefunction_eq_applyAll); the "
    "harness subclass satisfies it by an independent bit-manipulation implementation",
    "`itertools.groupby` yields the maximal runs of equal key in order (model: groupBy)",
    "the constructor checks of `Wavefunction(...)` (power-of-two length, unit norm by np.isclose) are the abstract "
    "predicate `valid`; the driver evaluates it exactly (sum |a|^2 = 1)",
    "`gate.matrix` of every operation is an input of this property (its correctness is C02/C07)",
    "histories: the model is a pure function, so it answers every call of a history independently (request per step); "
    "that the implementation's answer does not depend on the calls made before is exactly what the comparison tests",
    "steps on registers wider than 6 qubits and inputs whose Python container / number TYPE matters (list vs ndarray, "
    "float width) are judged by the oracle only",
]
ASSUMPTIONS = [
    "Python int arithmetic on qubit indices = Lean Nat arithmetic (indices >= 0)",
    "np.log2 / 2**x on vector lengths: every non-power-of-two length ends in an exception (model: none)",
    "simulator cases use unitary gates and unit initial states, so the Wavefunction norm check is decided identically "
    "by np.isclose and by the exact model",
    "gates with a free symbol are evaluated at t_c01 = 1 (custom gate M + (t-1)N, built-in G(theta*t)); a product with "
    "free symbols is only generated while its sympy expression stays below 2^15 terms (SYM_BUDGET)",
    "a result object is 'overwritten by the caller' only when it does not share memory with an array the harness passed in",
]

TOL = 1e-9
UNITS = [(1, 0), (0, 1), (-1, 0), (0, -1)]
TEMPLATES = [[1], [Fraction(3, 5), Fraction(4, 5)], [Fraction(1, 3), Fraction(2, 3), Fraction(2, 3)],
             [Fraction(1, 2)] * 4, [Fraction(2, 7), Fraction(3, 7), Fraction(6, 7)],
             [Fraction(1, 9), Fraction(4, 9), Fraction(8, 9)]]
EXACT_UNITARY = ["X", "Y", "Z", "I", "S", "SX", "CNOT", "CZ", "SWAP", "ISWAP", "H", "T"]
ROTATIONS = ["RX", "RY", "RZ", "PHASE", "U3", "GPi", "GPi2", "CPHASE", "XX", "YY", "ZZ", "XY", "MS", "RH"]


# ------------------------------------------------------------------ library objects
def _lib():
    common.use_repo()
    import orquestra.quantum.circuits as oqc
    from orquestra.quantum.circuits import MultiPhaseOperation, split_circuit
    from orquestra.quantum.api.wavefunction_simulator import BaseWavefunctionSimulator
    from orquestra.quantum.runners.symbolic_simulator import SymbolicSimulator
    return oqc, MultiPhaseOperation, split_circuit, BaseWavefunctionSimulator, SymbolicSimulator


def _sym_partner(m):
    """a fixed integer matrix N of the same shape (used to make a gate symbolic: M + (t-1)·N)"""
    d = len(m)
    return [[((3 * i + 5 * j + 1) % 5) - 2 for j in range(d)] for i in range(d)]


def _build_gate(spec, symbolic=False):
    """the REAL gate object; `symbolic` turns a custom gate into one with a free symbol t (value 1): M + (t-1)·N,
    and a parametric built-in gate G(θ…) into G(θ·t…)"""
    if symbolic and "custom" in spec:
        import sympy
        oqc = _lib()[0]
        t = sympy.Symbol("t_c01")
        m = circ.sympy_matrix(spec["m"])
        n = sympy.Matrix(_sym_partner(spec["m"]))
        d = oqc.CustomGateDefinition(spec["custom"] + "_s", m + (t - 1) * n, (t,))
        return d(t)
    if symbolic and _sym_builtin(spec):
        import sympy
        oqc = _lib()[0]
        t = sympy.Symbol("t_c01")
        return getattr(oqc, spec["gate"])(*[circ.theta_of(a) * t for a in spec["angles"]])
    return circ.build_gate(spec)


def _sym_builtin(spec):
    return "gate" in spec and spec["gate"] != "Delay" and circ.BUILTIN_PARAMS[spec["gate"]] > 0


def _symbolizable(o):
    return "g" in o and ("custom" in o["g"] or _sym_builtin(o["g"]))


def _build_op(o, symbolic=False):
    if "mphase" in o:
        MultiPhaseOperation = _lib()[1]
        return MultiPhaseOperation(tuple(circ.theta_of(a) for a in o["mphase"]))
    qs = o["qs"]
    if o.get("qt") == "np":     # qubit indices given as numpy integers
        import numpy as np
        qs = [np.int64(q) for q in qs]
    return _build_gate(o["g"], symbolic)(*qs)


def _is_sym(case, i, o):
    """is operation i of a circuit built with a free symbol?  Per-operation flag "s", or the case-wide pattern "sym"
    (all / mixed = even positions) which applies to custom gates"""
    if "mphase" in o:
        return False
    if o.get("s"):
        return _symbolizable(o)
    s = case.get("sym", "none")
    if "custom" not in o.get("g", {}):
        return False
    return s == "all" or (s == "mixed" and i % 2 == 0)


def _build_circuit(case, cspec):
    """"alias": equal operation specs become ONE operation object used several times; "nt": type of the declared width"""
    oqc = _lib()[0]
    ops, seen = [], {}
    for i, o in enumerate(cspec["ops"]):
        sym = _is_sym(case, i, o)
        key = (common.canon(o), sym)
        if cspec.get("alias") and key in seen:
            ops.append(seen[key])
            continue
        ops.append(_build_op(o, sym))
        seen[key] = ops[-1]
    n = cspec.get("n")
    if n is not None and cspec.get("nt") == "np":
        import numpy as np
        n = np.int64(n)
    elif n is not None and cspec.get("nt") == "float":
        n = float(n)
    c = oqc.Circuit(ops, n_qubits=n)
    from ..circ import scribble
    scribble(ops)  # the caller's own working list lives on and changes; the circuit is a value
    return c


def _evalc(e, memo):
    """value of a sympy expression at t_c01 = 1 as a Python complex.  The products the library builds are DAGs whose
    sub-expressions are shared between entries; sympy's own evalf / xreplace walk them as trees (minutes), this
    evaluator visits every node once."""
    import cmath
    k = id(e)
    v = memo.get(k)
    if v is not None:
        return v
    if e.is_Symbol:
        if e.name != "t_c01":
            raise ValueError(f"unexpected symbol {e}")
        v = 1.0 + 0j
    elif e.is_Number or e.is_NumberSymbol:
        v = complex(e)
    elif e.is_Add:
        v = 0j
        for a in e.args:
            v += _evalc(a, memo)
    elif e.is_Mul:
        v = 1.0 + 0j
        for a in e.args:
            v *= _evalc(a, memo)
    elif e.is_Pow:
        b, x = _evalc(e.args[0], memo), _evalc(e.args[1], memo)
        v = complex(b ** (x.real if x.imag == 0 else x))
    else:
        name = type(e).__name__
        f = {"cos": cmath.cos, "sin": cmath.sin, "exp": cmath.exp, "cosh": cmath.cosh, "sinh": cmath.sinh,
             "tan": cmath.tan}.get(name)
        if name == "ImaginaryUnit":
            v = 1j
        elif f is not None and len(e.args) == 1:
            v = f(_evalc(e.args[0], memo))
        else:
            import sympy
            v = complex(e.xreplace({sympy.Symbol("t_c01"): sympy.Integer(1)}))
    memo[k] = v
    return v


def _subs(x):
    """numpy / sympy / object-array result -> numpy complex array, substituting t = 1"""
    import numpy as np
    import sympy
    if isinstance(x, sympy.MatrixBase):
        memo = {}
        return np.array([[_evalc(sympy.sympify(x[i, j]), memo) for j in range(x.cols)] for i in range(x.rows)], dtype=complex)
    a = np.asarray(x)
    if a.dtype == object:
        memo = {}
        keep = [sympy.sympify(e) for e in a.reshape(-1)]   # (kept alive: the memo is keyed by object identity)
        flat = [_evalc(e, memo) for e in keep]
        return np.array(flat, dtype=complex).reshape(a.shape)
    return a.astype(complex)


def _cjson(a):
    """complex numpy array -> nested lists of [re, im]"""
    import numpy as np
    a = np.asarray(a, dtype=complex)
    return np.stack([a.real, a.imag], axis=-1).tolist()


def _cnp(j):
    import numpy as np
    a = np.array(j, dtype=float)
    return a[..., 0] + 1j * a[..., 1]


def _vec(v):
    import numpy as np
    return np.array([complex(float(unrat(e[0])), float(unrat(e[1]))) for e in v], dtype=complex)


def _exact_matrix(g):
    """gate.matrix of a wrapped gate as exact Gaussian rationals (None when an entry is not one)"""
    import sympy
    rows = []
    for i in range(g.matrix.rows):
        row = []
        for j in range(g.matrix.cols):
            e = sympy.nsimplify(g.matrix[i, j])
            re, im = sympy.re(e), sympy.im(e)
            if not (re.is_Rational and im.is_Rational):
                return None
            row.append([rat(Fraction(int(re.p), int(re.q))), rat(Fraction(int(im.p), int(im.q)))])
        rows.append(row)
    return rows


def _try(f):
    """value of f(), or "err:<type>:<message>" when the library refuses (the oracle decides whether it may: a refusal
    on an in-domain input is a failure; which exception type it is does not matter)"""
    try:
        return f()
    except Exception as e:
        if type(e).__name__ == "Timeout":   # the runner's own alarm
            raise
        return "err:" + type(e).__name__ + ":" + str(e)[:60]


def _is_err(x):
    return isinstance(x, str) and x.startswith("err")


def _pred(MultiPhaseOperation, p):
    def pred(op):
        if isinstance(op, MultiPhaseOperation):
            return p["mphase"]
        a = len(op.qubit_indices) in p["arity"]
        b = len(op.qubit_indices) > 0 and op.qubit_indices[0] in p["q0"]
        return (a or b) if p["any"] else (a and b)
    return pred


def _harness_sim(native):
    """a simulator built on the base class whose native set is the predicate `native`; native pieces are evolved by
    an independent bit-manipulation implementation"""
    import numpy as np
    oqc, MultiPhaseOperation, _split, Base, _Sym = _lib()
    pred = _pred(MultiPhaseOperation, native)

    class HarnessSimulator(Base):
        def is_natively_supported(self, operation):
            return pred(operation)

        def _get_wavefunction_from_native_circuit(self, circuit, initial_state):
            state = np.asarray(initial_state, dtype=complex)
            for op in circuit.operations:
                if isinstance(op, oqc.GateOperation):
                    g = np.array(op.gate.matrix.tolist(), dtype=complex)
                    state = circ.embed_reference(g, list(op.qubit_indices), circuit.n_qubits) @ state
                else:
                    state = state * np.exp(1j * np.asarray(op.params, dtype=float))
            return state

    return HarnessSimulator()


def _wrapped_mats(cspec):
    """exact matrices of the operations whose gate is neither a plain built-in nor a plain custom gate"""
    out = {}
    for i, o in enumerate(cspec["ops"]):
        if "g" in o and _raw_angles(o["g"]):
            out[str(i)] = None   # entries are not Gaussian rationals: the step is judged by the oracle only
        elif "g" in o and "gate" not in o["g"] and "custom" not in o["g"]:
            out[str(i)] = _try(lambda: _exact_matrix(circ.build_gate(o["g"])))
    return out


def _raw_angles(g):
    return "gate" in g and any(isinstance(a, dict) for a in g.get("angles", []))


def _circuit_obs(case, cspec, with_unitary=True):
    c = _try(lambda: _build_circuit(case, cspec))
    if _is_err(c):
        return {"n": c, "len": None, "unitary": c}
    res = {"n": int(c.n_qubits), "len": len(c.operations)}
    if cspec.get("nt") == "float":
        res["ntype"] = type(c.n_qubits).__name__
    if with_unitary:
        u = _try(lambda: c.to_unitary())
        res["unitary"] = u if _is_err(u) else _cjson(_subs(u))
    return res


# ------------------------------------------------------------------ implementation
def run_impl(case):
    import warnings

    warnings.filterwarnings("ignore", category=RuntimeWarning)
    warnings.filterwarnings("ignore", category=DeprecationWarning)
    oqc, MultiPhaseOperation, split_circuit, Base, SymbolicSimulator = _lib()
    k = case["kind"]
    if k == "lift":
        def f():
            op = _build_gate(case["g"], case.get("sym") == "all" or bool(case.get("s")))(*case["qs"])
            return _cjson(_subs(op.lifted_matrix(case["n"])))
        out = {"lift": _try(f)}
        if "gate" not in case["g"] and "custom" not in case["g"]:
            out["wrapped"] = _try(lambda: _exact_matrix(circ.build_gate(case["g"])))
        return out
    if k == "circuit":
        out = _circuit_obs(case, case)
        out["wrapped"] = _wrapped_mats(case)

        def stepwise():
            c = _build_circuit(case, case)
            state = _vec(case["v"])
            for op in c.operations:
                state = op.apply(state)
            return _cjson(_subs(state))
        out["applied"] = _try(stepwise)
        return out
    if k == "sim":
        out = {"wrapped": _wrapped_mats(case)}
        c = _try(lambda: _build_circuit(case, case))
        if _is_err(c):
            return dict(out, state=c, segments=None)
        v0 = None if case.get("v") is None else _vec(case["v"])
        if case.get("native") is None:
            out["state"] = _try(lambda: _cjson(_subs(SymbolicSimulator().get_wavefunction(c, v0).amplitudes)))
            out["segments"] = None
            return out
        pred = _pred(MultiPhaseOperation, case["native"])
        sim = _harness_sim(case["native"])
        out["state"] = _try(lambda: _cjson(sim.get_wavefunction(c, v0).amplitudes))
        out["segments"] = [[bool(b), len(s.operations), int(s.n_qubits)] for b, s in split_circuit(c, pred)]
        out["jobs"] = int(sim._n_jobs_executed)
        return out
    if k == "add":
        out = {"a": _circuit_obs(case, case["a"]), "b": _circuit_obs(case, case["b"]),
               "wa": _wrapped_mats(case["a"]), "wb": _wrapped_mats(case["b"])}

        def f():
            s = _build_circuit(case, case["a"]) + _build_circuit(case, case["b"])
            u = _try(lambda: s.to_unitary())
            return {"n": int(s.n_qubits), "len": len(s.operations), "unitary": u if _is_err(u) else _cjson(_subs(u))}
        out["sum"] = _try(f)
        return out
    if k == "add_op":
        out = {"a": _circuit_obs(case, case["a"]), "wa": _wrapped_mats(case["a"]),
               "wb": _wrapped_mats({"ops": [case["op"]]})}

        def f():
            s = _build_circuit(case, case["a"]) + _build_op(case["op"])
            u = _try(lambda: s.to_unitary())
            return {"n": int(s.n_qubits), "len": len(s.operations), "unitary": u if _is_err(u) else _cjson(_subs(u))}
        out["sum"] = _try(f)
        return out
    if k == "hist":
        return _run_hist(case)
    raise AssertionError("unknown kind")


# ------------------------------------------------------------------ histories on long-lived objects
# A history case keeps circuits (and therefore their operation and gate objects), simulators and state-vector arrays
# alive and calls the APIs the property names on them in sequence:
#   {"kind": "hist", "circs": [circuit spec…], "sims": [native predicate | None = bundled SymbolicSimulator, …],
#    "vecs": [exact vector…], "steps": [step…]}
# steps:  {"do": "unitary", "c": i}            circuit i .to_unitary()
#         {"do": "width", "c": i}              n_qubits / number of operations
#         {"do": "lift", "c": i, "k": k, "n": n}      operation k of circuit i .lifted_matrix(n)
#         {"do": "apply", "c": i, "v": j, "vm": mode} the operations of circuit i applied one at a time to vector j
#         {"do": "apply1", "c": i, "k": k, "v": j, "vm": mode}
#         {"do": "sim", "s": m, "c": i, "v": j | None, "vm": mode}   simulator m .get_wavefunction(circuit i, vector j)
#         {"do": "add", "a": i, "b": j}        circuit i + circuit j  -> new circuit (next index)
#         {"do": "add_op", "a": i, "c": j, "k": k}   circuit i + operation k of circuit j -> new circuit
#         {"do": "rebuild", "c": i}            circuit i is replaced by an equal, newly built object (old one dropped)
#         {"do": "rebuild", "c": i, "as": j}   slot i is replaced by a newly built copy of circuit j (old object dropped)
#         {"do": "setvec", "v": j, "from": l}  the long-lived arrays of vector j are overwritten IN PLACE with vector l
# "poison": true on a result step: the returned matrix / vector is overwritten in place by the caller afterwards.
# vector modes: "c" one long-lived complex array per vector, "fresh" a new array per call, "f" float64 / "i" int64
# arrays (when the contents allow), "ro" read-only, "nc" non-contiguous view, "list" a Python list.
RESULT_STEPS = ("unitary", "lift", "apply", "apply1", "sim")


def _mat_vec(pool, content, j, vm):
    import numpy as np
    z = content[j]
    if vm == "fresh":
        return np.array(z, dtype=complex)
    if vm == "list":
        return [complex(x) for x in z]
    if vm == "f" and not np.all(z.imag == 0):
        vm = "c"
    if vm == "i" and not (np.all(z.imag == 0) and np.all(z.real == np.round(z.real)) and np.all(np.abs(z.real) < 2 ** 50)):
        vm = "c"
    key = (j, vm)
    if key not in pool:
        if vm == "f":
            a = np.array(z.real, dtype=np.float64)
        elif vm == "i":
            a = np.array(np.round(z.real), dtype=np.int64)
        elif vm == "nc":
            buf = np.zeros(2 * len(z), dtype=complex)
            a = buf[::2]
            a[:] = z
        else:
            a = np.array(z, dtype=complex)
            if vm == "ro":
                a.flags.writeable = False
        pool[key] = a
    return pool[key]


def _poison(res, pool):
    """the caller overwrites what it was given (never an array it passed in itself)"""
    import numpy as np
    import sympy
    x = res
    if hasattr(res, "amplitudes") and not isinstance(res, (np.ndarray, sympy.MatrixBase)):
        x = res.amplitudes
    if isinstance(x, np.ndarray):
        if any(isinstance(a, np.ndarray) and np.shares_memory(x, a) for a in pool.values()):
            return False
        if not x.flags.writeable:
            return False
        x[...] = 7.5
        return True
    if isinstance(x, sympy.MatrixBase):
        try:
            x.fill(sympy.Rational(15, 2))
            return True
        except (TypeError, AttributeError):
            return False
    return False


def _read(res):
    import numpy as np
    import sympy
    if hasattr(res, "amplitudes") and not isinstance(res, (np.ndarray, sympy.MatrixBase)):
        res = res.amplitudes
    return _cjson(_subs(res))


def _spec_sum(a, b):
    """the specification of a + b: operations concatenated, width the larger of the two"""
    na, nb = _width(a), _width(b)
    n = None if (na is None or nb is None) else (max(na, nb) or None)
    return {"n": n, "ops": a["ops"] + b["ops"], "bad": na is None or nb is None}


def _hist_walk(case):
    """per step: (step, circuit spec it acts on | None, second operand spec | None, exact vector | None) — pure
    bookkeeping on the case, nothing from the implementation"""
    specs = list(case["circs"])
    content = list(case["vecs"])
    rows = []
    for st in case["steps"]:
        do = st["do"]
        if do == "setvec":
            content[st["v"]] = case["vecs"][st["from"]]
            rows.append((st, None, None, None))
        elif do == "rebuild":
            if "as" in st:
                specs[st["c"]] = specs[st["as"]]
            rows.append((st, None, None, None))
        elif do == "add":
            a, b = specs[st["a"]], specs[st["b"]]
            specs.append(_spec_sum(a, b))
            rows.append((st, a, b, None))
        elif do == "add_op":
            a, b = specs[st["a"]], {"n": None, "ops": [specs[st["c"]]["ops"][st["k"]]]}
            specs.append(_spec_sum(a, b))
            rows.append((st, a, b, None))
        else:
            rows.append((st, specs[st["c"]], None, content[st["v"]] if st.get("v") is not None else None))
    return rows


def _run_hist(case):
    import numpy as np
    oqc, MultiPhaseOperation, split_circuit, Base, SymbolicSimulator = _lib()
    env = [_try(lambda cs=cs: _build_circuit(case, cs)) for cs in case["circs"]]
    specs = list(case["circs"])
    sims = [SymbolicSimulator() if nat is None else _harness_sim(nat) for nat in case["sims"]]
    orig = [_vec(v) for v in case["vecs"]]
    content = [a.copy() for a in orig]
    pool, kept, outs = {}, {}, []
    overwritten = set()
    wrapped = [_wrapped_mats(cs) for cs in case["circs"]]

    def vector(st, o):
        if st.get("v") is None:
            return None
        a = _mat_vec(pool, content, st["v"], st.get("vm", "c"))
        now = np.array(a, dtype=complex)
        if now.shape != content[st["v"]].shape or not np.array_equal(now, content[st["v"]]):
            o["vin"] = _cjson(now)  # what is actually passed differs from what the harness put there
        return a

    c = call = res = None
    for si, st in enumerate(case["steps"]):
        do = st["do"]
        o = {}
        if do in ("rebuild",):
            # drop the old object first and try to get the new one at its address (caches keyed by object identity)
            old_id = id(env[st["c"]])
            c = call = res = None   # (locals of earlier steps must not keep the old circuit alive)
            env[st["c"]] = None
            if "as" in st:
                specs[st["c"]] = specs[st["as"]]
            hold = []
            for _attempt in range(30):
                new = _try(lambda: _build_circuit(case, specs[st["c"]]))
                if _is_err(new) or id(new) == old_id:
                    break
                hold.append(new)
            env[st["c"]] = new
            del hold
        elif do == "setvec":
            content[st["v"]] = orig[st["from"]].copy()
            overwritten.add(st["v"])
            for (j, vm) in list(pool):
                if j != st["v"]:
                    continue
                a = pool[(j, vm)]
                z = content[j]
                ok = (vm in ("c", "ro", "nc")) or (vm == "f" and np.all(z.imag == 0)) or \
                     (vm == "i" and np.all(z.imag == 0) and np.all(z.real == np.round(z.real)))
                if not ok or len(a) != len(z):
                    del pool[(j, vm)]
                    continue
                if vm == "ro":
                    a.flags.writeable = True
                a[:] = z.real if vm in ("f", "i") else z
                if vm == "ro":
                    a.flags.writeable = False
        elif do in ("add", "add_op"):
            a = env[st["a"]]
            b = env[st["b"]] if do == "add" else env[st["c"]]
            if _is_err(a) or _is_err(b):
                env.append(a if _is_err(a) else b)
                o["r"] = env[-1]
            else:
                r = _try(lambda: a + (b if do == "add" else b.operations[st["k"]]))
                env.append(r)
                o["r"] = r if _is_err(r) else {"n": int(r.n_qubits), "len": len(r.operations)}
            sb = specs[st["b"]] if do == "add" else {"n": None, "ops": [specs[st["c"]]["ops"][st["k"]]]}
            specs.append(_spec_sum(specs[st["a"]], sb))
        else:
            c = env[st["c"]]
            if _is_err(c):
                o["r"] = c
            elif do == "width":
                o["r"] = {"n": int(c.n_qubits), "len": len(c.operations)}
            else:
                def call():
                    if do == "unitary":
                        return c.to_unitary()
                    if do == "lift":
                        return c.operations[st["k"]].lifted_matrix(st["n"])
                    v = vector(st, o)
                    if do == "apply1":
                        return c.operations[st["k"]].apply(v)
                    if do == "apply":
                        state = v
                        for op in c.operations:
                            state = op.apply(state)
                        return state
                    if do == "sim":
                        return sims[st["s"]].get_wavefunction(c, v)
                    raise AssertionError(do)
                res = _try(call)
                o["r"] = res if _is_err(res) else _read(res)
                if not _is_err(res):
                    if st.get("poison"):
                        o["poisoned"] = _poison(res, pool)
                    else:
                        kept[si] = (res, st.get("v"))
        outs.append(o)
    # the objects handed out earlier must still say what they said (unless the caller overwrote them or an array
    # they may legitimately share memory with)
    for si, (res, vj) in kept.items():
        if vj is not None and vj in overwritten:
            continue
        outs[si]["late"] = _try(lambda: _read(res))
    return {"steps": outs, "wrapped": wrapped}


# ------------------------------------------------------------------ model requests
def _model_op(o, wrapped, i):
    if "mphase" in o:
        return {"mphase": o["mphase"]}
    g = o["g"]
    if "gate" in g and not _raw_angles(g):
        return {"gate": g["gate"], "angles": g["angles"], "qs": o["qs"]}
    if "custom" in g:
        return {"m": g["m"], "qs": o["qs"]}
    m = wrapped.get(str(i)) if isinstance(wrapped, dict) else wrapped
    if m is None or _is_err(m):
        raise KeyError("no exact matrix for wrapped gate")
    return {"m": m, "qs": o["qs"]}


def _model_circ(cspec, wrapped):
    return {"n": cspec.get("n"), "ops": [_model_op(o, wrapped, i) for i, o in enumerate(cspec["ops"])]}


def requests(case, out):
    k = case["kind"]
    try:
        if k == "lift":
            o = _model_op({"g": case["g"], "qs": case["qs"]}, out.get("wrapped"), 0)
            return [("lift", dict(o, n=case["n"]))]
        if k == "circuit":
            if case.get("nt") == "float":
                return []   # known finding declared-width-integral-float: the model's widths are naturals
            mc = _model_circ(case, out.get("wrapped", {}))
            return [("circuit", mc), ("apply_all", {"ops": mc["ops"], "v": case["v"]})]
        if k == "sim":
            mc = _model_circ(case, out.get("wrapped", {}))
            return [("wavefunction", dict(mc, v=case.get("v"), native=case.get("native")))]
        if k == "add":
            return [("add_circuit", {"a": _model_circ(case["a"], out["wa"]), "b": _model_circ(case["b"], out["wb"])})]
        if k == "add_op":
            return [("add_op", {"a": _model_circ(case["a"], out["wa"]), "op": _model_op(case["op"], out["wb"], 0)})]
        if k == "hist":
            return [r for _, r in _hist_plan(case, out)]
    except KeyError:
        return []
    return []


MODEL_MAX_WIDTH = 6   # the exact model multiplies 2^n x 2^n matrices over Q(zeta_8): wider steps are oracle-only


def _hist_plan(case, out):
    """[(step index, model request)] for the steps the model answers"""
    if not isinstance(out, dict) or "steps" not in out:
        return []
    mops = []
    for cs, w in zip(case["circs"], out["wrapped"]):
        try:
            mops.append([_model_op(o, w, i) for i, o in enumerate(cs["ops"])])
        except KeyError:
            mops.append(None)
    plan = []
    for si, (st, a, b, v) in enumerate(_hist_walk(case)):
        do = st["do"]
        if do == "rebuild" and "as" in st:
            mops[st["c"]] = mops[st["as"]]
        if do == "setvec" or do == "rebuild":
            continue
        if do in ("add", "add_op"):
            ma = mops[st["a"]]
            mb = mops[st["b"]] if do == "add" else (None if mops[st["c"]] is None else [mops[st["c"]][st["k"]]])
            ok = ma is not None and mb is not None
            mops.append(ma + mb if ok else None)
            wide = max(_width(a) or 0, _width(b) or 0) > MODEL_MAX_WIDTH
            if ok and not wide:
                if do == "add":
                    plan.append((si, ("add_circuit", {"a": {"n": a.get("n"), "ops": ma}, "b": {"n": b.get("n"), "ops": mb}})))
                else:
                    plan.append((si, ("add_op", {"a": {"n": a.get("n"), "ops": ma}, "op": mb[0]})))
            continue
        m = mops[st["c"]]
        n = _width(a)
        if m is None or n is None or n > MODEL_MAX_WIDTH or "vin" in out["steps"][si] or a.get("nt") == "float":
            continue
        if st.get("vm") == "list" and st.get("v") is not None and _has_sym(case, a):
            continue  # known finding symbolic-gate-list-vector: the model has vectors, not Python container types
        mc = {"n": a.get("n"), "ops": m}
        if do in ("unitary", "width"):
            plan.append((si, ("circuit", mc)))
        elif do == "lift":
            if st["n"] <= MODEL_MAX_WIDTH and "mphase" not in a["ops"][st["k"]]:
                plan.append((si, ("lift", dict(m[st["k"]], n=st["n"]))))
        elif do == "apply":
            plan.append((si, ("apply_all", {"ops": m, "v": v})))
        elif do == "apply1":
            plan.append((si, ("apply_all", {"ops": [m[st["k"]]], "v": v})))
        elif do == "sim":
            if v is not None and len(v) != 2 ** n:
                continue  # outside the domain (the harness simulator's native part sizes the state by the circuit)
            plan.append((si, ("wavefunction", dict(mc, v=v, native=case["sims"][st["s"]]))))
    return plan


def _cmp_hist(case, out, resp):
    plan = _hist_plan(case, out)
    if len(plan) != len(resp):
        return f"history: {len(plan)} model requests but {len(resp)} responses"
    for (si, _req), r in zip(plan, resp):
        st = case["steps"][si]
        do = st["do"]
        got = out["steps"][si].get("r")
        what = f"history step {si} ({do})"
        if do == "width":
            m = _cmp_circ(what, got, r, skip_unitary=True)
        elif do == "unitary":
            if r == "err":
                m = None if _is_err(got) else f"{what}: implementation {str(got)[:80]} model err"
            else:
                m = _cmp_matrix(what, got, r["unitary"])
        elif do in ("add", "add_op"):
            m = _cmp_circ(what, got, r, skip_unitary=True)
        elif do == "lift":
            m = _cmp_matrix(what, got, r)
        elif do in ("apply", "apply1"):
            m = _cmp_matrix(what, got, r, vector=True)
        else:
            if isinstance(r, dict):
                r = r["state"]
            m = _cmp_matrix(what, got, r, vector=True)
        if m:
            return m
    return None


def _model_np(resp):
    import numpy as np
    return np.array([[common.cyc_to_complex(x) for x in row] for row in resp], dtype=complex)


def _close(a, b):
    import numpy as np
    a, b = np.asarray(a, dtype=complex), np.asarray(b, dtype=complex)
    if a.shape != b.shape:
        return False
    scale = max(1.0, float(np.max(np.abs(b))) if b.size else 1.0)
    return bool(np.all(np.abs(a - b) <= TOL * scale))


def _cmp_matrix(what, impl, model, vector=False):
    """impl: err string or [re,im] lists; model: "err" or driver matrix"""
    if _is_err(impl) or model == "err":
        if _is_err(impl) and model == "err":
            return None
        return f"{what}: implementation {str(impl)[:80]} but model {str(model)[:80]}"
    a = _cnp(impl)
    b = _model_np(model)
    if vector:
        b = b.reshape(-1)
    if not _close(a, b):
        return f"{what}: implementation and model differ (impl {str(impl)[:160]} model {str(b.tolist())[:160]})"
    return None


def _cmp_circ(what, impl, model, skip_unitary=False):
    if _is_err(impl) or (isinstance(impl, dict) and _is_err(impl.get("n"))) or model == "err":
        ie = _is_err(impl) or (isinstance(impl, dict) and _is_err(impl.get("n")))
        return None if (ie and model == "err") else f"{what}: implementation {str(impl)[:80]} model {str(model)[:80]}"
    if impl["n"] != model["n"] or impl["len"] != model["len"]:
        return f"{what}: width/length implementation {impl['n']}/{impl['len']} model {model['n']}/{model['len']}"
    if skip_unitary:
        return None
    return _cmp_matrix(what + ".to_unitary", impl["unitary"], model["unitary"])


def compare(case, out, resp):
    for r in resp:
        if isinstance(r, dict) and "driver_error" in r:
            return "driver error: " + r["driver_error"]
    k = case["kind"]
    if k == "lift":
        return _cmp_matrix("lifted_matrix", out["lift"], resp[0])
    if k == "circuit":
        # mixed symbolic / numeric circuits: to_unitary() is compared after substituting the symbol (t = 1)
        m = _cmp_circ("Circuit", out, resp[0])
        if m:
            return m
        return _cmp_matrix("step-wise apply", out["applied"], resp[1], vector=True)
    if k == "sim":
        r = resp[0]
        if case.get("native") is None:
            return _cmp_matrix("SymbolicSimulator.get_wavefunction", out["state"], r, vector=True)
        if r == "err":
            return None if _is_err(out["state"]) else f"get_wavefunction: implementation {str(out['state'])[:80]} model err"
        if out["segments"] != r["segments"]:
            return f"split_circuit: implementation {out['segments']} model {r['segments']}"
        return _cmp_matrix("BaseWavefunctionSimulator.get_wavefunction", out["state"], r["state"], vector=True)
    if k in ("add", "add_op"):
        return _cmp_circ("Circuit.__add__", out["sum"], resp[0])
    if k == "hist":
        return _cmp_hist(case, out, resp)
    return None


# ------------------------------------------------------------------ oracle (independent of the model)
def _arity(o):
    return circ.spec_num_qubits(o["g"])


def _width(cspec):
    """width the library must report, or None when the circuit is outside the domain"""
    idx = []
    for o in cspec["ops"]:
        if "mphase" in o:
            ln = len(o["mphase"])
            if ln < 1 or ln & (ln - 1):
                return None
            idx += list(range(ln.bit_length() - 1))
        else:
            idx += o["qs"]
    n = cspec.get("n")
    if n:
        return n
    if cspec["ops"] and not idx:
        return None
    return max(idx) + 1 if idx else 0


def _op_ok(o, n):
    if "mphase" in o:
        return len(o["mphase"]) == 2 ** n
    qs = o["qs"]
    return (len(qs) >= 1 and len(set(qs)) == len(qs) and all(0 <= q < n for q in qs) and len(qs) == _arity(o))


def _gate_np(o):
    import numpy as np
    if "custom" in o["g"]:
        return circ.numpy_matrix(o["g"]["m"])
    return np.array(circ.build_gate(o["g"]).matrix.tolist(), dtype=complex)


def _op_matrix(o, n):
    """the operation's own matrix placed on its qubits by bit manipulation; phases: a diagonal"""
    import numpy as np
    if "mphase" in o:
        return np.diag([complex(math.cos(circ.theta_of(a)), math.sin(circ.theta_of(a))) for a in o["mphase"]])
    return circ.embed_reference(_gate_np(o), o["qs"], n)


_product_memo = {}


def _product(ops, n):
    """reference matrix of a program: each operation's own matrix on its qubits, multiplied in program order"""
    import numpy as np
    key = None
    if n >= 7:  # (wide registers only: the same program is asked for several times within one history)
        key = (n, common.canon(ops))
        if key in _product_memo:
            return _product_memo[key].copy()
    u = np.eye(2 ** n, dtype=complex)
    for o in ops:
        u = _op_matrix(o, n) @ u
    if key is not None:
        if len(_product_memo) > 4:
            _product_memo.clear()
        _product_memo[key] = u.copy()
    return u


def _sig_mixed(case, got):
    return case.get("sym") == "mixed" and _is_err(got) and "invalid literal" in got


def _valid(spec):
    """width of a circuit inside the property's domain (>= 1 qubit, every operation well-formed), else None"""
    if spec.get("bad"):
        return None
    n = _width(spec)
    if n is None or n < 1 or not all(_op_ok(o, n) for o in spec["ops"]):
        return None
    return n


def _has_sym(case, spec):
    return any(_is_sym(case, i, o) for i, o in enumerate(spec["ops"]))


def _chk_lift(o, n, got, where=""):
    if not (n >= 1 and "mphase" not in o and _op_ok(o, n)):
        return None
    if _is_err(got):
        return ("lift-raise", f"{where}lifted_matrix({n}) of a valid operation on {o['qs']} raised {got}")
    if not _close(_cnp(got), circ.embed_reference(_gate_np(o), o["qs"], n)):
        return ("lift-embedding", f"{where}gate on qubits {o['qs']} of {n}: lifted matrix is not the gate on exactly those "
                                  "qubits and identity elsewhere")
    return None


def _float_width(spec, got):
    return spec.get("nt") == "float" and _is_err(got) and "cannot be interpreted as an integer" in got


def _chk_unitary(case, spec, got, where=""):
    n = _valid(spec)
    if n is None or not spec["ops"] or any("mphase" in o for o in spec["ops"]):
        return None
    if _float_width(spec, got):
        return ("declared-width-integral-float", where + "Circuit(ops, n_qubits=%r) is accepted (the constructor checks that "
                "the value is integral) but keeps the float, and to_unitary() raised %s" % (float(n), got))
    if _sig_mixed(case, got):
        return ("mixed-symbolic-numeric-unitary",
                where + "to_unitary() of a circuit mixing a gate with free symbols and a gate without raised " + got)
    if _is_err(got):
        return ("unitary-raise", f"{where}to_unitary() of a valid circuit raised {got}")
    if not _close(_cnp(got), _product(spec["ops"], n)):
        return ("unitary-product", where + "to_unitary() is not the ordered product of the gates on their qubits")
    return None


def _chk_apply(ops, n, v, got, where=""):
    """ops applied one at a time to the vector v (numpy) of length 2^n"""
    if n < 1 or len(v) != 2 ** n or not all(_op_ok(o, n) for o in ops):
        return None
    if _is_err(got):
        return ("apply-raise", f"{where}step-wise apply on a valid circuit raised {got}")
    if not _close(_cnp(got), _product(ops, n) @ v):
        return ("apply-product", where + "applying the operations one at a time differs from the circuit matrix times the state")
    return None


def _chk_sim(spec, v, got, native, where=""):
    import numpy as np
    n = _valid(spec)
    if n is None:
        return None
    v0 = np.eye(2 ** n, dtype=complex)[:, 0] if v is None else v
    if len(v0) != 2 ** n:
        return None
    want = _product(spec["ops"], n) @ v0
    if abs(float(np.sum(np.abs(want) ** 2)) - 1.0) > 1e-9:
        return None  # the Wavefunction constructor rejects it: outside the domain of a final *state*
    if _float_width(spec, got):
        return ("declared-width-integral-float", where + "Circuit(ops, n_qubits=%r) is accepted but keeps the float, and "
                "get_wavefunction raised %s" % (float(n), got))
    if _is_err(got):
        return ("simulator-raise", f"{where}get_wavefunction on a valid circuit raised {got}")
    if not _close(_cnp(got), want):
        return ("simulator-state", where + "simulator final state differs from the circuit matrix applied to the initial state "
                                   f"(native={native})")
    return None


def _chk_sum(a, b, got, where=""):
    """width / length of a + b (the matrix of the sum is checked where it is asked for)"""
    na, nb = _width(a), _width(b)
    if na is None or nb is None or any("mphase" in o for o in a["ops"] + b["ops"]):
        return None
    if not all(_op_ok(o, na) for o in a["ops"]) or not all(_op_ok(o, nb) for o in b["ops"]):
        return None
    if _is_err(got):
        return ("add-raise", f"{where}adding valid circuits raised {got}")
    if got["n"] != max(na, nb):
        return ("add-width", f"{where}width of the concatenation is {got['n']}, the larger of {na} and {nb} is {max(na, nb)}")
    if got["len"] != len(a["ops"]) + len(b["ops"]):
        return ("add-length", where + "concatenation lost or invented an operation")
    return None


def _oracle_hist(case, out):
    outs = out["steps"]
    for si, (st, a, b, v) in enumerate(_hist_walk(case)):
        do = st["do"]
        if do in ("setvec", "rebuild"):
            continue
        o = outs[si]
        got = o.get("r")
        where = f"history step {si} ({do}" + (", after the caller overwrote an earlier result" if any(
            x.get("poisoned") for x in outs[:si]) else "") + "): "
        if do in ("add", "add_op"):
            res = _chk_sum(a, b, got, where)
        elif do == "width":
            n = _valid(a)
            res = None
            if n is not None and (_is_err(got) or got["n"] != n or got["len"] != len(a["ops"])):
                res = ("circuit-width", f"{where}n_qubits/len {got} expected {n}/{len(a['ops'])}")
        elif do == "unitary":
            res = _chk_unitary(case, a, got, where)
        elif do == "lift":
            res = _chk_lift(a["ops"][st["k"]], st["n"], got, where)
        else:
            vv = None
            if v is not None:
                vv = _cnp(o["vin"]) if "vin" in o else _vec(v)
            if st.get("vm") == "list" and _has_sym(case, a) and _is_err(got) and "unsupported operand" in got:
                res = ("symbolic-gate-list-vector", where + "a gate with a free symbol applied to a state given as a Python "
                       "list raised " + got)
            elif do == "sim":
                res = _chk_sim(a, vv, got, case["sims"][st["s"]], where)
            elif vv is None:
                res = None
            elif do == "apply1":
                ln = len(vv)
                n1 = ln.bit_length() - 1 if ln >= 2 and not ln & (ln - 1) else None
                res = None if n1 is None else _chk_apply([a["ops"][st["k"]]], n1, vv, got, where)
            else:
                n = _valid(a)
                res = None if n is None else _chk_apply(a["ops"], n, vv, got, where)
        if res:
            return res
    # second pass: what was handed out earlier must still hold the value it was handed out with
    for si, st in enumerate(case["steps"]):
        o = outs[si]
        got = o.get("r")
        if "late" in o and not _is_err(got):
            late = o["late"]
            if _is_err(late) or not _close(_cnp(late), _cnp(got)):
                return ("result-changed-later", f"history step {si} ({st['do']}): the object returned by this call no longer "
                                                "holds the value it was returned with after later calls on the same objects")
    return None


def oracle(case, out):
    import numpy as np
    k = case["kind"]
    if isinstance(out, dict) and "exc" in out:
        return ("unexpected-exception", f"{k}: implementation raised {out['exc']}: {out['msg']}")
    if k == "hist":
        return _oracle_hist(case, out)
    if k == "lift":
        return _chk_lift(case, case["n"], out["lift"])
    if k == "circuit":
        n = _width(case)
        if n is None or n < 1 and case["ops"]:
            return None
        if any("mphase" in o for o in case["ops"]) or not all(_op_ok(o, n) for o in case["ops"]):
            return None
        if out["n"] != n:
            return ("circuit-width", f"n_qubits {out['n']} expected {n}")
        if case["ops"]:
            res = _chk_unitary(case, case, out["unitary"])
            if res:
                return res
        if len(case["v"]) == 2 ** n:
            u = _product(case["ops"], n)
            got = out["applied"]
            if _is_err(got):
                return ("apply-raise", f"step-wise apply on a valid circuit raised {got}")
            if not _close(_cnp(got), u @ _vec(case["v"])):
                return ("apply-product", "applying the operations one at a time differs from the circuit matrix times the state")
        return None
    if k == "sim":
        n = _width(case)
        if n is None or n < 1 or not all(_op_ok(o, n) for o in case["ops"]):
            return None
        return _chk_sim(case, None if case.get("v") is None else _vec(case["v"]), out["state"], case.get("native"))
    if k in ("add", "add_op"):
        a = case["a"]
        b = case["b"] if k == "add" else {"n": None, "ops": [case["op"]]}
        na, nb = _width(a), _width(b)
        if na is None or nb is None:
            return None
        if any("mphase" in o for o in a["ops"] + b["ops"]):
            return None
        if not all(_op_ok(o, na) for o in a["ops"]) or not all(_op_ok(o, nb) for o in b["ops"]):
            return None
        n = max(na, nb)
        got = out["sum"]
        res = _chk_sum(a, b, got)
        if res:
            return res
        if a["ops"] or b["ops"]:
            if n < 1:
                return None
            u = got["unitary"]
            if _is_err(u):
                return ("add-unitary-raise", f"to_unitary() of the concatenation raised {u}")
            want = _product(b["ops"], n) @ _product(a["ops"], n)
            if not _close(_cnp(u), want):
                return ("add-compose", "the concatenation's matrix is not (second circuit) x (first circuit)")
            # the same through the implementation's own matrices, the narrower one widened by (x) 1
            if k == "add" and a["ops"] and b["ops"] and not _is_err(out["a"].get("unitary")) \
                    and not _is_err(out["b"].get("unitary")):
                ua = np.kron(_cnp(out["a"]["unitary"]), np.eye(2 ** (n - na)))
                ub = np.kron(_cnp(out["b"]["unitary"]), np.eye(2 ** (n - nb)))
                if not _close(_cnp(u), ub @ ua):
                    return ("add-compose", "U(a+b) differs from (U(b) (x) 1)(U(a) (x) 1)")
        return None
    return None


# ------------------------------------------------------------------ generators
_counter = [0]


def _name():
    _counter[0] += 1
    return f"c01g{_counter[0]}"


def _gauss(rng, k, lim=2):
    return {"custom": _name(), "m": circ.gauss_matrix(rng, k, -lim, lim)}


def _monomial(rng, k):
    d = 2 ** k
    perm = list(range(d))
    rng.shuffle(perm)
    m = [[[0, 0] for _ in range(d)] for _ in range(d)]
    for col in range(d):
        u = rng.choice(UNITS)
        m[perm[col]][col] = [u[0], u[1]]
    return {"custom": _name(), "m": m}


def _wrapped(rng, max_k, unitary=True):
    base = rng.choice([{"gate": "X", "angles": []}, {"gate": "S", "angles": []}, {"gate": "Y", "angles": []},
                       {"gate": "CNOT", "angles": []}, {"gate": "ISWAP", "angles": []}, _monomial(rng, 1)])
    kb = circ.spec_num_qubits(base)
    choices = ["dagger", "power"]
    if kb + 1 <= max_k:
        choices += ["controlled", "controlled", "controlled"]
    if not unitary:
        choices += ["exp"]
    w = rng.choice(choices)
    if w == "dagger":
        return {"dagger": base}
    if w == "power":
        return {"power": base, "e": rng.choice([2, 3, -1])}
    if w == "exp":
        # (sympy's Matrix.exp is only usable on the diagonalisable 2x2 built-ins)
        return {"exp": rng.choice([{"gate": "X", "angles": []}, {"gate": "Y", "angles": []}, {"gate": "Z", "angles": []},
                                   {"gate": "S", "angles": []}])}
    return {"controlled": base, "k": rng.randrange(1, max_k - kb + 1)}


def _unitary_gate(rng, n, max_arity=3):
    r = rng.random()
    if r < 0.35:
        return _monomial(rng, rng.randrange(1, min(n, max_arity) + 1))
    if r < 0.45 and n >= 2:
        return _wrapped(rng, min(n, max_arity + 1))
    names = [nm for nm in EXACT_UNITARY + ROTATIONS if circ.BUILTIN_QUBITS[nm] <= n]
    return circ.random_builtin_spec(rng, names)


def _any_gate(rng, n, max_arity, nonunitary_budget):
    if nonunitary_budget[0] > 0 and rng.random() < 0.45:
        nonunitary_budget[0] -= 1
        return _gauss(rng, rng.randrange(1, min(n, max_arity) + 1))
    return _unitary_gate(rng, n, max_arity)


def _op(rng, n, g):
    o = {"g": g, "qs": rng.sample(range(n), circ.spec_num_qubits(g))}
    if rng.random() < 0.06:
        o["qt"] = "np"
    return o


def _gvec(rng, n):
    return [[rat(Fraction(rng.randrange(-4, 5), rng.choice([1, 2, 4]))),
             rat(Fraction(rng.randrange(-4, 5), rng.choice([1, 2, 4])))] for _ in range(2 ** n)]


def _unit_vec(rng, n):
    tpl = rng.choice([t for t in TEMPLATES if len(t) <= 2 ** n])
    pos = rng.sample(range(2 ** n), len(tpl))
    v = [[0, 0] for _ in range(2 ** n)]
    for p, x in zip(pos, tpl):
        u = rng.choice(UNITS)
        v[p] = [rat(x * u[0]), rat(x * u[1])]
    return v


def _mphase(rng, n):
    r = rng.random()
    if r < 0.2:
        # the same phase on every component (a "global" phase is still part of the matrix)
        a = circ.rat_angle(rng, 0.0)
        return {"mphase": [a for _ in range(2 ** n)]}
    if r < 0.27:
        return {"mphase": [[1, 0] for _ in range(2 ** n)]}
    return {"mphase": [circ.rat_angle(rng, 0.3) for _ in range(2 ** n)]}


def _native(rng, n):
    return {"arity": sorted(rng.sample([1, 2, 3, 4], rng.randrange(0, 4))),
            "q0": sorted(rng.sample(range(n), rng.randrange(0, n + 1))),
            "mphase": rng.random() < 0.5, "any": rng.random() < 0.5}


def _circuit(rng, n, length, max_arity=3, budget=3, declared=None):
    b = [budget]
    ops = [_op(rng, n, _any_gate(rng, n, max_arity, b)) for _ in range(length)]
    return {"n": rng.choice([None, n]) if declared is None else declared, "ops": ops}


SYM_BUDGET = 15


def _sym_cost(ops, n, vector=False):
    """log2 of the size of the sympy expressions a product with free symbols builds (every later factor multiplies the
    number of terms of an entry by the 2^arity non-zeros of a row; there are 4^n entries, 2^n for a state)"""
    return sum(len(o["qs"]) for o in ops if "qs" in o) + (n if vector else 2 * n)


def _limit_sym(ops, n, vector=False, times=1):
    """drop the free symbols of a program whose symbolic product would take sympy minutes"""
    base = n if vector else 2 * n
    if any(o.get("s") for o in ops) and times * (_sym_cost(ops, n, vector) - base) + base > SYM_BUDGET:
        for o in ops:
            o.pop("s", None)
    return ops


def _mixed_ops(rng, n, length, unitary=False):
    """operations of which some carry a free symbol, with at least one run of >= 2 consecutive numeric ones"""
    for _ in range(20):
        ops = []
        for _j in range(length):
            r = rng.random()
            if r < 0.4:
                k = rng.randrange(1, min(n, 2) + 1)
                o = _op(rng, n, _monomial(rng, k) if unitary else _gauss(rng, k, 1))
            elif r < 0.65:
                names = [nm for nm in ROTATIONS if circ.BUILTIN_QUBITS[nm] <= n]
                o = _op(rng, n, circ.random_builtin_spec(rng, names))
            else:
                o = _op(rng, n, _unitary_gate(rng, n, 2))
            if _symbolizable(o) and rng.random() < 0.45 and sum(1 for x in ops if x.get("s")) < 3:
                o["s"] = True
            if len(ops) >= 3 and _sym_cost(ops + [o], n) > SYM_BUDGET:
                break
            ops.append(o)
        flags = [bool(o.get("s")) for o in ops]
        if any(flags) and any(not a and not b for a, b in zip(flags, flags[1:])):
            return ops
    return ops


def _exotic_vec(rng, n):
    """mostly a random Gaussian-rational vector; sometimes the zero vector, a single (non-unit) entry, huge or tiny entries"""
    r = rng.random()
    if r < 0.7:
        return _gvec(rng, n)
    if r < 0.78:
        return [[0, 0] for _ in range(2 ** n)]
    if r < 0.9:
        return _basis_vec(n, rng.randrange(2 ** n), (rng.randrange(-3, 4) or 2, rng.randrange(-3, 4)))
    big = rng.choice([2 ** 40, Fraction(1, 2 ** 20)])
    return [[rat(Fraction(rng.randrange(-4, 5)) * big), rat(Fraction(rng.randrange(-4, 5)) * big)] for _ in range(2 ** n)]


def _sim_case(rng, n, length, native):
    ops = []
    for _ in range(length):
        ops.append(_mphase(rng, n) if rng.random() < 0.3 else _op(rng, n, _unitary_gate(rng, n)))
    if not native and rng.random() < 0.35:
        # the bundled simulator on a circuit with free symbols (numeric and symbolic paths in one run)
        for o in ops:
            if _symbolizable(o) and rng.random() < 0.5:
                o["s"] = True
        _limit_sym(ops, n, vector=True)
    return {"kind": "sim", "n": n, "ops": ops, "v": rng.choice([None, _unit_vec(rng, n)]),
            "native": _native(rng, n) if native else None}


# ------------------------------------------------------------------ generators of histories
def _sibling_gate(rng, g, unitary):
    """a gate of the same arity (and, where the library lets two gates share one, the same NAME) with other content"""
    k = circ.spec_num_qubits(g)
    if "custom" in g:
        h = _monomial(rng, k) if unitary else _gauss(rng, k, 2)
        for _ in range(5):
            if h["m"] != g["m"]:
                break
            h = _monomial(rng, k) if unitary else _gauss(rng, k, 2)
        return dict(h, custom=g["custom"])
    if "controlled" in g:
        b = g["controlled"]
        kb = circ.spec_num_qubits(b)
        pool = ([{"gate": nm, "angles": []} for nm in ("X", "Y", "Z", "S", "H")] if kb == 1 else
                [{"gate": nm, "angles": []} for nm in ("CNOT", "CZ", "ISWAP", "SWAP")])
        return {"controlled": rng.choice([x for x in pool if x != b]), "k": g["k"]}
    if "exp" in g:
        return {"exp": rng.choice([x for x in ({"gate": nm, "angles": []} for nm in ("X", "Y", "Z", "S")) if x != g["exp"]])}
    if "gate" in g and circ.BUILTIN_PARAMS[g["gate"]] > 0:
        return {"gate": g["gate"], "angles": [circ.rat_angle(rng, 0.0) for _ in g["angles"]]}
    names = [nm for nm in EXACT_UNITARY if circ.BUILTIN_QUBITS[nm] == k and nm != g.get("gate")]
    return {"gate": rng.choice(names), "angles": []} if names else _monomial(rng, k)


def _hist_gate(rng, n, unitary, max_arity=3):
    r = rng.random()
    if r < 0.3 and n >= 2:
        return _wrapped(rng, min(n, max_arity + 1), unitary)
    if r < 0.6:
        k = rng.randrange(1, min(n, max_arity) + 1)
        return _monomial(rng, k) if unitary else _gauss(rng, k, 2)
    return _unitary_gate(rng, n, max_arity)


def _hist_circuit(rng, n, length, unitary=True, mphase=False, declared=None, sym=0.0, vector=False):
    ops = []
    for _ in range(length):
        if mphase and rng.random() < 0.25:
            ops.append(_mphase(rng, n))
        else:
            o = _op(rng, n, _hist_gate(rng, n, unitary))
            # (sympy products of several large symbolic matrices take minutes: at most two symbolic gates of arity <= 2)
            if sym and _symbolizable(o) and len(o["qs"]) <= 2 and rng.random() < sym and sum(1 for x in ops if x.get("s")) < 2:
                o["s"] = True
            ops.append(o)
    c = {"n": declared if declared is not None else rng.choice([None, n])}
    if ops and rng.random() < 0.35:
        # the same operation again (an equal one, or with "alias" the very same object), next to it or further away
        i = rng.randrange(len(ops))
        ops.insert(i + 1 if rng.random() < 0.6 else rng.randrange(i, len(ops) + 1), dict(ops[i]))
        if rng.random() < 0.5:
            c["alias"] = True
    if c["n"] is not None and rng.random() < 0.15:
        c["nt"] = "np"
    _limit_sym(ops, declared or n, vector=vector)
    c["ops"] = ops
    return c


def _sibling_circuit(rng, c, n, unitary, how):
    """a circuit differing from c in exactly one component"""
    ops = [dict(o) for o in c["ops"]]
    gates = [i for i, o in enumerate(ops) if "g" in o]
    if how == "gate" and gates:
        # preferably a gate whose name does not determine its content (custom definitions, "Control", "Exponential")
        shared = [i for i in gates if any(k in ops[i]["g"] for k in ("custom", "controlled", "exp"))]
        i = rng.choice(shared if shared and rng.random() < 0.8 else gates)
        ops[i] = dict(ops[i], g=_sibling_gate(rng, ops[i]["g"], unitary))
    elif how == "qubits" and gates:
        i = rng.choice(gates)
        qs = ops[i]["qs"]
        new = list(qs)
        for _ in range(6):
            new = rng.sample(range(n), len(qs)) if rng.random() < 0.5 or len(qs) == 1 else rng.sample(qs, len(qs))
            if new != qs:
                break
        ops[i] = dict(ops[i], qs=new)
    elif how == "phase" and any("mphase" in o for o in ops):
        i = rng.choice([i for i, o in enumerate(ops) if "mphase" in o])
        ph = list(ops[i]["mphase"])
        ph[rng.randrange(len(ph))] = circ.rat_angle(rng, 0.0)
        ops[i] = {"mphase": ph}
    elif how == "order" and len(ops) >= 2:
        i = rng.randrange(len(ops) - 1)
        ops[i], ops[i + 1] = ops[i + 1], ops[i]
    elif how == "extra":
        ops.insert(rng.randrange(len(ops) + 1), _op(rng, n, _hist_gate(rng, n, unitary)))
    elif how == "symbolic" and any(_symbolizable(o) for o in ops):
        i = rng.choice([i for i, o in enumerate(ops) if _symbolizable(o)])
        ops[i] = dict(ops[i], s=not ops[i].get("s"))
    else:
        # "width": one more idle (last) qubit, nothing else; a phase operation keeps its meaning: diag (x) 1
        ops = [{"mphase": [a for a in o["mphase"] for _ in (0, 1)]} if "mphase" in o else o for o in ops]
        return dict(c, n=n + 1, ops=ops)
    return dict(c, ops=ops)


VMODES = ["c", "c", "fresh", "f", "i", "ro", "nc", "list"]


def _vm(rng, sym=False):
    return rng.choice([m for m in VMODES if not (sym and m == "list")])


def _basis_vec(n, i, amp=(1, 0)):
    v = [[0, 0] for _ in range(2 ** n)]
    v[i] = [amp[0], amp[1]]
    return v


def _h_sim_states(rng, big):
    """ONE simulator, ONE circuit, the initial state is the only thing that changes between calls"""
    n = rng.choice([1, 2, 2, 3])
    bundled = rng.random() < 0.6
    sym = 0.5 if bundled and rng.random() < 0.4 else 0.0
    c = _hist_circuit(rng, n, rng.randrange(0, 5), mphase=True, sym=sym, vector=True, declared=n)
    has_sym = any(o.get("s") for o in c["ops"])
    vecs = [_unit_vec(rng, n), _unit_vec(rng, n), _basis_vec(n, 0), _basis_vec(n, rng.randrange(2 ** n), rng.choice(UNITS))]
    order = [None, 0, 1, 0, 2, None, 3, 1]
    if rng.random() < 0.5:
        rng.shuffle(order)
    steps = []
    for j in order[:rng.randrange(4, len(order) + 1)]:
        if rng.random() < 0.25:
            steps.append({"do": "rebuild", "c": 0})
        st = {"do": "sim", "s": 0, "c": 0, "v": j, "vm": _vm(rng, has_sym)}
        if rng.random() < 0.3:
            st["poison"] = True
        steps.append(st)
    return {"kind": "hist", "circs": [c], "sims": [None if bundled else _native(rng, n)], "vecs": vecs, "steps": steps}


def _h_sim_circuits(rng, big):
    """objects kept alive while the circuit changes in exactly one component from call to call; one API per history:
    simulators (bundled and base-class), to_unitary, or step-wise apply"""
    n = rng.choice([2, 2, 3])
    api = rng.choice(["sim", "sim", "sim", "unitary", "unitary", "apply"])
    c0 = _hist_circuit(rng, n, rng.randrange(1, 5), unitary=(api == "sim"), mphase=(api != "unitary"), declared=n,
                       sym=(0.3 if api == "unitary" and rng.random() < 0.4 else 0.0))
    hows = ["qubits", "width", "extra", "order", "gate"] + (["phase"] if api != "unitary" else ["symbolic"])
    rng.shuffle(hows)
    hows = ["gate"] + hows
    circs = [c0] + [_sibling_circuit(rng, c0, n, api == "sim", h) for h in hows[:rng.randrange(2, 5)]]
    for c in circs:
        _limit_sym(c["ops"], n + 1)
    vecs = [_unit_vec(rng, n), _unit_vec(rng, n + 1)]
    sims = [None, _native(rng, n)] if rng.random() < 0.5 else [rng.choice([None, _native(rng, n)])]
    steps = []
    seq = [0]
    for i in range(1, len(circs)):
        seq += [i, 0] if rng.random() < 0.6 else [i]
    use_v = rng.random() < 0.6 or api == "apply"
    for i in seq:
        wide = _width(circs[i]) == n + 1
        if api == "unitary":
            st = {"do": "unitary", "c": i}
        else:
            st = {"do": api, "s": rng.randrange(len(sims)), "c": i, "v": (1 if wide else 0) if use_v else None,
                  "vm": _vm(rng, any(o.get("s") for o in circs[i]["ops"]))}
        if rng.random() < 0.2:
            st["poison"] = True
        steps.append(st)
        if rng.random() < 0.15:
            steps.append({"do": "rebuild", "c": i})
    return {"kind": "hist", "circs": circs, "sims": sims if api == "sim" else [], "vecs": vecs, "steps": steps}


def _h_ephemeral(rng, big):
    """short-lived circuits: ONE slot is rebuilt as a different circuit before each call (the old object is dropped, the
    new one may get its address), the simulators live on"""
    n = rng.choice([2, 2, 3])
    c0 = _hist_circuit(rng, n, rng.randrange(1, 4), mphase=True, declared=n)
    hows = ["gate", "qubits", "extra", "order", "gate", "phase"]
    rng.shuffle(hows)
    sibs = [_sibling_circuit(rng, c0, n, True, h) for h in hows[:3]]
    circs = [dict(c0), dict(c0)] + sibs     # slot 0 is the working slot, 1.. are the templates
    vecs = [_unit_vec(rng, n)]
    sims = [None, _native(rng, n)]
    steps = []
    sim, prev = rng.randrange(2), 0
    for _ in range(rng.randrange(4, 7)):
        j = rng.choice([x for x in range(1, len(circs)) if x != prev] if rng.random() < 0.85 else [prev or 1])
        prev = j
        steps.append({"do": "rebuild", "c": 0, "as": j})
        if rng.random() < 0.25:
            sim = 1 - sim
        r = rng.random()
        if r < 0.7:
            steps.append({"do": "sim", "s": sim, "c": 0, "v": rng.choice([None, 0]), "vm": "c"})
        elif r < 0.85 and not any("mphase" in o for o in circs[j]["ops"]):
            steps.append({"do": "unitary", "c": 0})
        else:
            steps.append({"do": "apply", "c": 0, "v": 0, "vm": "c"})
    return {"kind": "hist", "circs": circs, "sims": sims, "vecs": vecs, "steps": steps}


def _h_setvec(rng, big):
    """the caller reuses ONE array for different states (overwritten in place between the calls)"""
    n = rng.choice([1, 2, 3])
    c = _hist_circuit(rng, n, rng.randrange(1, 4), mphase=True, declared=n)
    vecs = [_unit_vec(rng, n), _unit_vec(rng, n), _unit_vec(rng, n)]
    vm = rng.choice(["c", "nc", "ro", "c"])
    sims = [rng.choice([None, _native(rng, n)])]
    steps = []
    for src in [None, 1, 2, 0][:rng.randrange(2, 5)]:
        if src is not None:
            steps.append({"do": "setvec", "v": 0, "from": src})
        steps.append({"do": rng.choice(["sim", "sim", "apply"]), "s": 0, "c": 0, "v": 0, "vm": vm})
    return {"kind": "hist", "circs": [c], "sims": sims, "vecs": vecs, "steps": steps}


def _h_ops(rng, big):
    """ONE process, operation objects kept alive: the same operation at several widths and vector lengths, operations
    that differ from it in exactly one component (content under the same name, qubit order, numeric/symbolic)"""
    n = rng.choice([2, 3, 3, 4])
    unitary = rng.random() < 0.4
    g = _hist_gate(rng, n, unitary, max_arity=min(n, 3))
    o = _op(rng, n, g)
    if _symbolizable(o) and rng.random() < 0.25:
        o["s"] = True      # the long-lived operation is the symbolic one, its "symbolic" sibling the numeric one
    c0 = {"n": n, "ops": [o]}
    hows = ["gate", "qubits", "same", "symbolic", "gate"]
    circs = [c0]
    for h in hows:
        circs.append({"n": n, "ops": [dict(o)]} if h == "same" else _sibling_circuit(rng, c0, n, unitary, h))
        circs[-1]["n"] = n
    vecs = [_gvec(rng, n), _gvec(rng, n + 1), _gvec(rng, n)]
    steps = []
    order = list(range(len(circs)))
    rng.shuffle(order)
    order = [0] + order
    for i in order:
        r = rng.random()
        if r < 0.45:
            st = {"do": "lift", "c": i, "k": 0, "n": n}
        elif r < 0.6:
            st = {"do": "lift", "c": i, "k": 0, "n": n + rng.randrange(1, 3)}
        elif r < 0.85:
            st = {"do": "apply1", "c": i, "k": 0, "v": rng.choice([0, 2]), "vm": _vm(rng, bool(circs[i]["ops"][0].get("s")))}
        else:
            st = {"do": "apply1", "c": i, "k": 0, "v": 1, "vm": _vm(rng, bool(circs[i]["ops"][0].get("s")))}
        if rng.random() < 0.3:
            st["poison"] = True
        steps.append(st)
        if rng.random() < 0.35:
            steps.append(dict(st, poison=False) if rng.random() < 0.5 else {"do": "lift", "c": 0, "k": 0, "n": n})
    return {"kind": "hist", "circs": circs, "sims": [], "vecs": vecs, "steps": steps}


def _h_circuit(rng, big):
    """circuit objects kept alive: matrix asked twice (the first answer overwritten by the caller), sums built from them
    (also c + c), the operands asked again afterwards; numeric runs next to symbolic gates"""
    na, nb = rng.choice([1, 2, 3]), rng.choice([1, 2, 3])
    sym = rng.choice([0.0, 0.35, 0.35])
    a = _hist_circuit(rng, na, rng.randrange(1, 6), unitary=False, sym=sym)
    b = _hist_circuit(rng, nb, rng.randrange(1, 4), unitary=False, sym=sym / 2,
                      declared=rng.choice([None, nb, nb + 1]))
    # the largest products asked for below are c0 + c0 and c0 + c1
    nmax = max(_width(a) or na, _width(b) or nb)
    _limit_sym(a["ops"], nmax, times=2)
    if any(o.get("s") for o in a["ops"] + b["ops"]):
        _limit_sym(a["ops"] + b["ops"], nmax)
    has_sym = any(o.get("s") for o in a["ops"])
    vecs = [_gvec(rng, _width(a))]
    steps = [{"do": "unitary", "c": 0, "poison": rng.random() < 0.5}, {"do": "unitary", "c": 0}]
    tail = [{"do": "width", "c": 0}, {"do": "unitary", "c": 1, "poison": rng.random() < 0.3},
            {"do": "add", "a": 0, "b": 1}, {"do": "unitary", "c": 2}, {"do": "width", "c": 2},
            {"do": "unitary", "c": 0}, {"do": "unitary", "c": 1},
            {"do": "add", "a": 0, "b": 0}, {"do": "unitary", "c": 3},
            {"do": "add_op", "a": 1, "c": 0, "k": rng.randrange(len(a["ops"]))}, {"do": "unitary", "c": 4},
            {"do": "width", "c": 1},
            {"do": "apply", "c": 0, "v": 0, "vm": _vm(rng, has_sym), "poison": rng.random() < 0.4},
            {"do": "apply", "c": 0, "v": 0, "vm": _vm(rng, has_sym)}]
    return {"kind": "hist", "circs": [a, b], "sims": [], "vecs": vecs, "steps": steps + tail[:rng.randrange(5, len(tail) + 1)]}


def _h_interleaved(rng, big):
    """every API of the property on the same circuit / simulator objects, interleaved"""
    n = rng.choice([2, 3])
    a = _hist_circuit(rng, n, rng.randrange(1, 5), declared=n)
    b = _hist_circuit(rng, n, rng.randrange(1, 3), declared=n)
    vecs = [_unit_vec(rng, n), _unit_vec(rng, n)]
    sims = [None, _native(rng, n)]
    k = rng.randrange(len(a["ops"]))
    menu = [{"do": "unitary", "c": 0}, {"do": "sim", "s": 0, "c": 0, "v": 0, "vm": _vm(rng)},
            {"do": "apply", "c": 0, "v": 0, "vm": _vm(rng)}, {"do": "sim", "s": 1, "c": 0, "v": 1, "vm": _vm(rng)},
            {"do": "lift", "c": 0, "k": k, "n": n}, {"do": "sim", "s": 1, "c": 0, "v": None},
            {"do": "apply1", "c": 0, "k": k, "v": 1, "vm": _vm(rng)}, {"do": "sim", "s": 0, "c": 1, "v": 0, "vm": _vm(rng)}]
    rng.shuffle(menu)
    for st in menu:
        if rng.random() < 0.25:
            st["poison"] = True
    steps = menu[:rng.randrange(4, len(menu) + 1)]
    steps += [{"do": "add", "a": 0, "b": 1}, {"do": "sim", "s": rng.randrange(2), "c": 2, "v": rng.choice([None, 0]), "vm": "c"},
              {"do": "unitary", "c": 2}, {"do": "sim", "s": rng.randrange(2), "c": 0, "v": 1, "vm": "fresh"},
              {"do": "unitary", "c": 0}]
    return {"kind": "hist", "circs": [a, b], "sims": sims, "vecs": vecs, "steps": steps}


def _h_wide(rng, n, light=False):
    """registers of 7..10 qubits (oracle only: the exact model stops at 6); one gate of each arity 1, 2, 3"""
    ops = []
    arities = [1, 2, 3]
    rng.shuffle(arities)
    for k in arities:
        g = _monomial(rng, k)
        if k >= 2 and rng.random() < 0.5:
            g = {"controlled": rng.choice([{"gate": nm, "angles": []} for nm in ("X", "Y", "S", "H")]), "k": k - 1}
        far = rng.sample([0, 1, n - 2, n - 1, n // 2, rng.randrange(n)], 6)
        qs = []
        for q in far:
            if q not in qs and len(qs) < k:
                qs.append(q)
        ops.append({"g": g, "qs": qs})
    c = {"n": n, "ops": ops}
    v = _basis_vec(n, rng.randrange(2 ** n), rng.choice(UNITS))
    j = rng.randrange(2 ** n)
    if v[j] == [0, 0]:
        i = [x != [0, 0] for x in v].index(True)
        u = v[i]
        v[i] = [rat(Fraction(3, 5) * u[0]), rat(Fraction(3, 5) * u[1])]
        v[j] = [0, rat(Fraction(4, 5))]
    if light:
        steps = [{"do": "lift", "c": 0, "k": arities.index(1), "n": n}, {"do": "apply", "c": 0, "v": 0, "vm": "c"},
                 {"do": "sim", "s": 0, "c": 0, "v": None}][(1 if n >= 11 else 0):]
    else:
        steps = [{"do": "lift", "c": 0, "k": rng.randrange(3), "n": n}, {"do": "unitary", "c": 0},
                 {"do": "apply", "c": 0, "v": 0, "vm": "c"}, {"do": "sim", "s": 1, "c": 0, "v": None},
                 {"do": "sim", "s": 0, "c": 0, "v": 0, "vm": "c"}, {"do": "width", "c": 0}]
    return {"kind": "hist", "circs": [c], "sims": [None, _native(rng, n)], "vecs": [v], "steps": steps}


def _h_long(rng, big):
    """long programs on few qubits"""
    n = rng.choice([1, 2, 3])
    length = rng.choice([17, 24, 33, 40] if not big else [17, 33, 64, 65, 100])
    ops = []
    for _ in range(length):
        r = rng.random()
        if r < 0.5:
            ops.append(_op(rng, n, _monomial(rng, rng.randrange(1, min(n, 2) + 1))))
        elif r < 0.6:
            ops.append(_mphase(rng, n))
        else:
            names = [nm for nm in EXACT_UNITARY if circ.BUILTIN_QUBITS[nm] <= n]
            ops.append(_op(rng, n, {"gate": rng.choice(names), "angles": []}))
    c = {"n": n, "ops": ops}
    g = {"n": n, "ops": [o for o in ops if "g" in o]}
    vecs = [_unit_vec(rng, n)]
    steps = [{"do": "unitary", "c": 1}, {"do": "apply", "c": 0, "v": 0, "vm": "c"}, {"do": "sim", "s": 0, "c": 0, "v": 0, "vm": "c"},
             {"do": "sim", "s": 1, "c": 0, "v": 0, "vm": "c"}, {"do": "sim", "s": 0, "c": 1, "v": None}]
    return {"kind": "hist", "circs": [c, g], "sims": [None, _native(rng, n)], "vecs": vecs, "steps": steps}


def _h_incremental(rng, big):
    """a circuit grown one operation at a time from an empty one must be the circuit built in one go"""
    n = rng.choice([2, 3, 4])
    donor = _hist_circuit(rng, n, rng.randrange(2, 6), unitary=False, declared=None)
    start = {"n": rng.choice([None, None, 1, n, n + 1]), "ops": []}
    steps, cur = [], 1
    nxt = 2
    for k in range(len(donor["ops"])):
        steps.append({"do": "add_op", "a": cur, "c": 0, "k": k})
        cur = nxt
        nxt += 1
        if rng.random() < 0.4:
            steps.append({"do": "unitary", "c": cur, "poison": rng.random() < 0.3})
    steps += [{"do": "unitary", "c": cur}, {"do": "width", "c": cur}, {"do": "unitary", "c": 0}, {"do": "width", "c": 1}]
    return {"kind": "hist", "circs": [donor, start], "sims": [], "vecs": [], "steps": steps}


def _twin_circuit(rng, n):
    """operations that differ only in a place where Python's hash does not see the difference (hash(-1) == hash(-2), also for
    -1.0 / -2.0 and as exponents): both twins in ONE circuit on the same qubits, next to ordinary gates – a table keyed by a
    hash (of the operation, the gate, the parameters) hands the second twin the first one's matrix"""
    def par(name, x, as_int):
        k = circ.BUILTIN_PARAMS[name]
        return {"gate": name, "angles": [dict({"raw": str(x)}, **({"int": True} if as_int else {})) for _ in range(k)]}
    ops = []
    for _ in range(rng.randrange(2, 4)):
        r = rng.random()
        if r < 0.55:
            name = rng.choice([nm for nm in ("RX", "RY", "RZ", "PHASE", "RH", "GPi", "GPi2", "U3") ] +
                              ([nm for nm in ("CPHASE", "XX", "YY", "ZZ", "XY", "MS")] if n >= 2 else []))
            qs = rng.sample(range(n), circ.BUILTIN_QUBITS[name])
            as_int = rng.random() < 0.4
            a, b = rng.choice([(-1, -2), (-2, -1)])
            pair = [{"g": par(name, a, as_int), "qs": qs}, {"g": par(name, b, as_int and rng.random() < 0.7), "qs": qs}]
        else:
            base = rng.choice([{"gate": "S", "angles": []}, {"gate": "SX", "angles": []}, _monomial(rng, 1),
                               {"gate": "ISWAP", "angles": []} if n >= 2 else {"gate": "S", "angles": []}])
            qs = rng.sample(range(n), circ.spec_num_qubits(base))
            a, b = rng.choice([("-1", "-2"), ("-2", "-1")])
            pair = [{"g": {"power": base, "e": a}, "qs": qs}, {"g": {"power": base, "e": b}, "qs": qs}]
        filler = [_op(rng, n, _unitary_gate(rng, n, 2)) for _ in range(rng.randrange(0, 2))]
        ops += [pair[0]] + filler + [pair[1]]
    return ops


def _histories(rng, big):
    plan = [(_h_sim_states, 5), (_h_sim_circuits, 7), (_h_ephemeral, 4), (_h_setvec, 2), (_h_ops, 5), (_h_circuit, 5),
            (_h_interleaved, 3), (_h_long, 2), (_h_incremental, 2)]
    cases = []
    for f, count in plan:
        for _ in range(count * (4 if big else 1)):
            cases.append(f(rng, big))
    for n in ([7, 8, 9, 10] if big else [9]):
        cases.append(_h_wide(rng, n))
    cases.append(_h_wide(rng, 11 if big else 10, light=True))
    return cases


def _all_tuples(rng, max_n, max_k, sym_every=4):
    import itertools
    cases, i = [], 0
    for n in range(1, max_n + 1):
        for k in range(1, min(n, max_k) + 1):
            for qs in itertools.permutations(range(n), k):
                i += 1
                cases.append({"kind": "lift", "g": _gauss(rng, k, 3), "qs": list(qs), "n": n,
                              "sym": "all" if i % sym_every == 0 else "none"})
    return cases


def corpus():
    x = {"gate": "X", "angles": []}
    cnot = {"gate": "CNOT", "angles": []}
    h = {"gate": "H", "angles": []}
    rx = {"gate": "RX", "angles": [["3/5", "4/5"]]}
    u1 = {"custom": "corpu", "m": [[[0, 1], [0, 0]], [[0, 0], [1, 0]]]}
    u2 = dict(u1, m=[[[0, 0], [0, 1]], [[-1, 0], [0, 0]]])
    g1 = {"custom": "corp1", "m": [[[1, 0], [2, 1]], [[0, -1], [3, 0]]]}
    g2 = {"custom": "corp2", "m": [[[(4 * i + j) % 5 - 2, (i + 3 * j) % 3 - 1] for j in range(4)] for i in range(4)]}
    v2 = [[1, 0], [0, 2], ["1/2", 0], [0, "-1/4"]]
    return [
        # F17: the empty circuit has no matrix (reduce of nothing), but applying no operation is the identity
        {"kind": "circuit", "n": 2, "ops": [], "v": v2, "sym": "none"},
        {"kind": "lift", "g": g2, "qs": [2, 0], "n": 4, "sym": "none"},
        {"kind": "lift", "g": g2, "qs": [3, 1], "n": 4, "sym": "all"},
        {"kind": "lift", "g": x, "qs": [0, 1], "n": 2, "sym": "none"},       # arity mismatch: raises
        {"kind": "lift", "g": cnot, "qs": [1, 1], "n": 2, "sym": "none"},    # duplicate index: raises
        {"kind": "lift", "g": x, "qs": [3], "n": 2, "sym": "none"},          # index outside the register: raises
        {"kind": "circuit", "n": None, "ops": [{"g": g1, "qs": [1]}, {"g": cnot, "qs": [1, 0]}], "v": v2, "sym": "none"},
        # regression input of the fixed finding (77d211c): numpy-2 / sympy-1.9 could not multiply a numeric lifted
        # matrix with a symbolic one; to_unitary() of a mixed circuit raised ValueError
        {"kind": "circuit", "n": None, "ops": [{"g": g1, "qs": [1]}, {"g": cnot, "qs": [1, 0]}], "v": v2, "sym": "mixed"},
        {"kind": "circuit", "n": 2, "ops": [{"g": g1, "qs": [1]}, {"mphase": [[1, 0]] * 4}], "v": v2, "sym": "none"},
        {"kind": "sim", "n": 2, "ops": [{"g": x, "qs": [1]}, {"mphase": [[1, 0], [0, 1], [1, 0], ["3/5", "4/5"]]},
                                        {"g": cnot, "qs": [1, 0]}], "v": None,
         "native": {"arity": [1], "q0": [], "mphase": False, "any": True}},
        {"kind": "add", "a": {"n": None, "ops": [{"g": g1, "qs": [0]}]}, "b": {"n": None, "ops": [{"g": g2, "qs": [2, 0]}]},
         "sym": "none"},
        {"kind": "add", "a": {"n": None, "ops": []}, "b": {"n": None, "ops": []}, "sym": "none"},
        # seeded change C01_m2: the right operand declares idle trailing qubits beyond both circuits' gates
        {"kind": "add", "a": {"n": None, "ops": [{"g": g1, "qs": [0]}]}, "b": {"n": 3, "ops": [{"g": g1, "qs": [0]}]}, "sym": "none"},
        {"kind": "add", "a": {"n": None, "ops": [{"g": g1, "qs": [0]}]}, "b": {"n": 2, "ops": []}, "sym": "none"},
        {"kind": "add_op", "a": {"n": 1, "ops": [{"g": g1, "qs": [0]}]}, "op": {"g": g2, "qs": [3, 1]}, "sym": "none"},
        {"kind": "add_op", "a": {"n": 1, "ops": [{"g": g1, "qs": [0]}]}, "op": {"mphase": [[1, 0], [0, 1]]}, "sym": "none"},
        # --- classes of the round-2 seeded changes (generic representatives, not the seeded inputs)
        # a run of numeric gates before / after / between gates with a free symbol (special-shape fast paths of to_unitary)
        {"kind": "circuit", "n": None, "v": v2, "sym": "none",
         "ops": [{"g": g1, "qs": [0]}, {"g": cnot, "qs": [0, 1]}, {"g": dict(g1, custom="corp3"), "qs": [1], "s": True},
                 {"g": h, "qs": [1]}, {"g": g1, "qs": [1]}, {"g": rx, "qs": [0], "s": True}, {"g": cnot, "qs": [1, 0]},
                 {"g": h, "qs": [0]}]},
        # one simulator object, one circuit, only the initial state changes (result caches keyed on the circuit); the
        # caller overwrites a result it was given; an equal circuit is rebuilt
        {"kind": "hist", "sims": [None, {"arity": [1], "q0": [], "mphase": True, "any": True}],
         "circs": [{"n": 2, "ops": [{"g": h, "qs": [1]}, {"mphase": [[1, 0], [0, 1], ["3/5", "4/5"], [1, 0]]},
                                    {"g": cnot, "qs": [1, 0]}]}],
         "vecs": [[["3/5", 0], [0, 0], [0, "4/5"], [0, 0]], [[0, 0], [0, -1], [0, 0], [0, 0]]],
         "steps": [{"do": "sim", "s": 0, "c": 0, "v": None}, {"do": "sim", "s": 0, "c": 0, "v": 0, "vm": "c", "poison": True},
                   {"do": "sim", "s": 0, "c": 0, "v": 1, "vm": "i"}, {"do": "rebuild", "c": 0},
                   {"do": "sim", "s": 0, "c": 0, "v": 0, "vm": "c"}, {"do": "sim", "s": 1, "c": 0, "v": 0, "vm": "ro"},
                   {"do": "sim", "s": 1, "c": 0, "v": 1, "vm": "list"}, {"do": "sim", "s": 1, "c": 0, "v": None},
                   {"do": "setvec", "v": 0, "from": 1}, {"do": "sim", "s": 0, "c": 0, "v": 0, "vm": "c"}]},
        # operations that differ in exactly one component, lifted / applied in one process: wrapped gates sharing the name
        # "Control", custom gates sharing a name across circuits, qubit order, register width; results overwritten in between
        {"kind": "hist", "sims": [],
         "circs": [{"n": 3, "ops": [{"g": {"controlled": x, "k": 1}, "qs": [2, 0]}, {"g": g1, "qs": [1]}]},
                   {"n": 3, "ops": [{"g": {"controlled": {"gate": "Z", "angles": []}, "k": 1}, "qs": [2, 0]},
                                    {"g": dict(g1, m=[[[0, 1], [1, 0]], [[2, 0], [0, -1]]]), "qs": [1]}]},
                   {"n": 3, "ops": [{"g": {"controlled": x, "k": 1}, "qs": [0, 2]}, {"g": g1, "qs": [1], "s": True}]}],
         "vecs": [[[k - 3, k % 3] for k in range(8)], [[1, k] for k in range(16)]],
         "steps": [{"do": "lift", "c": 0, "k": 0, "n": 3, "poison": True}, {"do": "lift", "c": 0, "k": 0, "n": 3},
                   {"do": "lift", "c": 1, "k": 0, "n": 3}, {"do": "lift", "c": 2, "k": 0, "n": 3},
                   {"do": "lift", "c": 0, "k": 0, "n": 4}, {"do": "lift", "c": 0, "k": 1, "n": 3},
                   {"do": "lift", "c": 1, "k": 1, "n": 3}, {"do": "lift", "c": 2, "k": 1, "n": 3},
                   {"do": "apply1", "c": 0, "k": 0, "v": 0, "vm": "c"}, {"do": "apply1", "c": 1, "k": 0, "v": 0, "vm": "c"},
                   {"do": "apply1", "c": 0, "k": 0, "v": 1, "vm": "f"}, {"do": "apply1", "c": 0, "k": 1, "v": 0, "vm": "nc"},
                   {"do": "apply1", "c": 1, "k": 1, "v": 0, "vm": "list"}, {"do": "unitary", "c": 0}, {"do": "unitary", "c": 1}]},
        # two circuits that differ ONLY in the content of a custom gate with the same name (and two simulators kept alive)
        {"kind": "hist", "sims": [None, {"arity": [2], "q0": [], "mphase": False, "any": True}],
         "circs": [{"n": 2, "ops": [{"g": u1, "qs": [1]}, {"g": cnot, "qs": [1, 0]}]},
                   {"n": 2, "ops": [{"g": u2, "qs": [1]}, {"g": cnot, "qs": [1, 0]}]},
                   {"n": 2, "ops": [{"g": u1, "qs": [1], "s": True}, {"g": cnot, "qs": [1, 0]}]},
                   {"n": 2, "ops": [{"g": u2, "qs": [1], "s": True}, {"g": cnot, "qs": [1, 0]}]}],
         "vecs": [[["3/5", 0], [0, 0], [0, "4/5"], [0, 0]]],
         "steps": [{"do": "unitary", "c": 0}, {"do": "unitary", "c": 1}, {"do": "sim", "s": 0, "c": 0, "v": 0, "vm": "c"},
                   {"do": "sim", "s": 0, "c": 1, "v": 0, "vm": "c"}, {"do": "sim", "s": 1, "c": 0, "v": None},
                   {"do": "sim", "s": 1, "c": 1, "v": None}, {"do": "apply", "c": 0, "v": 0, "vm": "c"},
                   {"do": "apply", "c": 1, "v": 0, "vm": "c"}, {"do": "lift", "c": 0, "k": 0, "n": 2},
                   {"do": "lift", "c": 1, "k": 0, "n": 2}, {"do": "unitary", "c": 0},
                   {"do": "unitary", "c": 2}, {"do": "unitary", "c": 3}, {"do": "sim", "s": 0, "c": 2, "v": 0, "vm": "c"},
                   {"do": "sim", "s": 0, "c": 3, "v": 0, "vm": "c"}, {"do": "lift", "c": 2, "k": 0, "n": 3},
                   {"do": "lift", "c": 3, "k": 0, "n": 3}, {"do": "apply", "c": 2, "v": 0, "vm": "c"},
                   {"do": "apply", "c": 3, "v": 0, "vm": "c"}]},
        # the same operation twice in a row: as ONE object used twice ("alias") and as two equal objects
        {"kind": "hist", "sims": [None, {"arity": [1], "q0": [], "mphase": False, "any": True}],
         "circs": [{"n": 2, "alias": True, "ops": [{"g": h, "qs": [0]}, {"g": h, "qs": [0]}, {"g": u1, "qs": [1]}, {"g": u1, "qs": [1]},
                                                  {"g": cnot, "qs": [0, 1]}, {"g": h, "qs": [0]}]},
                   {"n": 2, "ops": [{"g": h, "qs": [0]}, {"g": h, "qs": [0]}, {"g": u1, "qs": [1]}, {"g": u1, "qs": [1]},
                                    {"g": cnot, "qs": [0, 1]}, {"g": h, "qs": [0]}]}],
         "vecs": [[["3/5", 0], [0, 0], [0, "4/5"], [0, 0]]],
         "steps": [{"do": "unitary", "c": 0}, {"do": "sim", "s": 0, "c": 0, "v": 0, "vm": "c"}, {"do": "sim", "s": 1, "c": 0, "v": None},
                   {"do": "apply", "c": 0, "v": 0, "vm": "c"}, {"do": "unitary", "c": 1}, {"do": "sim", "s": 0, "c": 1, "v": 0, "vm": "c"},
                   {"do": "sim", "s": 1, "c": 1, "v": None}, {"do": "apply", "c": 1, "v": 0, "vm": "c"},
                   {"do": "add", "a": 0, "b": 0}, {"do": "unitary", "c": 2}, {"do": "sim", "s": 0, "c": 2, "v": None}]},
        # circuit objects asked twice with the first answer overwritten, c + c, the operands asked again after the sum
        {"kind": "hist", "sims": [None],
         "circs": [{"n": None, "ops": [{"g": g1, "qs": [1]}, {"g": cnot, "qs": [1, 0]}]}, {"n": 3, "ops": [{"g": g2, "qs": [2, 0]}]}],
         "vecs": [v2],
         "steps": [{"do": "unitary", "c": 0, "poison": True}, {"do": "unitary", "c": 0}, {"do": "add", "a": 0, "b": 0},
                   {"do": "unitary", "c": 2}, {"do": "add", "a": 0, "b": 1}, {"do": "unitary", "c": 3}, {"do": "width", "c": 3},
                   {"do": "unitary", "c": 0}, {"do": "unitary", "c": 1}, {"do": "add_op", "a": 1, "c": 0, "k": 1},
                   {"do": "unitary", "c": 4}, {"do": "apply", "c": 0, "v": 0, "vm": "c", "poison": True},
                   {"do": "apply", "c": 0, "v": 0, "vm": "c"}, {"do": "width", "c": 0}]},
        # the empty circuit on the default state: the caller overwrites the state it got, then asks again
        {"kind": "hist", "sims": [None, {"arity": [], "q0": [], "mphase": False, "any": True}], "circs": [{"n": 2, "ops": []}],
         "vecs": [[[0, 0], [0, 1], [0, 0], [0, 0]]],
         "steps": [{"do": "sim", "s": 0, "c": 0, "v": None, "poison": True}, {"do": "sim", "s": 0, "c": 0, "v": None},
                   {"do": "sim", "s": 1, "c": 0, "v": None, "poison": True}, {"do": "sim", "s": 1, "c": 0, "v": None},
                   {"do": "sim", "s": 0, "c": 0, "v": 0, "vm": "fresh", "poison": True},
                   {"do": "sim", "s": 0, "c": 0, "v": 0, "vm": "fresh"}, {"do": "apply", "c": 0, "v": 0, "vm": "c"}]},
        # finding: an integral float width passes the constructor's check but is kept as a float
        {"kind": "circuit", "n": 3, "nt": "float", "ops": [{"g": g1, "qs": [0]}, {"g": cnot, "qs": [0, 1]}], "sym": "none",
         "v": [[1, k] for k in range(8)]},
        {"kind": "circuit", "n": 3, "nt": "np", "ops": [{"g": g1, "qs": [0], "qt": "np"}, {"g": cnot, "qs": [0, 1]}], "sym": "none",
         "v": [[1, k] for k in range(8)]},
        # finding: a gate with a free symbol cannot be applied to a state given as a Python list (sympy Matrix @ list)
        {"kind": "hist", "sims": [None], "circs": [{"n": 1, "ops": [{"g": rx, "qs": [0], "s": True}]}],
         "vecs": [[["3/5", 0], [0, "4/5"]]],
         "steps": [{"do": "apply1", "c": 0, "k": 0, "v": 0, "vm": "list"}, {"do": "sim", "s": 0, "c": 0, "v": 0, "vm": "list"},
                   {"do": "sim", "s": 0, "c": 0, "v": 0, "vm": "c"}]},
    ]


def generate(rng, tier):
    big = tier == "thorough"
    cases = []
    # --- exhaustive ordered tuples of distinct indices
    cases += _all_tuples(rng, 4 if big else 3, 4 if big else 3)
    if not big:
        # every ordering of a 4-qubit gate on 4 qubits (special-shape shortcuts that agree with the general rule up to arity 3)
        cases += [c for c in _all_tuples(rng, 4, 4, sym_every=6) if len(c["qs"]) == 4]
    # --- random single lifts (both embedding paths), arity 1..4, gaps, descending
    for _ in range(120 if big else 22):
        n = rng.choice([2, 3, 4, 4, 5] if big else [2, 3, 4, 4])
        k = rng.randrange(1, min(n, 4) + 1)
        g = rng.choice([_gauss(rng, k, 3), _gauss(rng, k, 3), _unitary_gate(rng, n, 4)])
        cases.append(dict(_op(rng, n, g), kind="lift", n=n, sym=rng.choice(["none", "none", "all"])))
    for n, qs in ([(5, [4, 0, 2]), (6, [1, 4]), (6, [5, 2, 3, 0])] if big else [(5, [3, 0])]):
        cases.append({"kind": "lift", "g": _gauss(rng, len(qs), 3), "qs": qs, "n": n, "sym": "none"})
    # --- random circuits: to_unitary + step-wise apply
    for i in range(90 if big else 14):
        n = rng.choice([2, 3, 4, 5] if big else [2, 3, 3, 4])
        length = rng.randrange(1, 13 if n <= 3 else (9 if n == 4 else 5))
        c = _circuit(rng, n, length, max_arity=4)
        sym = "none"
        if i % 5 == 1:
            # symbolic embedding path: every gate is a custom gate with a free symbol
            c["ops"] = [_op(rng, n, _gauss(rng, rng.randrange(1, min(n, 3) + 1), 1)) for _ in range(min(length, 4))]
            sym = "all"
        elif i % 5 == 3 and i % 2 == 1:
            # mixed: symbolic custom gates (even positions) next to numeric gates of any kind (odd positions)
            ln = max(2, min(length, 5))
            ops = []
            for j in range(ln):
                if j % 2 == 0:
                    ops.append(_op(rng, n, _gauss(rng, rng.randrange(1, min(n, 2) + 1), 1)))
                else:
                    ops.append(_op(rng, n, _unitary_gate(rng, n, 2)))
            c["ops"] = ops
            sym = "mixed"
        elif i % 5 == 3 or i % 5 == 4:
            # mixed, any pattern: runs of numeric gates before / between / after gates with a free symbol (custom gates and
            # parametric built-ins), so that both embedding paths and both multiplication paths meet in one product
            c["ops"] = _mixed_ops(rng, n, max(2, min(length, 6)))
        cases.append(dict(c, kind="circuit", v=_exotic_vec(rng, n), sym=sym))
    if big:
        c = _circuit(rng, 6, 3, max_arity=2)
        cases.append(dict(c, kind="circuit", v=_gvec(rng, 6), sym="none"))
    # idle qubits: declared width larger than the operations need
    for _ in range(6 if big else 3):
        n = rng.choice([2, 3])
        c = _circuit(rng, n, rng.randrange(1, 5), declared=n + rng.randrange(1, 3))
        cases.append(dict(c, kind="circuit", v=_gvec(rng, c["n"]), sym="none"))
    # --- simulators: bundled one, and base-class ones with a random native predicate, phases interleaved
    for i in range(150 if big else 20):
        n = rng.choice([1, 2, 3, 4] if big else [1, 2, 3, 3])
        cases.append(_sim_case(rng, n, rng.randrange(0, 9 if n <= 3 else 6), native=(i % 3 != 0)))
    # --- concatenation
    for _ in range(60 if big else 10):
        na, nb = rng.randrange(1, 5 if big else 4), rng.randrange(1, 5 if big else 4)
        a = _circuit(rng, na, rng.randrange(0, 4), budget=2)
        b = _circuit(rng, nb, rng.randrange(0, 4), budget=2)
        if not a["ops"]:
            a["n"] = rng.choice([None, na])
        if rng.random() < 0.3:
            # one operand (or both) carries free symbols: the sum is a mixed circuit
            for c_ in (a, b):
                c_["ops"] = [dict(o, s=True) if _symbolizable(o) and rng.random() < 0.5 else o for o in c_["ops"]]
            _limit_sym(a["ops"] + b["ops"], max(na, nb) + 2)
        cases.append({"kind": "add", "a": a, "b": b, "sym": "none"})
        # declared widths beyond what the gates use (idle trailing qubits) on either operand, also on an empty one
        b2 = dict(b, n=nb + rng.randrange(1, 3))
        a2 = dict(a, n=rng.choice([None, na, na + rng.randrange(1, 3)])) if a["ops"] else dict(a)
        cases.append({"kind": "add", "a": a2, "b": b2, "sym": "none"})
        g = _any_gate(rng, nb, 3, [1])
        cases.append({"kind": "add_op", "a": a, "op": _op(rng, nb, g), "sym": "none"})
    # --- histories on long-lived objects (simulators, circuits, operations, arrays), wide registers, long programs
    cases += _histories(rng, big)
    cases += _twin_cases(rng, big)
    cases += _tiny_cases(rng, big)
    # --- malformed stream
    for _ in range(40 if big else 8):
        n = rng.choice([2, 3])
        r = rng.randrange(7)
        g = _gauss(rng, 2, 2)
        if r == 0:
            q = rng.randrange(n)
            cases.append({"kind": "lift", "g": g, "qs": [q, q], "n": n, "sym": "none"})
        elif r == 1:
            cases.append({"kind": "lift", "g": g, "qs": [0, n + rng.randrange(0, 2)], "n": n, "sym": "none"})
        elif r == 2:
            cases.append({"kind": "lift", "g": g, "qs": rng.sample(range(n), rng.choice([1, 3]) if n == 3 else 1), "n": n,
                          "sym": "none"})
        elif r == 3:
            c = _circuit(rng, n, 2, declared=n)
            cases.append(dict(c, kind="circuit", v=_gvec(rng, n)[:-1], sym="none"))
        elif r == 4:
            c = _circuit(rng, n, 2, declared=n)
            c["ops"].insert(rng.randrange(0, 3), _mphase(rng, n))
            cases.append(dict(c, kind="circuit", v=_gvec(rng, n), sym="none"))
        elif r == 5:
            s = _sim_case(rng, n, 3, native=True)
            s["ops"].append(_mphase(rng, n - 1))
            cases.append(s)
        else:
            c = _circuit(rng, n, 2, declared=n - 1)
            c["ops"].append(_op(rng, n, g))
            c["ops"][-1]["qs"] = [n - 1, 0]
            cases.append(dict(c, kind="circuit", v=_gvec(rng, n - 1), sym="none"))
    return cases


def _gate_nontrivial(o, n):
    if "mphase" in o:
        return False
    qs = o["qs"]
    if len(qs) >= 2 and any(b != a + 1 for a, b in zip(qs, qs[1:])):
        return True
    return False


def _twin_cases(rng, big):
    out = []
    for _ in range(24 if big else 8):
        n = rng.randrange(1, 4)
        ops = _twin_circuit(rng, n)
        if rng.random() < 0.6:
            out.append({"kind": "circuit", "n": rng.choice([None, n]), "ops": ops, "v": _gvec(rng, n), "sym": "none"})
        else:
            out.append({"kind": "sim", "n": n, "ops": ops, "v": rng.choice([None, _unit_vec(rng, n)]), "native": _native(rng, n)})
    return out


def _tiny_cases(rng, big):
    """gates EXTREMELY close to the identity (rotations by 1e-4 … 1e-9): a tolerance-based "is this the identity?" shortcut in any
    route (to_unitary, apply, a simulator) treats them as absent, the other routes do not (oracle only: raw angles)"""
    out = []
    for _ in range(16 if big else 6):
        n = rng.randrange(1, 4)
        ops = []
        for _ in range(rng.randrange(2, 6)):
            name = rng.choice(["RZ", "PHASE", "RX", "RY", "RZ", "PHASE"] + (["CPHASE", "ZZ", "XX"] if n >= 2 else []))
            x = Fraction(rng.choice([1, 2, 3, 8]), 10 ** rng.randrange(4, 10)) * rng.choice([1, -1])
            ops.append({"g": {"gate": name, "angles": [{"raw": str(x)}]}, "qs": rng.sample(range(n), circ.BUILTIN_QUBITS[name])})
            if rng.random() < 0.4:
                ops.append(_op(rng, n, _unitary_gate(rng, n, 2)))
        if rng.random() < 0.5:
            out.append({"kind": "circuit", "n": n, "ops": ops, "v": _gvec(rng, n), "sym": "none"})
        else:
            out.append({"kind": "sim", "n": n, "ops": ops, "v": _unit_vec(rng, n), "native": _native(rng, n)})
    return out


def nontrivial(case):
    k = case["kind"]
    if k == "lift":
        return _op_ok(case, case["n"]) and (_gate_nontrivial(case, case["n"]) or len(case["qs"]) < case["n"])
    if k in ("circuit", "sim"):
        n = _width(case)
        if n is None or len(case["ops"]) < 2 or not all(_op_ok(o, n) for o in case["ops"]):
            return False
        used = {q for o in case["ops"] if "qs" in o for q in o["qs"]}
        return any(_gate_nontrivial(o, n) for o in case["ops"]) or len(used) < n
    if k in ("add", "add_op"):
        ops = case["a"]["ops"] + (case["b"]["ops"] if k == "add" else [case["op"]])
        return len(ops) >= 2 and _width(case["a"]) != _width(case["b"] if k == "add" else {"n": None, "ops": [case["op"]]})
    if k == "hist":
        # >= 2 result-producing calls on shared objects, one of them on a circuit that is non-trivial by the rule above
        calls = [st for st in case["steps"] if st["do"] in RESULT_STEPS]
        if len(calls) < 2:
            return False
        specs = [sp for _, sp, _, _ in _hist_walk(case) if sp is not None]
        return any(nontrivial({"kind": "circuit", "n": sp.get("n"), "ops": sp["ops"]}) or
                   (len(sp["ops"]) == 1 and nontrivial(dict(sp["ops"][0], kind="lift", n=_width(sp) or 0))
                    if "g" in (sp["ops"] or [{}])[0] else False) for sp in specs)
    return False


def distribution(cases, outs):
    widths, arities, kinds_err = {}, {}, 0
    steps = {}
    for c in cases:
        if c["kind"] == "hist":
            for st in c["steps"]:
                key = st["do"] + ("+overwrite" if st.get("poison") else "")
                steps[key] = steps.get(key, 0) + 1
    for c, o in zip(cases, outs):
        if c["kind"] == "hist":
            for sp in c["circs"]:
                n = _width(sp)
                if n is not None:
                    widths[n] = widths.get(n, 0) + 1
            continue
        ops = c.get("ops") or ([c] if c["kind"] == "lift" else [])
        for op in ops:
            if "qs" in op:
                arities[len(op["qs"])] = arities.get(len(op["qs"]), 0) + 1
        n = c.get("n") if c["kind"] == "lift" else (_width(c) if "ops" in c else None)
        if n is not None:
            widths[n] = widths.get(n, 0) + 1
        if any(_is_err(v) for v in (o.values() if isinstance(o, dict) else [])):
            kinds_err += 1
    return {"widths": dict(sorted(widths.items())), "arities": dict(sorted(arities.items())),
            "cases_with_an_exception": kinds_err,
            "symbolic_path_cases": sum(1 for c in cases if c.get("sym") in ("all", "mixed") or any(
                o.get("s") for sp in ([c] if "ops" in c else c.get("circs", [])) for o in sp["ops"])),
            "history_steps": dict(sorted(steps.items())),
            "native_predicate_cases": sum(1 for c in cases if c.get("native"))}
