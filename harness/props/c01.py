"""C01 — a circuit acts as the ordered product of its gates on the named qubits."""
import math
from fractions import Fraction

from .. import circ, common
from ..common import rat, unrat

PROP = "C01"
RULE = ("seeded random lifts / circuits / simulator runs / concatenations + exhaustive ordered index tuples of small "
        "registers; non-trivial: >= 2 operations, with at least one gate of arity >= 2 on non-adjacent or descending "
        "indices, or an idle qubit (single lifts: arity >= 2 on non-adjacent or descending indices, or an idle qubit); "
        "distinct = distinct canonical JSON of the case")
TRUSTED = [
    "numpy `@`, `np.kron`, `np.eye`, `np.multiply`, `np.exp` and sympy `Matrix.__matmul__`, `kronecker_product`, `eye`, "
    "`transpose` are the matrix product / Kronecker product / identity / entrywise operations (the model computes them "
    "exactly in Q(zeta_8); the check compares with tolerance 1e-9 relative to the largest entry)",
    "`_get_wavefunction_from_native_circuit` of a simulator built on BaseWavefunctionSimulator returns what applying the "
    "operations of the native piece one at a time returns (hypothesis `hnative` of get_wavefunction_eq_applyAll); the "
    "harness subclass satisfies it by an independent bit-manipulation implementation",
    "`itertools.groupby` yields the maximal runs of equal key in order (model: groupBy)",
    "the constructor checks of `Wavefunction(...)` (power-of-two length, unit norm by np.isclose) are the abstract "
    "predicate `valid`; the driver evaluates it exactly (sum |a|^2 = 1)",
    "`gate.matrix` of every operation is an input of this property (its correctness is C02/C07)",
]
ASSUMPTIONS = [
    "Python int arithmetic on qubit indices = Lean Nat arithmetic (indices >= 0)",
    "np.log2 / 2**x on vector lengths: every non-power-of-two length ends in an exception (model: none)",
    "simulator cases use unitary gates and unit initial states, so the Wavefunction norm check is decided identically "
    "by np.isclose and by the exact model",
]

TOL = 1e-9
UNITS = [(1, 0), (0, 1), (-1, 0), (0, -1)]
TEMPLATES = [[1], [Fraction(3, 5), Fraction(4, 5)], [Fraction(1, 3), Fraction(2, 3), Fraction(2, 3)],
             [Fraction(1, 2)] * 4, [Fraction(2, 7), Fraction(3, 7), Fraction(6, 7)],
             [Fraction(1, 9), Fraction(4, 9), Fraction(8, 9)]]
EXACT_UNITARY = ["X", "Y", "Z", "I", "S", "SX", "CNOT", "CZ", "SWAP", "ISWAP", "H", "T"]
ROTATIONS = ["RX", "RY", "RZ", "PHASE", "U3", "GPi", "GPi2", "CPHASE", "XX", "YY", "ZZ", "XY", "MS", "RH"]


# ------------------------------------------------------------------ library objects
def _lib():
    common.use_repo()
    import orquestra.quantum.circuits as oqc
    from orquestra.quantum.circuits import MultiPhaseOperation, split_circuit
    from orquestra.quantum.api.wavefunction_simulator import BaseWavefunctionSimulator
    from orquestra.quantum.runners.symbolic_simulator import SymbolicSimulator
    return oqc, MultiPhaseOperation, split_circuit, BaseWavefunctionSimulator, SymbolicSimulator


def _sym_partner(m):
    """a fixed integer matrix N of the same shape (used to make a gate symbolic: M + (t-1)·N)"""
    d = len(m)
    return [[((3 * i + 5 * j + 1) % 5) - 2 for j in range(d)] for i in range(d)]


def _build_gate(spec, symbolic=False):
    """the REAL gate object; `symbolic` turns a custom gate into one with a free symbol t (value 1)"""
    if symbolic and "custom" in spec:
        import sympy
        oqc = _lib()[0]
        t = sympy.Symbol("t_c01")
        m = circ.sympy_matrix(spec["m"])
        n = sympy.Matrix(_sym_partner(spec["m"]))
        d = oqc.CustomGateDefinition(spec["custom"] + "_s", m + (t - 1) * n, (t,))
        return d(t)
    return circ.build_gate(spec)


def _build_op(o, symbolic=False):
    if "mphase" in o:
        MultiPhaseOperation = _lib()[1]
        return MultiPhaseOperation(tuple(circ.theta_of(a) for a in o["mphase"]))
    return _build_gate(o["g"], symbolic)(*o["qs"])


def _is_sym(case, i, o):
    s = case.get("sym", "none")
    if "mphase" in o or "custom" not in o.get("g", {}):
        return False
    return s == "all" or (s == "mixed" and i % 2 == 0)


def _build_circuit(case, cspec):
    oqc = _lib()[0]
    ops = [_build_op(o, _is_sym(case, i, o)) for i, o in enumerate(cspec["ops"])]
    return oqc.Circuit(ops, n_qubits=cspec.get("n"))


def _subs(x):
    """numpy / sympy / object-array result -> numpy complex array, substituting t = 1"""
    import numpy as np
    import sympy
    one = {sympy.Symbol("t_c01"): sympy.Integer(1)}
    if isinstance(x, sympy.MatrixBase):
        return np.array([[complex(e.xreplace(one)) for e in x.row(i)] for i in range(x.rows)], dtype=complex)
    a = np.asarray(x)
    if a.dtype == object:
        flat = [complex(sympy.sympify(e).xreplace(one)) for e in a.reshape(-1)]
        return np.array(flat, dtype=complex).reshape(a.shape)
    return a.astype(complex)


def _cjson(a):
    """complex numpy array -> nested lists of [re, im]"""
    import numpy as np
    a = np.asarray(a, dtype=complex)
    if a.ndim == 1:
        return [[float(z.real), float(z.imag)] for z in a]
    return [[[float(z.real), float(z.imag)] for z in row] for row in a]


def _cnp(j):
    import numpy as np
    a = np.array(j, dtype=float)
    return a[..., 0] + 1j * a[..., 1]


def _vec(v):
    import numpy as np
    return np.array([complex(float(unrat(e[0])), float(unrat(e[1]))) for e in v], dtype=complex)


def _exact_matrix(g):
    """gate.matrix of a wrapped gate as exact Gaussian rationals (None when an entry is not one)"""
    import sympy
    rows = []
    for i in range(g.matrix.rows):
        row = []
        for j in range(g.matrix.cols):
            e = sympy.nsimplify(g.matrix[i, j])
            re, im = sympy.re(e), sympy.im(e)
            if not (re.is_Rational and im.is_Rational):
                return None
            row.append([rat(Fraction(int(re.p), int(re.q))), rat(Fraction(int(im.p), int(im.q)))])
        rows.append(row)
    return rows


ERRS = (ValueError, TypeError, NotImplementedError)


def _try(f):
    try:
        return f()
    except ERRS as e:
        return "err:" + type(e).__name__ + ":" + str(e)[:60]


def _is_err(x):
    return isinstance(x, str) and x.startswith("err")


def _pred(MultiPhaseOperation, p):
    def pred(op):
        if isinstance(op, MultiPhaseOperation):
            return p["mphase"]
        a = len(op.qubit_indices) in p["arity"]
        b = len(op.qubit_indices) > 0 and op.qubit_indices[0] in p["q0"]
        return (a or b) if p["any"] else (a and b)
    return pred


def _wrapped_mats(cspec):
    """exact matrices of the operations whose gate is neither a plain built-in nor a plain custom gate"""
    out = {}
    for i, o in enumerate(cspec["ops"]):
        if "g" in o and "gate" not in o["g"] and "custom" not in o["g"]:
            out[str(i)] = _try(lambda: _exact_matrix(circ.build_gate(o["g"])))
    return out


def _circuit_obs(case, cspec, with_unitary=True):
    c = _try(lambda: _build_circuit(case, cspec))
    if _is_err(c):
        return {"n": c, "len": None, "unitary": c}
    res = {"n": int(c.n_qubits), "len": len(c.operations)}
    if with_unitary:
        u = _try(lambda: c.to_unitary())
        res["unitary"] = u if _is_err(u) else _cjson(_subs(u))
    return res


# ------------------------------------------------------------------ implementation
def run_impl(case):
    import warnings

    import numpy as np
    warnings.filterwarnings("ignore", category=RuntimeWarning)
    warnings.filterwarnings("ignore", category=DeprecationWarning)
    oqc, MultiPhaseOperation, split_circuit, Base, SymbolicSimulator = _lib()
    k = case["kind"]
    if k == "lift":
        def f():
            op = _build_gate(case["g"], case.get("sym") == "all")(*case["qs"])
            return _cjson(_subs(op.lifted_matrix(case["n"])))
        out = {"lift": _try(f)}
        if "gate" not in case["g"] and "custom" not in case["g"]:
            out["wrapped"] = _try(lambda: _exact_matrix(circ.build_gate(case["g"])))
        return out
    if k == "circuit":
        out = _circuit_obs(case, case)
        out["wrapped"] = _wrapped_mats(case)

        def stepwise():
            c = _build_circuit(case, case)
            state = _vec(case["v"])
            for op in c.operations:
                state = op.apply(state)
            return _cjson(_subs(state))
        out["applied"] = _try(stepwise)
        return out
    if k == "sim":
        out = {"wrapped": _wrapped_mats(case)}
        c = _try(lambda: _build_circuit(case, case))
        if _is_err(c):
            return dict(out, state=c, segments=None)
        v0 = None if case.get("v") is None else _vec(case["v"])
        if case.get("native") is None:
            out["state"] = _try(lambda: _cjson(SymbolicSimulator().get_wavefunction(c, v0).amplitudes))
            out["segments"] = None
            return out
        pred = _pred(MultiPhaseOperation, case["native"])

        class HarnessSimulator(Base):
            """native pieces are evolved by an independent bit-manipulation implementation"""

            def is_natively_supported(self, operation):
                return pred(operation)

            def _get_wavefunction_from_native_circuit(self, circuit, initial_state):
                state = np.asarray(initial_state, dtype=complex)
                for op in circuit.operations:
                    if isinstance(op, oqc.GateOperation):
                        g = np.array(op.gate.matrix.tolist(), dtype=complex)
                        state = circ.embed_reference(g, list(op.qubit_indices), circuit.n_qubits) @ state
                    else:
                        state = state * np.exp(1j * np.asarray(op.params, dtype=float))
                return state

        sim = HarnessSimulator()
        out["state"] = _try(lambda: _cjson(sim.get_wavefunction(c, v0).amplitudes))
        out["segments"] = [[bool(b), len(s.operations), int(s.n_qubits)] for b, s in split_circuit(c, pred)]
        out["jobs"] = int(sim._n_jobs_executed)
        return out
    if k == "add":
        out = {"a": _circuit_obs(case, case["a"]), "b": _circuit_obs(case, case["b"]),
               "wa": _wrapped_mats(case["a"]), "wb": _wrapped_mats(case["b"])}

        def f():
            s = _build_circuit(case, case["a"]) + _build_circuit(case, case["b"])
            u = _try(lambda: s.to_unitary())
            return {"n": int(s.n_qubits), "len": len(s.operations), "unitary": u if _is_err(u) else _cjson(_subs(u))}
        out["sum"] = _try(f)
        return out
    if k == "add_op":
        out = {"a": _circuit_obs(case, case["a"]), "wa": _wrapped_mats(case["a"]),
               "wb": _wrapped_mats({"ops": [case["op"]]})}

        def f():
            s = _build_circuit(case, case["a"]) + _build_op(case["op"])
            u = _try(lambda: s.to_unitary())
            return {"n": int(s.n_qubits), "len": len(s.operations), "unitary": u if _is_err(u) else _cjson(_subs(u))}
        out["sum"] = _try(f)
        return out
    raise AssertionError("unknown kind")


# ------------------------------------------------------------------ model requests
def _model_op(o, wrapped, i):
    if "mphase" in o:
        return {"mphase": o["mphase"]}
    g = o["g"]
    if "gate" in g:
        return {"gate": g["gate"], "angles": g["angles"], "qs": o["qs"]}
    if "custom" in g:
        return {"m": g["m"], "qs": o["qs"]}
    m = wrapped.get(str(i)) if isinstance(wrapped, dict) else wrapped
    if m is None or _is_err(m):
        raise KeyError("no exact matrix for wrapped gate")
    return {"m": m, "qs": o["qs"]}


def _model_circ(cspec, wrapped):
    return {"n": cspec.get("n"), "ops": [_model_op(o, wrapped, i) for i, o in enumerate(cspec["ops"])]}


def requests(case, out):
    k = case["kind"]
    try:
        if k == "lift":
            o = _model_op({"g": case["g"], "qs": case["qs"]}, out.get("wrapped"), 0)
            return [("lift", dict(o, n=case["n"]))]
        if k == "circuit":
            mc = _model_circ(case, out.get("wrapped", {}))
            return [("circuit", mc), ("apply_all", {"ops": mc["ops"], "v": case["v"]})]
        if k == "sim":
            mc = _model_circ(case, out.get("wrapped", {}))
            return [("wavefunction", dict(mc, v=case.get("v"), native=case.get("native")))]
        if k == "add":
            return [("add_circuit", {"a": _model_circ(case["a"], out["wa"]), "b": _model_circ(case["b"], out["wb"])})]
        if k == "add_op":
            return [("add_op", {"a": _model_circ(case["a"], out["wa"]), "op": _model_op(case["op"], out["wb"], 0)})]
    except KeyError:
        return []
    return []


def _model_np(resp):
    import numpy as np
    return np.array([[common.cyc_to_complex(x) for x in row] for row in resp], dtype=complex)


def _close(a, b):
    import numpy as np
    a, b = np.asarray(a, dtype=complex), np.asarray(b, dtype=complex)
    if a.shape != b.shape:
        return False
    scale = max(1.0, float(np.max(np.abs(b))) if b.size else 1.0)
    return bool(np.all(np.abs(a - b) <= TOL * scale))


def _cmp_matrix(what, impl, model, vector=False):
    """impl: err string or [re,im] lists; model: "err" or driver matrix"""
    if _is_err(impl) or model == "err":
        if _is_err(impl) and model == "err":
            return None
        return f"{what}: implementation {str(impl)[:80]} but model {str(model)[:80]}"
    a = _cnp(impl)
    b = _model_np(model)
    if vector:
        b = b.reshape(-1)
    if not _close(a, b):
        return f"{what}: implementation and model differ (impl {str(impl)[:160]} model {str(b.tolist())[:160]})"
    return None


def _cmp_circ(what, impl, model, skip_unitary=False):
    if _is_err(impl) or (isinstance(impl, dict) and _is_err(impl.get("n"))) or model == "err":
        ie = _is_err(impl) or (isinstance(impl, dict) and _is_err(impl.get("n")))
        return None if (ie and model == "err") else f"{what}: implementation {str(impl)[:80]} model {str(model)[:80]}"
    if impl["n"] != model["n"] or impl["len"] != model["len"]:
        return f"{what}: width/length implementation {impl['n']}/{impl['len']} model {model['n']}/{model['len']}"
    if skip_unitary:
        return None
    return _cmp_matrix(what + ".to_unitary", impl["unitary"], model["unitary"])


def compare(case, out, resp):
    for r in resp:
        if isinstance(r, dict) and "driver_error" in r:
            return "driver error: " + r["driver_error"]
    k = case["kind"]
    if k == "lift":
        return _cmp_matrix("lifted_matrix", out["lift"], resp[0])
    if k == "circuit":
        # mixed symbolic / numeric circuits: to_unitary() is compared after substituting the symbol (t = 1)
        m = _cmp_circ("Circuit", out, resp[0])
        if m:
            return m
        return _cmp_matrix("step-wise apply", out["applied"], resp[1], vector=True)
    if k == "sim":
        r = resp[0]
        if case.get("native") is None:
            return _cmp_matrix("SymbolicSimulator.get_wavefunction", out["state"], r, vector=True)
        if r == "err":
            return None if _is_err(out["state"]) else f"get_wavefunction: implementation {str(out['state'])[:80]} model err"
        if out["segments"] != r["segments"]:
            return f"split_circuit: implementation {out['segments']} model {r['segments']}"
        return _cmp_matrix("BaseWavefunctionSimulator.get_wavefunction", out["state"], r["state"], vector=True)
    if k in ("add", "add_op"):
        return _cmp_circ("Circuit.__add__", out["sum"], resp[0])
    return None


# ------------------------------------------------------------------ oracle (independent of the model)
def _arity(o):
    return circ.spec_num_qubits(o["g"])


def _width(cspec):
    """width the library must report, or None when the circuit is outside the domain"""
    idx = []
    for o in cspec["ops"]:
        if "mphase" in o:
            ln = len(o["mphase"])
            if ln < 1 or ln & (ln - 1):
                return None
            idx += list(range(ln.bit_length() - 1))
        else:
            idx += o["qs"]
    n = cspec.get("n")
    if n:
        return n
    if cspec["ops"] and not idx:
        return None
    return max(idx) + 1 if idx else 0


def _op_ok(o, n):
    if "mphase" in o:
        return len(o["mphase"]) == 2 ** n
    qs = o["qs"]
    return (len(qs) >= 1 and len(set(qs)) == len(qs) and all(0 <= q < n for q in qs) and len(qs) == _arity(o))


def _gate_np(o):
    import numpy as np
    if "custom" in o["g"]:
        return circ.numpy_matrix(o["g"]["m"])
    return np.array(circ.build_gate(o["g"]).matrix.tolist(), dtype=complex)


def _op_matrix(o, n):
    """the operation's own matrix placed on its qubits by bit manipulation; phases: a diagonal"""
    import numpy as np
    if "mphase" in o:
        return np.diag([complex(math.cos(circ.theta_of(a)), math.sin(circ.theta_of(a))) for a in o["mphase"]])
    return circ.embed_reference(_gate_np(o), o["qs"], n)


def _product(ops, n):
    import numpy as np
    u = np.eye(2 ** n, dtype=complex)
    for o in ops:
        u = _op_matrix(o, n) @ u
    return u


def _sig_mixed(case, got):
    return case.get("sym") == "mixed" and _is_err(got) and "invalid literal" in got


def oracle(case, out):
    import numpy as np
    k = case["kind"]
    if isinstance(out, dict) and "exc" in out:
        return ("unexpected-exception", f"{k}: implementation raised {out['exc']}: {out['msg']}")
    if k == "lift":
        n = case["n"]
        if not (n >= 1 and _op_ok(case, n)):
            return None
        got = out["lift"]
        if _is_err(got):
            return ("lift-raise", f"lifted_matrix({n}) of a valid operation on {case['qs']} raised {got}")
        if not _close(_cnp(got), circ.embed_reference(_gate_np(case), case["qs"], n)):
            return ("lift-embedding", f"gate on qubits {case['qs']} of {n}: lifted matrix is not the gate on exactly those "
                                      "qubits and identity elsewhere")
        return None
    if k == "circuit":
        n = _width(case)
        if n is None or n < 1 and case["ops"]:
            return None
        if any("mphase" in o for o in case["ops"]) or not all(_op_ok(o, n) for o in case["ops"]):
            return None
        if out["n"] != n:
            return ("circuit-width", f"n_qubits {out['n']} expected {n}")
        u = _product(case["ops"], n)
        if case["ops"]:
            got = out["unitary"]
            if _sig_mixed(case, got):
                return ("mixed-symbolic-numeric-unitary",
                        "to_unitary() of a circuit mixing a gate with free symbols and a gate without raised " + got)
            if _is_err(got):
                return ("unitary-raise", f"to_unitary() of a valid circuit raised {got}")
            if not _close(_cnp(got), u):
                return ("unitary-product", "to_unitary() is not the ordered product of the gates on their qubits")
        if len(case["v"]) == 2 ** n:
            got = out["applied"]
            if _is_err(got):
                return ("apply-raise", f"step-wise apply on a valid circuit raised {got}")
            if not _close(_cnp(got), u @ _vec(case["v"])):
                return ("apply-product", "applying the operations one at a time differs from the circuit matrix times the state")
        return None
    if k == "sim":
        n = _width(case)
        if n is None or n < 1 or not all(_op_ok(o, n) for o in case["ops"]):
            return None
        v0 = np.eye(2 ** n, dtype=complex)[:, 0] if case.get("v") is None else _vec(case["v"])
        if len(v0) != 2 ** n:
            return None
        want = _product(case["ops"], n) @ v0
        if abs(float(np.sum(np.abs(want) ** 2)) - 1.0) > 1e-9:
            return None  # the Wavefunction constructor rejects it: outside the domain of a final *state*
        got = out["state"]
        if _is_err(got):
            return ("simulator-raise", f"get_wavefunction on a valid circuit raised {got}")
        if not _close(_cnp(got), want):
            return ("simulator-state", "simulator final state differs from the circuit matrix applied to the initial state "
                                       f"(native={case.get('native')})")
        return None
    if k in ("add", "add_op"):
        a = case["a"]
        b = case["b"] if k == "add" else {"n": None, "ops": [case["op"]]}
        na, nb = _width(a), _width(b)
        if na is None or nb is None:
            return None
        if any("mphase" in o for o in a["ops"] + b["ops"]):
            return None
        if not all(_op_ok(o, na) for o in a["ops"]) or not all(_op_ok(o, nb) for o in b["ops"]):
            return None
        n = max(na, nb)
        got = out["sum"]
        if _is_err(got):
            return ("add-raise", f"adding valid circuits raised {got}")
        if got["n"] != n:
            return ("add-width", f"width of the concatenation is {got['n']}, the larger of {na} and {nb} is {n}")
        if got["len"] != len(a["ops"]) + len(b["ops"]):
            return ("add-length", "concatenation lost or invented an operation")
        if a["ops"] or b["ops"]:
            if n < 1:
                return None
            u = got["unitary"]
            if _is_err(u):
                return ("add-unitary-raise", f"to_unitary() of the concatenation raised {u}")
            want = _product(b["ops"], n) @ _product(a["ops"], n)
            if not _close(_cnp(u), want):
                return ("add-compose", "the concatenation's matrix is not (second circuit) x (first circuit)")
            # the same through the implementation's own matrices, the narrower one widened by (x) 1
            if k == "add" and a["ops"] and b["ops"] and not _is_err(out["a"].get("unitary")) \
                    and not _is_err(out["b"].get("unitary")):
                ua = np.kron(_cnp(out["a"]["unitary"]), np.eye(2 ** (n - na)))
                ub = np.kron(_cnp(out["b"]["unitary"]), np.eye(2 ** (n - nb)))
                if not _close(_cnp(u), ub @ ua):
                    return ("add-compose", "U(a+b) differs from (U(b) (x) 1)(U(a) (x) 1)")
        return None
    return None


# ------------------------------------------------------------------ generators
_counter = [0]


def _name():
    _counter[0] += 1
    return f"c01g{_counter[0]}"


def _gauss(rng, k, lim=2):
    return {"custom": _name(), "m": circ.gauss_matrix(rng, k, -lim, lim)}


def _monomial(rng, k):
    d = 2 ** k
    perm = list(range(d))
    rng.shuffle(perm)
    m = [[[0, 0] for _ in range(d)] for _ in range(d)]
    for col in range(d):
        u = rng.choice(UNITS)
        m[perm[col]][col] = [u[0], u[1]]
    return {"custom": _name(), "m": m}


def _wrapped(rng, max_k):
    base = rng.choice([{"gate": "X", "angles": []}, {"gate": "S", "angles": []}, {"gate": "Y", "angles": []},
                       {"gate": "CNOT", "angles": []}, {"gate": "ISWAP", "angles": []}, _monomial(rng, 1)])
    kb = circ.spec_num_qubits(base)
    choices = ["dagger"]
    if kb + 1 <= max_k:
        choices += ["controlled", "controlled"]
    w = rng.choice(choices)
    if w == "dagger":
        return {"dagger": base}
    return {"controlled": base, "k": rng.randrange(1, max_k - kb + 1)}


def _unitary_gate(rng, n, max_arity=3):
    r = rng.random()
    if r < 0.35:
        return _monomial(rng, rng.randrange(1, min(n, max_arity) + 1))
    if r < 0.45 and n >= 2:
        return _wrapped(rng, min(n, max_arity + 1))
    names = [nm for nm in EXACT_UNITARY + ROTATIONS if circ.BUILTIN_QUBITS[nm] <= n]
    return circ.random_builtin_spec(rng, names)


def _any_gate(rng, n, max_arity, nonunitary_budget):
    if nonunitary_budget[0] > 0 and rng.random() < 0.45:
        nonunitary_budget[0] -= 1
        return _gauss(rng, rng.randrange(1, min(n, max_arity) + 1))
    return _unitary_gate(rng, n, max_arity)


def _op(rng, n, g):
    return {"g": g, "qs": rng.sample(range(n), circ.spec_num_qubits(g))}


def _gvec(rng, n):
    return [[rat(Fraction(rng.randrange(-4, 5), rng.choice([1, 2, 4]))),
             rat(Fraction(rng.randrange(-4, 5), rng.choice([1, 2, 4])))] for _ in range(2 ** n)]


def _unit_vec(rng, n):
    tpl = rng.choice([t for t in TEMPLATES if len(t) <= 2 ** n])
    pos = rng.sample(range(2 ** n), len(tpl))
    v = [[0, 0] for _ in range(2 ** n)]
    for p, x in zip(pos, tpl):
        u = rng.choice(UNITS)
        v[p] = [rat(x * u[0]), rat(x * u[1])]
    return v


def _mphase(rng, n):
    return {"mphase": [circ.rat_angle(rng, 0.3) for _ in range(2 ** n)]}


def _native(rng, n):
    return {"arity": sorted(rng.sample([1, 2, 3, 4], rng.randrange(0, 4))),
            "q0": sorted(rng.sample(range(n), rng.randrange(0, n + 1))),
            "mphase": rng.random() < 0.5, "any": rng.random() < 0.5}


def _circuit(rng, n, length, max_arity=3, budget=3, declared=None):
    b = [budget]
    ops = [_op(rng, n, _any_gate(rng, n, max_arity, b)) for _ in range(length)]
    return {"n": rng.choice([None, n]) if declared is None else declared, "ops": ops}


def _sim_case(rng, n, length, native):
    ops = []
    for _ in range(length):
        ops.append(_mphase(rng, n) if rng.random() < 0.3 else _op(rng, n, _unitary_gate(rng, n)))
    return {"kind": "sim", "n": n, "ops": ops, "v": rng.choice([None, _unit_vec(rng, n)]),
            "native": _native(rng, n) if native else None}


def _all_tuples(rng, max_n, max_k, sym_every=4):
    import itertools
    cases, i = [], 0
    for n in range(1, max_n + 1):
        for k in range(1, min(n, max_k) + 1):
            for qs in itertools.permutations(range(n), k):
                i += 1
                cases.append({"kind": "lift", "g": _gauss(rng, k, 3), "qs": list(qs), "n": n,
                              "sym": "all" if i % sym_every == 0 else "none"})
    return cases


def corpus():
    x = {"gate": "X", "angles": []}
    cnot = {"gate": "CNOT", "angles": []}
    g1 = {"custom": "corp1", "m": [[[1, 0], [2, 1]], [[0, -1], [3, 0]]]}
    g2 = {"custom": "corp2", "m": [[[(4 * i + j) % 5 - 2, (i + 3 * j) % 3 - 1] for j in range(4)] for i in range(4)]}
    v2 = [[1, 0], [0, 2], ["1/2", 0], [0, "-1/4"]]
    return [
        # F17: the empty circuit has no matrix (reduce of nothing), but applying no operation is the identity
        {"kind": "circuit", "n": 2, "ops": [], "v": v2, "sym": "none"},
        {"kind": "lift", "g": g2, "qs": [2, 0], "n": 4, "sym": "none"},
        {"kind": "lift", "g": g2, "qs": [3, 1], "n": 4, "sym": "all"},
        {"kind": "lift", "g": x, "qs": [0, 1], "n": 2, "sym": "none"},       # arity mismatch: raises
        {"kind": "lift", "g": cnot, "qs": [1, 1], "n": 2, "sym": "none"},    # duplicate index: raises
        {"kind": "lift", "g": x, "qs": [3], "n": 2, "sym": "none"},          # index outside the register: raises
        {"kind": "circuit", "n": None, "ops": [{"g": g1, "qs": [1]}, {"g": cnot, "qs": [1, 0]}], "v": v2, "sym": "none"},
        # regression input of the fixed finding (77d211c): numpy-2 / sympy-1.9 could not multiply a numeric lifted
        # matrix with a symbolic one; to_unitary() of a mixed circuit raised ValueError
        {"kind": "circuit", "n": None, "ops": [{"g": g1, "qs": [1]}, {"g": cnot, "qs": [1, 0]}], "v": v2, "sym": "mixed"},
        {"kind": "circuit", "n": 2, "ops": [{"g": g1, "qs": [1]}, {"mphase": [[1, 0]] * 4}], "v": v2, "sym": "none"},
        {"kind": "sim", "n": 2, "ops": [{"g": x, "qs": [1]}, {"mphase": [[1, 0], [0, 1], [1, 0], ["3/5", "4/5"]]},
                                        {"g": cnot, "qs": [1, 0]}], "v": None,
         "native": {"arity": [1], "q0": [], "mphase": False, "any": True}},
        {"kind": "add", "a": {"n": None, "ops": [{"g": g1, "qs": [0]}]}, "b": {"n": None, "ops": [{"g": g2, "qs": [2, 0]}]},
         "sym": "none"},
        {"kind": "add", "a": {"n": None, "ops": []}, "b": {"n": None, "ops": []}, "sym": "none"},
        # seeded change C01_m2: the right operand declares idle trailing qubits beyond both circuits' gates
        {"kind": "add", "a": {"n": None, "ops": [{"g": g1, "qs": [0]}]}, "b": {"n": 3, "ops": [{"g": g1, "qs": [0]}]}, "sym": "none"},
        {"kind": "add", "a": {"n": None, "ops": [{"g": g1, "qs": [0]}]}, "b": {"n": 2, "ops": []}, "sym": "none"},
        {"kind": "add_op", "a": {"n": 1, "ops": [{"g": g1, "qs": [0]}]}, "op": {"g": g2, "qs": [3, 1]}, "sym": "none"},
        {"kind": "add_op", "a": {"n": 1, "ops": [{"g": g1, "qs": [0]}]}, "op": {"mphase": [[1, 0], [0, 1]]}, "sym": "none"},
    ]


def generate(rng, tier):
    big = tier == "thorough"
    cases = []
    # --- exhaustive ordered tuples of distinct indices
    cases += _all_tuples(rng, 4 if big else 3, 4 if big else 3)
    # --- random single lifts (both embedding paths), arity 1..4, gaps, descending
    for _ in range(120 if big else 22):
        n = rng.choice([2, 3, 4, 4, 5] if big else [2, 3, 4, 4])
        k = rng.randrange(1, min(n, 4) + 1)
        g = rng.choice([_gauss(rng, k, 3), _gauss(rng, k, 3), _unitary_gate(rng, n, 4)])
        cases.append(dict(_op(rng, n, g), kind="lift", n=n, sym=rng.choice(["none", "none", "all"])))
    for n, qs in ([(5, [4, 0, 2]), (6, [1, 4]), (6, [5, 2, 3, 0])] if big else [(5, [3, 0])]):
        cases.append({"kind": "lift", "g": _gauss(rng, len(qs), 3), "qs": qs, "n": n, "sym": "none"})
    # --- random circuits: to_unitary + step-wise apply
    for i in range(90 if big else 14):
        n = rng.choice([2, 3, 4, 5] if big else [2, 3, 3, 4])
        length = rng.randrange(1, 13 if n <= 3 else (9 if n == 4 else 5))
        c = _circuit(rng, n, length, max_arity=4)
        sym = "none"
        if i % 5 == 1:
            # symbolic embedding path: every gate is a custom gate with a free symbol
            c["ops"] = [_op(rng, n, _gauss(rng, rng.randrange(1, min(n, 3) + 1), 1)) for _ in range(min(length, 4))]
            sym = "all"
        elif i % 5 == 3:
            # mixed: symbolic custom gates (even positions) next to numeric gates of any kind (odd positions)
            ln = max(2, min(length, 5))
            ops = []
            for j in range(ln):
                if j % 2 == 0:
                    ops.append(_op(rng, n, _gauss(rng, rng.randrange(1, min(n, 2) + 1), 1)))
                else:
                    ops.append(_op(rng, n, _unitary_gate(rng, n, 2)))
            c["ops"] = ops
            sym = "mixed"
        cases.append(dict(c, kind="circuit", v=_gvec(rng, n), sym=sym))
    if big:
        c = _circuit(rng, 6, 3, max_arity=2)
        cases.append(dict(c, kind="circuit", v=_gvec(rng, 6), sym="none"))
    # idle qubits: declared width larger than the operations need
    for _ in range(6 if big else 3):
        n = rng.choice([2, 3])
        c = _circuit(rng, n, rng.randrange(1, 5), declared=n + rng.randrange(1, 3))
        cases.append(dict(c, kind="circuit", v=_gvec(rng, c["n"]), sym="none"))
    # --- simulators: bundled one, and base-class ones with a random native predicate, phases interleaved
    for i in range(150 if big else 20):
        n = rng.choice([1, 2, 3, 4] if big else [1, 2, 3, 3])
        cases.append(_sim_case(rng, n, rng.randrange(0, 9 if n <= 3 else 6), native=(i % 3 != 0)))
    # --- concatenation
    for _ in range(60 if big else 10):
        na, nb = rng.randrange(1, 5 if big else 4), rng.randrange(1, 5 if big else 4)
        a = _circuit(rng, na, rng.randrange(0, 4), budget=2)
        b = _circuit(rng, nb, rng.randrange(0, 4), budget=2)
        if not a["ops"]:
            a["n"] = rng.choice([None, na])
        cases.append({"kind": "add", "a": a, "b": b, "sym": "none"})
        # declared widths beyond what the gates use (idle trailing qubits) on either operand, also on an empty one
        b2 = dict(b, n=nb + rng.randrange(1, 3))
        a2 = dict(a, n=rng.choice([None, na, na + rng.randrange(1, 3)])) if a["ops"] else dict(a)
        cases.append({"kind": "add", "a": a2, "b": b2, "sym": "none"})
        g = _any_gate(rng, nb, 3, [1])
        cases.append({"kind": "add_op", "a": a, "op": _op(rng, nb, g), "sym": "none"})
    # --- malformed stream
    for _ in range(40 if big else 8):
        n = rng.choice([2, 3])
        r = rng.randrange(7)
        g = _gauss(rng, 2, 2)
        if r == 0:
            q = rng.randrange(n)
            cases.append({"kind": "lift", "g": g, "qs": [q, q], "n": n, "sym": "none"})
        elif r == 1:
            cases.append({"kind": "lift", "g": g, "qs": [0, n + rng.randrange(0, 2)], "n": n, "sym": "none"})
        elif r == 2:
            cases.append({"kind": "lift", "g": g, "qs": rng.sample(range(n), rng.choice([1, 3]) if n == 3 else 1), "n": n,
                          "sym": "none"})
        elif r == 3:
            c = _circuit(rng, n, 2, declared=n)
            cases.append(dict(c, kind="circuit", v=_gvec(rng, n)[:-1], sym="none"))
        elif r == 4:
            c = _circuit(rng, n, 2, declared=n)
            c["ops"].insert(rng.randrange(0, 3), _mphase(rng, n))
            cases.append(dict(c, kind="circuit", v=_gvec(rng, n), sym="none"))
        elif r == 5:
            s = _sim_case(rng, n, 3, native=True)
            s["ops"].append(_mphase(rng, n - 1))
            cases.append(s)
        else:
            c = _circuit(rng, n, 2, declared=n - 1)
            c["ops"].append(_op(rng, n, g))
            c["ops"][-1]["qs"] = [n - 1, 0]
            cases.append(dict(c, kind="circuit", v=_gvec(rng, n - 1), sym="none"))
    return cases


def _gate_nontrivial(o, n):
    if "mphase" in o:
        return False
    qs = o["qs"]
    if len(qs) >= 2 and any(b != a + 1 for a, b in zip(qs, qs[1:])):
        return True
    return False


def nontrivial(case):
    k = case["kind"]
    if k == "lift":
        return _op_ok(case, case["n"]) and (_gate_nontrivial(case, case["n"]) or len(case["qs"]) < case["n"])
    if k in ("circuit", "sim"):
        n = _width(case)
        if n is None or len(case["ops"]) < 2 or not all(_op_ok(o, n) for o in case["ops"]):
            return False
        used = {q for o in case["ops"] if "qs" in o for q in o["qs"]}
        return any(_gate_nontrivial(o, n) for o in case["ops"]) or len(used) < n
    if k in ("add", "add_op"):
        ops = case["a"]["ops"] + (case["b"]["ops"] if k == "add" else [case["op"]])
        return len(ops) >= 2 and _width(case["a"]) != _width(case["b"] if k == "add" else {"n": None, "ops": [case["op"]]})
    return False


def distribution(cases, outs):
    widths, arities, kinds_err = {}, {}, 0
    for c, o in zip(cases, outs):
        ops = c.get("ops") or ([c] if c["kind"] == "lift" else [])
        for op in ops:
            if "qs" in op:
                arities[len(op["qs"])] = arities.get(len(op["qs"]), 0) + 1
        n = c.get("n") if c["kind"] == "lift" else (_width(c) if "ops" in c else None)
        if n is not None:
            widths[n] = widths.get(n, 0) + 1
        if any(_is_err(v) for v in (o.values() if isinstance(o, dict) else [])):
            kinds_err += 1
    return {"widths": dict(sorted(widths.items())), "arities": dict(sorted(arities.items())),
            "cases_with_an_exception": kinds_err,
            "symbolic_path_cases": sum(1 for c in cases if c.get("sym") in ("all", "mixed")),
            "native_predicate_cases": sum(1 for c in cases if c.get("native"))}
