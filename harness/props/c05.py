"""C05 — circuits survive JSON serialisation unchanged in structure and meaning."""
import copy
import io
import json
import keyword
import os
import re
import tempfile
from fractions import Fraction

from .. import common
from ..common import rat

PROP = "C05"
RULE = ("seeded random gate trees (depth <= 4, wrappers built with the raw constructors so every nesting order "
        "occurs, 1-3 controls, exponents incl. 0 / ints beyond 2**53 / sub-tolerance floats) over all built-in gates "
        "and custom gates with symbolic matrices (variants of one definition under one name, names close to the "
        "markers or differing in case only, equal-but-distinct definition objects); parameters int (hash-colliding "
        "pairs, > 2**53, numpy) / float (exponent format, 17-digit, denormal, below 1e-8, 0.0 / -0.0) / complex / "
        "sympy rational, pi-multiple, Float, I, roots, named constants / bare, sympy-shadowing, indexed symbols / "
        "expressions with coefficients spanning 1e-12..1e10 / bound variables (oracle only); repeated equal "
        "parameters, repeated and nearly repeated operations, multi-digit qubit indices, registers up to 2**53+1; "
        "circuits built by constructor / + / live operations list / inverse / controlled / bind; through "
        "json.dumps/loads and save_*/load_* on a path string, pathlib path, caller-opened file, stream; circuit lists "
        "(empty, gate-less, >= 64); FAMILIES: circuits differing in exactly one component, alive together, run "
        "through one interleaved history (serialise all / deserialise in reverse; scribble on the returned "
        "dictionaries and serialise again; one dictionary deserialised twice with the first result mutated; live "
        "operations list changed after serialising; one file path reused; all as one list), every (original twin, "
        "result) pair put to the oracle; same-text-two-meanings families; conflicting definitions; symbol-table cases; "
        "a malformed-dictionary stream; all cases shuffled into one process history.  non-trivial: >= 1 wrapper or "
        "custom gate or symbolic parameter (symtab: >= 1 indexed name); distinct = distinct canonical JSON of the case")
TRUSTED = [
    "str(expr) / sympy.sympify(text, locals=table) return an expression equal to the original (normalised: Python "
    "int -> Integer, float -> Float, Float printed with 15 digits) whenever every free symbol of the expression "
    "is supplied by the table or is a plain identifier sympy's namespace does not define (law SympifyLaw.sympify_ser; "
    "exercised here on the generated grammar)",
    "the normalisation keeps free symbols and value (SympifyLaw.free_nrm, hypothesis of roundtrip_matrix)",
    "json.dumps/json.loads and file write/read are the identity on dictionaries of str / int / float / list / dict",
    "str(exponent) of an int or float never contains the last character of DAGGER_GATE_NAME ('r')",
    "CustomGateDefinition.__ne__ is irreflexive (a definition never differs from itself)",
    "Python str comparison / sorted() is code-point lexicographic order",
]
ASSUMPTIONS = [
    "symbol names are identifiers other than Python keywords, index suffixes are canonical decimals, no plain symbol "
    "shares its name with the base of an indexed symbol in the same gate (F13: `x` with `x[3]` raises TypeError, outside the domain)",
    "custom gate names are not global names of the _builtin_gates module (the 27 gate names, and e.g. `Union`, `Callable`)",
    "a symbol name is not used by the printed expression for something else as well (known finding "
    "symbol-name-used-by-expression-text): this is the only reason the round-trip theorems are `_partial`",
    "symbols carry no sympy assumptions (Symbol('x', real=True) comes back as Symbol('x'))",
    "matrices are compared only for gates with <= 3 qubits whose wrappers are controlled / dagger / integer powers |e| <= 3 "
    "(sympy's Matrix.exp and fractional powers of float matrices can run for minutes or exhaust memory), to 1e-9 of the "
    "largest entry, and not for gates with numpy-scalar parameters (sympy 1.9 cannot take numpy-2 scalars into a matrix)",
    "numpy floating-point scalars are not used as parameters (free_symbols of such a gate already raises under numpy 2 / "
    "sympy 1.9); numpy integers are",
    "two different definitions under one name in ONE circuit cannot be represented by the format: to_dict raising "
    "ValueError is accepted for them; if it does not raise, the round trip is put to the oracle like any other "
    "(definitions closer than the library's 1e-8 equality tolerance are merged: known finding "
    "same-name-definitions-within-tolerance-merged)",
    "a circuit whose live `operations` list was appended to / replaced in / popped from is a circuit like any other "
    "(its n_qubits is kept >= the width of the operations by the generator)",
    "the model answers the list form of a family (phase E) and every plain circuit / list; the other phases of a "
    "family, non-ASCII identifiers, bound variables and the within-tolerance conflict are oracle-only",
]

SIG_CUSTOM_SYM = "custom-gate-symbolic-argument"
SIG_NAME_TEXT = "symbol-name-used-by-expression-text"
SIG_FLOAT = "python-float-long-repr"
SIG_MERGED = "same-name-definitions-within-tolerance-merged"
_SOFT = []
_FULL_NS = {}
_LENIENT = [False]     # (kept off) compare symbols only


def _m():
    common.use_repo()
    import sympy
    import numpy as np
    from orquestra.quantum import circuits as cq
    from orquestra.quantum.circuits import _builtin_gates, _gates, _serde
    return sympy, np, cq, _builtin_gates, _gates, _serde


_BT = None


def builtin_table():
    """name -> (num_qubits, n_params) read off the library (independently of harness/tables.py)"""
    global _BT
    if _BT is None:
        import inspect
        _, _, _, bg, g, _ = _m()
        t = {}
        for k, o in vars(bg).items():
            if isinstance(o, g.MatrixFactoryGate):
                t[k] = (o.num_qubits, 0)
            elif inspect.isfunction(o) and o.__closure__ and "matrix_factory" in o.__code__.co_freevars:
                cv = inspect.getclosurevars(o).nonlocals
                t[k] = (cv["num_qubits"], len(inspect.signature(cv["matrix_factory"]).parameters))
        _BT = t
    return _BT


# ---------------------------------------------------------------- building real objects from specs
def _num(sp):
    sympy = _m()[0]
    (k, v), = sp.items()
    if k == "int":
        return sympy.Integer(v)
    if k == "rat":
        return sympy.Rational(v)
    if k == "pi":
        return sympy.Rational(v) * sympy.pi
    if k == "flt":
        return sympy.Float(v)
    if k == "sy":
        return SY[v](sympy)
    raise AssertionError(k)


# exact sympy numbers that are neither rationals nor pi-multiples (exotic but legal: the imaginary unit, roots of
# unity written without I, named constants, bare constants)
SY = {
    "I": lambda s: s.I, "-I": lambda s: -s.I, "I/2": lambda s: s.I / 2, "1+2*I": lambda s: 1 + 2 * s.I,
    "sqrt2": lambda s: s.sqrt(2), "cbrt-1": lambda s: s.Integer(-1) ** s.Rational(1, 3),
    "golden": lambda s: s.GoldenRatio, "E": lambda s: s.E, "2*E": lambda s: 2 * s.E, "exp2": lambda s: s.exp(2),
    "eulergamma": lambda s: s.EulerGamma, "log2": lambda s: s.log(2), "3*pi": lambda s: 3 * s.pi,
    "2*I": lambda s: 2 * s.I, "3*E": lambda s: 3 * s.E, "2*pi": lambda s: 2 * s.pi, "pi": lambda s: s.pi,
}


def build_param(sp):
    sympy, np = _m()[0], _m()[1]
    (k, v), = sp.items()
    if k == "int":
        return int(v)
    if k == "flt":
        return float(v)
    if k == "np":
        return np.float64(v)
    if k == "npi":
        return np.int64(v)
    if k == "cx":
        return complex(v[0], v[1])
    if k == "sym":
        return sympy.Symbol(v)
    if k in ("rat", "pi", "sflt", "sy"):
        return _num({"flt" if k == "sflt" else k: v})
    if k == "sum":            # a bound variable: Sum(c*name*k, (k, 1, 3)); `k` is not a free symbol
        kk = sympy.Symbol("k")
        return sympy.Sum(_num(v[0]) * sympy.Symbol(v[1]) * kk, (kk, 1, 3))
    if k == "lin":
        e = _num(v["const"]) if v.get("const") else sympy.Integer(0)
        for coef, name in v["terms"]:
            e = e + _num(coef) * sympy.Symbol(name)
        return e
    if k == "prod":
        e = sympy.Integer(1)
        for name in v:
            e = e * sympy.Symbol(name)
        return e
    if k == "fn":
        return getattr(sympy, v[0])(build_param(v[1]))
    raise AssertionError(k)


def build_entry(sp):
    """matrix entry of a custom definition"""
    sympy = _m()[0]
    (k, v), = sp.items()
    if k == "expi":
        return sympy.exp(sympy.I * sympy.Symbol(v))
    if k == "cos":
        return sympy.cos(sympy.Symbol(v))
    if k == "sin":
        return sympy.sin(sympy.Symbol(v))
    if k == "nsin":
        return -sympy.sin(sympy.Symbol(v))
    if k == "isin":
        return -sympy.I * sympy.sin(sympy.Symbol(v) / 2)
    return build_param(sp)


def build_def(name, ds):
    sympy, _, cq, *_ = _m()
    return cq.CustomGateDefinition(
        name, sympy.Matrix([[build_entry(e) for e in row] for row in ds["matrix"]]),
        tuple(sympy.Symbol(s) for s in ds["ordering"]))


def build_gate(gs, defs, dspecs=None):
    _, _, _, bg, g, _ = _m()
    t = gs["t"]
    if t == "b":
        ref = getattr(bg, gs["name"])
        ps = [build_param(p) for p in gs["params"]]
        return ref(*ps) if builtin_table()[gs["name"]][1] > 0 else ref
    if t == "c":
        d = defs[gs["def"]]
        if gs.get("fresh") and dspecs is not None:      # an equal but distinct definition object
            ds = dspecs[gs["def"]]
            d = build_def(ds.get("gate_name", gs["def"]), ds)
        return d(*[build_param(p) for p in gs["params"]])
    inner = build_gate(gs["g"], defs, dspecs)
    if t == "ctrl":
        return g.ControlledGate(inner, gs["k"])
    if t == "dag":
        return g.Dagger(inner)
    if t == "exp":
        return g.Exponential(inner)
    if t == "pow":
        return g.Power(inner, gs["e"])
    raise AssertionError(t)


def _build_defs(cs):
    return {key: build_def(ds.get("gate_name", key), ds) for key, ds in (cs.get("defs") or {}).items()}


def _build_op(o, defs, dspecs):
    cq = _m()[2]
    return cq.GateOperation(build_gate(o["g"], defs, dspecs), tuple(o["q"]))


ROUTES = ["add_ops", "add_circ", "live_extend", "inverse", "controlled", "bind"]


def build_circuit(cs):
    """the circuit of a spec; `route` says through which public way the object comes into being (constructor,
    `+`, appending to the live `operations` list, `inverse`, `controlled`, `bind`): whatever object results IS the
    original of the round trip"""
    _, _, cq, *_ = _m()
    defs = _build_defs(cs)
    dspecs = cs.get("defs") or {}
    ops = [_build_op(o, defs, dspecs) for o in cs["ops"]]
    n = cs.get("n")
    route = cs.get("route")
    half = len(ops) // 2
    try:
        if route == "add_ops":
            c = cq.Circuit(n_qubits=n)
            for o in ops:
                c = c + o
            return c
        if route == "add_circ":
            return cq.Circuit(ops[:half], n_qubits=n) + cq.Circuit(ops[half:])
        if route == "live_extend":
            width = max([q + 1 for o in cs["ops"] for q in o["q"]] + [n or 0])
            c = cq.Circuit(ops[:half], n_qubits=width or None)
            c.operations.extend(ops[half:])
            return c
        if route == "inverse":
            return cq.Circuit(ops, n_qubits=n).inverse()
        if route == "controlled":
            return cq.Circuit(ops, n_qubits=n).controlled(cs.get("route_arg", 0))
        if route == "bind":
            c = cq.Circuit(ops, n_qubits=n)
            fs = c.free_symbols
            return c.bind({fs[0]: 0.25}) if fs else c
    except NotImplementedError:          # bind of a power / exponential gate
        pass
    return cq.Circuit(ops, n_qubits=n)


def apply_late(c, cs):
    """a change made to the live `operations` list of an existing (already serialised) circuit"""
    late = cs["late"]
    ops = c.operations
    if late["how"] == "pop":
        ops.pop()
        return
    op = _build_op(late["op"], _build_defs(cs), cs.get("defs") or {})
    if late["how"] == "append":
        ops.append(op)
    else:
        ops[late["at"]] = op


def late_applied(cs):
    """the spec of the circuit after its late change (used only to classify the case)"""
    cs2 = {k: v for k, v in cs.items() if k != "late"}
    late = cs["late"]
    ops = list(cs["ops"])
    if late["how"] == "pop":
        ops = ops[:-1]
    elif late["how"] == "append":
        ops = ops + [late["op"]]
    else:
        ops[late["at"]] = late["op"]
    cs2["ops"] = ops
    return cs2


# ---------------------------------------------------------------- model AST of real objects
def p_ast(p):
    sympy = _m()[0]
    syms = sorted(str(s) for s in p.free_symbols) if isinstance(p, sympy.Expr) else []
    text = str(p)
    if not isinstance(p, sympy.Basic) and not _is_number(p):
        # something of sympy's namespace came back instead of an expression (finding class): name it by the
        # namespace key rather than by its repr
        if not _FULL_NS:
            exec("from sympy import *", _FULL_NS)
        keys = sorted(k for k, v in _FULL_NS.items() if v is p)
        text = keys[0] if keys else getattr(p, "__name__", text)
    return {"text": text, "syms": syms}


def expo_tag(e):
    if isinstance(e, bool) or not isinstance(e, (int, float)):
        raise TypeError(f"exponent {e!r} is not an int/float")
    return {"int": isinstance(e, int), "val": str(rat(Fraction(e))), "text": str(e)}


def def_ast(d):
    rows = [[p_ast(d.matrix[i, j]) for j in range(d.matrix.shape[1])] for i in range(d.matrix.shape[0])]
    return {"gate_name": d.gate_name, "matrix": rows, "ordering": [str(s) for s in d.params_ordering]}


class Junk(Exception):
    pass


def gate_ast(gt):
    _, _, _, bg, g, _ = _m()
    if isinstance(gt, g.MatrixFactoryGate):
        ps = [p_ast(p) for p in gt.params]
        if isinstance(gt.matrix_factory, g.CustomGateMatrixFactory):
            return {"t": "custom", "def": def_ast(gt.matrix_factory.gate_definition), "params": ps}
        return {"t": "builtin", "name": gt.name, "params": ps}
    if isinstance(gt, g.ControlledGate):
        return {"t": "controlled", "g": gate_ast(gt.wrapped_gate), "k": gt.num_control_qubits}
    if isinstance(gt, g.Dagger):
        return {"t": "dagger", "g": gate_ast(gt.wrapped_gate)}
    if isinstance(gt, g.Exponential):
        return {"t": "exponential", "g": gate_ast(gt.wrapped_gate)}
    if isinstance(gt, g.Power):
        return {"t": "power", "g": gate_ast(gt.wrapped_gate), "e": expo_tag(gt.exponent)}
    raise Junk(repr(gt)[:80])


def circuit_ast(c):
    return {"n_qubits": int(c.n_qubits),
            "ops": [{"gate": gate_ast(o.gate), "qubits": [int(q) for q in o.qubit_indices]} for o in c.operations]}


def tag_dict(d):
    """the real dictionary with exponents tagged (int/float distinction survives the driver's JSON)"""
    if isinstance(d, dict):
        return {k: (expo_tag(v) if k == "exponent" else tag_dict(v)) for k, v in d.items()}
    if isinstance(d, list):
        return [tag_dict(x) for x in d]
    return d


def untag_dict(d):
    if isinstance(d, dict):
        if set(d) == {"int", "val", "text"}:
            f = Fraction(d["val"])
            return int(f) if d["int"] else float(f)
        return {k: untag_dict(v) for k, v in d.items()}
    if isinstance(d, list):
        return [untag_dict(x) for x in d]
    return d


def typed(d):
    """structure with the int/float distinction made explicit, for exact dictionary comparison"""
    if isinstance(d, dict):
        return {k: typed(v) for k, v in d.items()}
    if isinstance(d, list):
        return [typed(x) for x in d]
    if isinstance(d, float):
        return ("float", d.hex())
    return d


_SYMPY_NS = None


def _sympy_ns():
    """names sympify resolves to an object of sympy's namespace rather than to a fresh Symbol (the rule of
    sympy.parsing.sympy_parser.auto_symbol), split into constants usable in arithmetic and everything else"""
    global _SYMPY_NS
    if _SYMPY_NS is None:
        sympy = _m()[0]
        from sympy.parsing.sympy_parser import AssumptionKeys  # noqa  (the class auto_symbol itself tests against)
        ns = {}
        exec("from sympy import *", ns)
        consts, others = set(), set()
        for k, v in ns.items():
            if isinstance(v, (AssumptionKeys, sympy.Basic, type)) or callable(v):
                (consts if isinstance(v, sympy.Expr) else others).add(k)
        _SYMPY_NS = (consts, others)
    return _SYMPY_NS


def sympy_globals(texts):
    consts, others = _sympy_ns()
    ids = set()
    for t in texts:
        ids.update(re.findall(r"[A-Za-z_][A-Za-z_0-9]*", t))
    return {"consts": sorted(ids & consts), "callables": sorted(ids & others)}


def dict_texts(d, acc=None):
    acc = [] if acc is None else acc
    if isinstance(d, dict):
        for v in d.values():
            dict_texts(v, acc)
    elif isinstance(d, list):
        for v in d:
            dict_texts(v, acc)
    elif isinstance(d, str):
        acc.append(d)
    return acc


# ---------------------------------------------------------------- cases
PLAIN = ["theta", "phi", "alpha", "omega_1", "t", "a0", "_t", "__x__", "w", "q1"]   # w, q1: also bases of indexed names
SHADOW = ["beta", "gamma", "S", "N", "E", "I", "Q", "O", "zeta", "lamda", "Symbol", "Rational",
          "oo", "re", "Mul", "true"]      # (not pi: pi-multiples are everywhere, see meaning siblings for it)
INDEXED = ["v[0]", "v[1]", "v[3]", "v[12]", "w[2]", "par_x[7]", "b7[2]", "_p[1]", "q1[10]", "v[100]"]
UNICODE = ["θ", "φ2"]            # identifiers, but not ASCII (the model's scanner is ASCII: oracle-only cases)

# Python numbers chosen for what shortcuts get wrong: falsy values, hash collisions (hash(-1) == hash(-2),
# hash(0) == hash(2**61-1)), ints beyond 2**53, floats below every absolute tolerance, long reprs, huge values
INTS = [0, 1, -1, -2, 2, 3, 17, -40, 2 ** 70, 2 ** 61 - 1, 2 ** 53 + 1, -(2 ** 61)]
FLOATS = [0.5, -0.25, 0.1, 0.30000000000000004, 1e-05, 1.5e+300, 1e+16, 123456.789, 2.0, -0.0, 0.0, -1.0, -2.0,
          1e-09, -3e-11, 1e-15, 1e-300, 5e-324, 1 / 3, 100000000.5, 0.1 + 1e-9, 0.5 + 1e-13]
COMPLEX = [[0.0, 0.5], [2.0, 3.0], [1.0, 1e-07], [1000.0, 1e-06], [0.0, 1e-09], [-0.25, -0.1], [0.30000000000000004, 1e-12]]


def _coef(rng, floats=True):
    k = rng.random()
    if k < 0.35:
        return {"int": rng.choice([-3, -1, 2, 3, 7])}
    if k < 0.5:
        return {"rat": rng.choice(["1/2", "-1/3", "3/4", "5/7"])}
    if k < 0.68:
        return {"pi": rng.choice(["1/2", "1", "-1/4", "2/3"])}
    if k < 0.75:
        return {"sy": rng.choice(["sqrt2", "cbrt-1", "log2"])}
    if floats:                # coefficients spanning more than 1e8 in one expression, and below 1e-8
        return {"flt": rng.choice([0.5, 0.25, -1.5, 0.1, 0.30000000000000004, 1e-05, 2.5e+20, 1 / 3,
                                   1e-09, 3e-12, 1e+10, -7e-10])}
    return {"int": 2}


def gen_numeric(rng):
    k = rng.random()
    if k < 0.2:
        return {"int": rng.choice(INTS)}
    if k < 0.23:
        return {"npi": rng.choice([0, 3, -1, -2, 2 ** 40])}          # a numpy integer
    if k < 0.5:
        return {"flt": rng.choice(FLOATS + [rng.uniform(-7, 7), rng.uniform(-1e-6, 1e-6), rng.uniform(-1e-9, 1e-9)])}
    if k < 0.57:
        return {"cx": rng.choice(COMPLEX)}
    if k < 0.68:
        return {"rat": rng.choice(["1/2", "-1/3", "22/7", "3", "0", "-1", "-2"])}
    if k < 0.8:
        return {"pi": rng.choice(["1/2", "1", "-1/4", "2/3", "2"])}
    if k < 0.88:
        return {"sy": rng.choice(sorted(SY))}
    return {"sflt": rng.choice([0.5, 0.1, 0.30000000000000004, rng.uniform(-3, 3), 1e-09, 0.0, 1e-300])}


_SUMS = [False]       # bound variables (Sum) only in the oracle-only exotic stream: the model's scanner knows no binders


def gen_symbolic(rng, pool):
    k = rng.random()
    if k < 0.4:
        return {"sym": rng.choice(pool)}
    if k < 0.78:
        names = rng.sample(pool, min(len(pool), rng.randrange(1, 4)))
        return {"lin": {"const": _coef(rng) if rng.random() < 0.5 else None,
                        "terms": [[_coef(rng), n] for n in names]}}
    if k < 0.86:
        return {"prod": rng.sample(pool, min(len(pool), 2))}
    if k < 0.91 and _SUMS[0]:
        return {"sum": [_coef(rng, False), rng.choice(pool)]}
    return {"fn": [rng.choice(["sin", "cos", "exp"]), {"lin": {"const": None, "terms": [[_coef(rng, False), rng.choice(pool)]]}}]}


def _pspec_names(p):
    """free symbol names of a parameter spec"""
    (k, v), = p.items()
    if k == "sym":
        return [v]
    if k == "lin":
        return [n for _c, n in v["terms"]]
    if k == "prod":
        return list(v)
    if k == "fn":
        return _pspec_names(v[1])
    if k == "sum":
        return [v[1]]
    return []


def _f13_clash(ps):
    """a plain name and an indexed name with that base among the symbols of ONE gate (outside the domain); the
    same two names in different gates of one circuit are fine and wanted"""
    names = {n for p in ps for n in _pspec_names(p)}
    plain = {n for n in names if not parse_indexed(n)}
    return any(parse_indexed(n)[0] in plain for n in names if parse_indexed(n))


def sym_pool(rng, unicode_ok=False):
    """a pool of symbol names without base-name clashes (F13 is outside the domain)"""
    pool = rng.sample(PLAIN, 3) + rng.sample(SHADOW, 3) + rng.sample(INDEXED, 3)
    if rng.random() < 0.3:           # a plain name and an indexed name with that base: legal in DIFFERENT gates
        pool += rng.choice([["w", "w[2]"], ["q1", "q1[10]"]])
    if unicode_ok:
        pool += UNICODE
    rng.shuffle(pool)
    return pool


def _diag4(a, b, c, d):
    z = {"int": 0}
    return [[a, z, z, z], [z, b, z, z], [z, z, c, z], [z, z, z, d]]


DEFS = {
    "U1": {"ordering": ["theta"], "matrix": [[{"cos": "theta"}, {"nsin": "theta"}], [{"sin": "theta"}, {"cos": "theta"}]]},
    "U12": {"ordering": ["theta"], "matrix": [[{"int": 1}, {"int": 0}], [{"int": 0}, {"expi": "theta"}]]},
    "Ph2": {"ordering": ["gamma", "beta"], "matrix": [[{"expi": "gamma"}, {"int": 0}], [{"int": 0}, {"expi": "beta"}]]},
    "Vix": {"ordering": ["v[0]", "v[1]"], "matrix": [[{"expi": "v[0]"}, {"int": 0}], [{"int": 0}, {"expi": "v[1]"}]]},
    "Const": {"ordering": [], "matrix": [[{"flt": 0.6}, {"flt": 0.8}], [{"flt": -0.8}, {"flt": 0.6}]]},
    "Swp": {"ordering": [], "matrix": [[{"int": 1}, {"int": 0}, {"int": 0}, {"int": 0}], [{"int": 0}, {"int": 0}, {"int": 1}, {"int": 0}],
                                       [{"int": 0}, {"int": 1}, {"int": 0}, {"int": 0}], [{"int": 0}, {"int": 0}, {"int": 0}, {"int": 1}]]},
    "ZZc": {"ordering": ["a", "S"], "matrix": _diag4({"expi": "a"}, {"expi": "S"}, {"expi": "S"}, {"expi": "a"})},
    "F3": {"ordering": ["x"], "matrix": [[{"lin": {"const": {"flt": 0.30000000000000004}, "terms": [[{"flt": 1 / 3}, "x"]]}}, {"int": 0}],
                                         [{"int": 0}, {"int": 1}]]},
    # entries that are sympy constants (bare, and with the coefficients the expression generator also uses for
    # SYMBOLS called E / I / pi: the same text with another meaning), three formal parameters one of them unused
    "Kc": {"ordering": ["t"], "matrix": [[{"expi": "t"}, {"int": 0}], [{"int": 0}, {"sy": "2*E"}]]},
    "Ki": {"ordering": [], "matrix": [[{"int": 1}, {"int": 0}], [{"int": 0}, {"sy": "I"}]]},
    "Kp": {"ordering": ["t"], "matrix": [[{"sy": "3*pi"}, {"int": 0}], [{"int": 0}, {"expi": "t"}]]},
    "T3": {"ordering": ["p", "q1[10]", "r"], "matrix": [[{"expi": "p"}, {"int": 0}], [{"int": 0}, {"expi": "q1[10]"}]]},
    "Tiny": {"ordering": ["x"], "matrix": [[{"lin": {"const": {"flt": 1e-09}, "terms": [[{"flt": 1e+10}, "x"]]}}, {"flt": 3e-12}],
                                           [{"int": 0}, {"flt": 1e-300}]]},
}
DEF_QUBITS = {"U1": 1, "U12": 1, "Ph2": 1, "Vix": 1, "Const": 1, "Swp": 2, "ZZc": 2, "F3": 1, "Kc": 1, "Ki": 1, "Kp": 1,
              "T3": 1, "Tiny": 1}
# names close to, but different from, the built-in names and the wrapper markers (and not ASCII-only)
ODD_NAMES = ["control", "Controlled", "Daggered", "exponential", "rx", "u3", "x", "Swap", "U 1", "U.1", "Ü1", "power"]


def legal_custom_name(x):
    """not a global of the built-in gates module, not a wrapper marker / pattern (the property's domain)"""
    bg = _m()[3]
    return bool(x) and not hasattr(bg, x) and not x.endswith("Dagger") and "^" not in x and x not in ("Control", "Exponential")


def def_variant(rng, ds):
    """another definition of the same shape, same formal parameters and same FIRST row: one entry of a later
    row changed (clearly, or only by a little)"""
    ds2 = copy.deepcopy(ds)
    rows = ds2["matrix"]
    i = rng.randrange(1, len(rows))
    j = rng.randrange(len(rows[i]))
    e = rows[i][j]
    (k, v), = e.items()
    if k == "int":
        rows[i][j] = rng.choice([{"int": v + 1}, {"int": -v - 1}, {"flt": v + 0.001}, {"rat": "1/3"}])
    elif k == "flt":
        rows[i][j] = {"flt": rng.choice([v + 0.125, -v, v + 1e-3, v * (1 + 1e-6) + 1e-7])}
    elif k in ("expi", "cos", "sin", "nsin", "isin"):
        rows[i][j] = {rng.choice([x for x in ("expi", "cos", "sin", "nsin") if x != k]): v}
    else:
        rows[i][j] = {"int": 5}
    return ds2


def gen_leaf(rng, numeric_only, pool, mode):
    """mode: 'safe' = custom gates get arguments the deserialiser can read (numbers, the first formal name,
    plain non-shadowing names); 'any' = any symbol of the pool"""
    bt = builtin_table()
    if rng.random() < 0.7:
        name = rng.choice(sorted(bt))
        nq, npar = bt[name]
        for _ in range(8):
            ps = [gen_numeric(rng) if (numeric_only or rng.random() < 0.45) else gen_symbolic(rng, pool) for _ in range(npar)]
            if not _f13_clash(ps) and not (any(_pspec_symbolic(p_) for p_ in ps) and _text_collision([build_param(p_) for p_ in ps])):
                break
        else:
            ps = [gen_numeric(rng) for _ in range(npar)]
        if npar > 1 and rng.random() < 0.25:        # repeated equal parameters
            ps = [copy.deepcopy(ps[0]) for _ in ps]
        return {"t": "b", "name": name, "params": ps}, nq, None
    dn = rng.choice(sorted(DEFS))
    ordering = DEFS[dn]["ordering"]
    ps = []
    for i, formal in enumerate(ordering):
        if numeric_only or rng.random() < 0.5:
            ps.append(gen_numeric(rng))
        elif mode == "any":
            ps.append(gen_symbolic(rng, pool))
        else:
            ok = [n for n in PLAIN if n not in ("a", "x", "p", "r", "t")]
            if i == 0 and parse_indexed(formal) is None:
                ok = ok + [formal]
            ps.append(gen_symbolic(rng, ok))
    if _f13_clash(ps) or (any(_pspec_symbolic(p_) for p_ in ps) and _text_collision([build_param(p_) for p_ in ps])):
        ps = [gen_numeric(rng) for _ in ordering]
    if len(ps) > 1 and rng.random() < 0.25:
        ps = [copy.deepcopy(ps[0]) for _ in ps]
    return {"t": "c", "def": dn, "params": ps}, DEF_QUBITS[dn], dn


def parse_indexed(s):
    m = re.search(r"^(.*)\[([0-9]+)\]$", s)
    return (m.group(1), m.group(2)) if m else None


EXPONENTS = [2, 3, -1, 0, 0.5, 0.25, -0.5, 1.5, 2.0, 1e-05, 1e+16, 0.1, 7, -2, 2 ** 53 + 1, -(2 ** 60 + 1), 1e-09,
             1 / 3, 0.30000000000000004, 0.0]


def gen_gate(rng, max_depth, pool, mode):
    depth = rng.choice([0, 0, 1, 1, 2, 2, 3, 4][: 2 * max_depth + 2]) if max_depth else 0
    wrappers = [rng.choice(["ctrl", "dag", "pow", "exp"]) for _ in range(depth)]
    numeric_only = any(w in ("pow", "exp") for w in wrappers)
    gs, nq, dn = gen_leaf(rng, numeric_only, pool, mode)
    for w in wrappers:
        if w == "ctrl":
            k = rng.choice([1, 1, 2, 3])
            gs, nq = {"t": "ctrl", "g": gs, "k": k}, nq + k
        elif w == "dag":
            gs = {"t": "dag", "g": gs}
        elif w == "exp":
            gs = {"t": "exp", "g": gs}
        else:
            gs = {"t": "pow", "g": gs, "e": rng.choice(EXPONENTS)}
    return gs, nq, dn


def gen_circuit(rng, tier, mode="safe", max_depth=4, n_ops=None, routes=True, unicode_ok=False):
    big = tier == "thorough"
    if n_ops is None:
        n_ops = rng.choice([0, 1, 1, 2, 3, 4, 6] + ([9, 12] if big else []))
    pool = sym_pool(rng, unicode_ok)
    _SUMS[0] = unicode_ok
    ops, defs, width = [], {}, 0
    base = rng.choice([0, 0, 0, 0, 9, 37])          # multi-digit qubit indices
    for _ in range(n_ops):
        if ops and rng.random() < 0.12:              # the same operation once more (same spec: equal gate objects)
            o = copy.deepcopy(rng.choice(ops))
            lf = _leaf(o["g"])
            nums = [i for i, p_ in enumerate(lf["params"]) if not _pspec_symbolic(p_)]
            if nums and rng.random() < 0.5:          # ... or one that differs in one number only (slightly / hash partner)
                i = rng.choice(nums)
                alt = _numeric_partner(rng, lf["params"][i], near=rng.random() < 0.5)
                if alt is not None:
                    lf["params"][i] = alt
            ops.append(o)
            continue
        gs, nq, dn = gen_gate(rng, max_depth, pool, mode)
        if dn and dn not in defs:
            defs[dn] = def_variant(rng, DEFS[dn]) if rng.random() < 0.3 else DEFS[dn]
            if rng.random() < 0.15:
                taken = {d.get("gate_name", k) for k, d in defs.items()}
                free = [x for x in ODD_NAMES if x not in taken]
                others = [d.get("gate_name", k) for k, d in defs.items() if k != dn]
                if others and rng.random() < 0.5 and others[0].swapcase() not in taken | {others[0]} and legal_custom_name(others[0].swapcase()):
                    free = [others[0].swapcase()]          # two names of one circuit that differ in case only
                defs[dn] = dict(defs[dn], gate_name=rng.choice(free))
        if dn and rng.random() < 0.2:
            for g_ in _walk_gate(gs):
                if g_["t"] == "c":
                    g_["fresh"] = True
        span = max(nq + rng.choice([0, 0, 1, 3]), nq)
        q = [base + x for x in rng.sample(range(span), nq)]        # distinct, any order, gaps
        ops.append({"g": gs, "q": q})
        width = max(width, max(q) + 1)
    n = rng.choice([None, None, width, width + rng.choice([1, 2, 5]), rng.choice([64, 100, 2 ** 53 + 1])])   # idle qubits
    if not n or n < width:
        n = None
    cs = {"n": n, "ops": ops}
    if defs:
        cs["defs"] = defs
    if routes and ops and rng.random() < 0.3:
        cs["route"] = rng.choice(ROUTES)
    _SUMS[0] = False
    return cs


# ---------------------------------------------------------------- siblings: one component changed
def _leaf(gs):
    while "g" in gs:
        gs = gs["g"]
    return gs


def _nq_of(gs):
    n = 0
    for g_ in _walk_gate(gs):
        if g_["t"] == "ctrl":
            n += g_["k"]
        elif g_["t"] == "b":
            n += builtin_table()[g_["name"]][0]
        elif g_["t"] == "c":
            n += DEF_QUBITS[g_["def"]]
    return n


def _numeric_partner(rng, p, near=False):
    """a different number of the same kind that shortcuts confuse with `p` (near: within every equality tolerance)"""
    (k, v), = p.items()
    if near and k == "flt" and 0 < abs(v) < 1e200:
        return {"flt": v + 1e-9 * max(1.0, abs(v))}
    if k in ("int", "npi"):
        return {k: {-1: -2, -2: -1, 0: 2 ** 61 - 1, 2 ** 61 - 1: 0}.get(v, v + 1)}
    if k == "flt":
        if v == 0:
            return {"flt": rng.choice([1e-09, 5e-324])}
        return {"flt": rng.choice([v + 1e-9 * max(1.0, abs(v)), v * (1 + 2 ** -40), -v])} if abs(v) < 1e200 else {"flt": -v}
    if k == "sflt":
        return {"sflt": v + 1e-9 if abs(v) < 1e200 else -v}
    if k == "cx":
        return {"cx": [v[0], v[1] + 1e-9]}
    if k == "rat":
        return {"rat": "7/3" if v != "7/3" else "1/2"}
    if k == "pi":
        return {"pi": "5/3" if v != "5/3" else "1/2"}
    if k == "sy":
        return {"sy": sorted(SY)[(sorted(SY).index(v) + 1) % len(SY)]}
    return None


def sibling(rng, cs, prefer=None):
    """a copy of the circuit spec with exactly one component changed (None if nothing applies)"""
    width = max([q + 1 for o in cs["ops"] for q in o["q"]] + [0])
    kinds = ["n", "q", "p", "k", "e", "w", "d", "drop", "dup", "swap", "name"]
    rng.shuffle(kinds)
    if prefer:
        kinds = [prefer] * 6 + kinds
    for kind in kinds:
        c2 = copy.deepcopy(cs)
        c2.pop("route", None)
        ops = c2["ops"]
        o = rng.choice(ops) if ops else None
        if kind == "n":
            c2["n"] = (cs.get("n") or width) + 1
        elif kind == "q" and o is not None:
            if len(o["q"]) > 1:
                o["q"] = o["q"][1:] + o["q"][:1]            # the same qubit set in another order
            else:
                o["q"] = [o["q"][0] + 1]
                if c2.get("n") and c2["n"] < o["q"][0] + 1:
                    c2["n"] = o["q"][0] + 1
        elif kind == "p" and o is not None and _leaf(o["g"])["params"]:
            lf = _leaf(o["g"])
            i = rng.randrange(len(lf["params"]))
            p = lf["params"][i]
            (pk, pv), = p.items()
            if pk == "sym":
                alt = [x for x in PLAIN if x != pv and x not in ("a", "x", "p", "r", "t")]
                new = {"sym": rng.choice(alt)}
            elif _pspec_symbolic(p):
                continue
            else:
                new = _numeric_partner(rng, p, near=prefer == "p")
            if new is None:
                continue
            lf["params"][i] = new
            if _f13_clash(lf["params"]) or in_text_collision_class(c2):
                continue
        elif kind == "k" and o is not None and any(g_["t"] == "ctrl" for g_ in _walk_gate(o["g"])):
            g_ = [x for x in _walk_gate(o["g"]) if x["t"] == "ctrl"][0]
            g_["k"] += 1
            o["q"] = o["q"] + [max(o["q"]) + 1 if max(o["q"]) + 1 not in o["q"] else max(o["q"]) + 2]
            if c2.get("n") and c2["n"] < max(o["q"]) + 1:
                c2["n"] = max(o["q"]) + 1
        elif kind == "e" and o is not None and any(g_["t"] == "pow" for g_ in _walk_gate(o["g"])):
            g_ = [x for x in _walk_gate(o["g"]) if x["t"] == "pow"][0]
            e = g_["e"]
            g_["e"] = (e + 1) if isinstance(e, int) else (e + 1e-9 * max(1.0, abs(e)) if abs(e) < 1e15 else -e)
        elif kind == "w" and o is not None and "g" in o["g"] and "g" in o["g"]["g"] and o["g"]["t"] != o["g"]["g"]["t"]:
            outer, inner = o["g"], o["g"]["g"]
            a = {k: v for k, v in outer.items() if k != "g"}
            b = {k: v for k, v in inner.items() if k != "g"}
            o["g"] = dict(b, g=dict(a, g=inner["g"]))           # the two outermost wrappers exchanged
        elif kind == "d" and c2.get("defs"):
            dn = rng.choice(sorted(c2["defs"]))
            c2["defs"][dn] = def_variant(rng, c2["defs"][dn])
        elif kind == "name" and c2.get("defs"):
            dn = rng.choice(sorted(c2["defs"]))
            cur = c2["defs"][dn].get("gate_name", dn)
            taken = {d.get("gate_name", k) for k, d in c2["defs"].items()}
            alt = [x for x in (cur.swapcase(), cur + "_", cur[:-1] or "Z") if x not in taken and x != cur and legal_custom_name(x)]
            if not alt:
                continue
            c2["defs"][dn] = dict(c2["defs"][dn], gate_name=alt[0])
        elif kind == "drop" and len(ops) > 1:
            ops.pop(rng.randrange(len(ops)))
        elif kind == "dup" and o is not None:
            ops.insert(rng.randrange(len(ops) + 1), copy.deepcopy(o))
        elif kind == "swap" and len(ops) > 1 and ops[0] != ops[-1]:
            ops[0], ops[-1] = ops[-1], ops[0]
        else:
            continue
        used = {_leaf(x["g"])["def"] for x in c2["ops"] if _leaf(x["g"])["t"] == "c"}
        if c2.get("defs"):
            c2["defs"] = {k: v for k, v in c2["defs"].items() if k in used}
            if not c2["defs"]:
                del c2["defs"]
        c2["sib"] = kind
        return c2
    return None


def gen_family(rng, tier):
    """a base circuit and circuits that differ from it in exactly one component, all alive together and run
    through one interleaved history (see run_impl)"""
    for _ in range(20):
        base = gen_circuit(rng, tier, "safe", max_depth=2, n_ops=rng.choice([1, 2, 3, 4]), routes=False)
        if not in_text_collision_class(base):
            break
    members = [base]
    for j in range(rng.choice([2, 3, 4])):
        # the first sibling differs, if possible, in one number by less than every equality tolerance
        sb = sibling(rng, rng.choice([base, base, members[-1]]), prefer=("p" if j == 0 else None))
        if sb is not None and not in_text_collision_class(sb):
            members.append(sb)
    if rng.random() < 0.4:
        members.append(copy.deepcopy(base))                   # an equal but distinct circuit object
    rng.shuffle(members)
    # one member is changed through its live `operations` list after it has been serialised once
    if rng.random() < 0.7:
        m = rng.choice(members)
        width = max([q + 1 for o in m["ops"] for q in o["q"]] + [0])
        how = rng.choice(["append", "append", "replace", "pop"])
        if how == "pop" and m["ops"]:
            m["late"] = {"how": "pop"}
            m["n"] = m.get("n") or width
        elif m["ops"]:
            pool = sym_pool(rng)
            for _ in range(10):
                gs, nq, dn = gen_gate(rng, 1, pool, "safe")
                n_eff = max(m.get("n") or 0, width)
                if nq <= n_eff and (dn is None or dn not in (m.get("defs") or {}) or rng.random() < 0.5):
                    break
            else:
                return {"kind": "family", "via": rng.choice(VIAS), "circs": members}
            lo = min(q for o in m["ops"] for q in o["q"])
            cand = [x for x in range(max(0, n_eff - 8), n_eff)] if n_eff - lo > 8 else list(range(n_eff))
            if len(cand) >= nq:
                op = {"g": gs, "q": rng.sample(cand, nq)}
                if dn:                                       # a custom gate the circuit did not use before
                    m.setdefault("defs", {}).setdefault(dn, DEFS[dn])
                if not in_text_collision_class({"ops": [op]}):
                    m["n"] = n_eff
                    m["late"] = {"how": how, "op": op, "at": rng.randrange(len(m["ops"]))} if how == "replace" else {"how": "append", "op": op}
    return {"kind": "family", "via": rng.choice(VIAS), "circs": members}


VIAS = ["json", "json", "file", "stream", "pathlib", "fileobj"]


def gen_meaning_siblings(rng):
    """the same expression TEXT with two meanings in one process: `2*E` is twice Euler's number in a custom matrix
    and twice the symbol E in a gate parameter (likewise I, pi); both orders, alone and together"""
    nm, dn, text = rng.choice([("E", "Kc", "2*E"), ("I", "Ki", "I"), ("pi", "Kp", "3*pi")])
    coef = {"E": 2, "I": 1, "pi": 3}[nm]
    sym_op = {"g": _b(rng.choice(["RX", "RZ", "PHASE"]), {"lin": {"const": None, "terms": [[{"int": coef}, nm]]}} if coef != 1 else {"sym": nm}), "q": [0]}
    cst_op = {"g": {"t": "c", "def": dn, "params": [{"flt": 0.25}] * len(DEFS[dn]["ordering"])}, "q": [1]}
    num_op = {"g": _b("RY", {"sy": text}), "q": [2]}
    a = {"n": None, "ops": [sym_op]}
    b_ = {"n": None, "defs": {dn: DEFS[dn]}, "ops": [cst_op]}
    c_ = {"n": None, "defs": {dn: DEFS[dn]}, "ops": rng.sample([sym_op, cst_op, num_op], 3)}
    members = [a, b_, c_, {"n": None, "ops": [num_op]}]
    rng.shuffle(members)
    return {"kind": "family", "via": rng.choice(VIAS), "circs": members}


def gen_conflict(rng):
    """two DIFFERENT definitions under one name in one circuit (to_dict refuses: ValueError), not next to each
    other, differing clearly or only slightly (but by more than the library's equality tolerance)"""
    dn = rng.choice(["Const", "U1", "Swp", "F3", "Ki", "Kc"])
    d1 = DEFS[dn]
    d2 = None
    if rng.random() < 0.6:
        d2 = copy.deepcopy(d1)
        delta = rng.choice([1e-3, 1e-5, 1e-6, 1e-7, 3e-8])
        i, j = rng.randrange(len(d1["matrix"])), rng.randrange(len(d1["matrix"]))
        (ek, ev), = d1["matrix"][i][j].items()
        if ek in ("int", "flt"):
            d2["matrix"][i][j] = {"flt": ev + delta}
        else:
            d2 = None
    if d2 is None:
        d2 = def_variant(rng, d1)
    args = [{"flt": 0.5}] * len(d1["ordering"])
    nq = DEF_QUBITS[dn]
    mid = [{"g": _b("H"), "q": [0]}, {"g": {"t": "c", "def": "Ki", "params": []}, "q": [1]}][: rng.randrange(0, 3)]
    wrap = rng.choice([None, "dag", "ctrl"])
    g2 = {"t": "c", "def": "other", "params": args}
    q2 = list(range(nq))
    if wrap == "dag":
        g2 = {"t": "dag", "g": g2}
    elif wrap == "ctrl":
        g2, q2 = {"t": "ctrl", "g": g2, "k": 1}, list(range(nq + 1))
    ops = [{"g": {"t": "c", "def": dn, "params": args}, "q": list(range(nq))}] + mid + [{"g": g2, "q": q2}]
    defs = {dn: d1, "other": dict(d2, gate_name=dn)}
    if len(mid) == 2:
        defs["Ki"] = DEFS["Ki"]
    return {"kind": "circuit", "via": "json", "conflict": True, "circ": {"n": None, "defs": defs, "ops": ops}}


def _b(name, *ps):
    return {"t": "b", "name": name, "params": list(ps)}


def corpus():
    return [
        {"kind": "circuit", "via": "json", "circ": {"n": None, "ops": []}},
        {"kind": "circuit", "via": "file", "circ": {"n": 5, "ops": []}},
        {"kind": "circuit", "via": "json", "circ": {"n": 6, "ops": [{"g": _b("X"), "q": [3]}, {"g": _b("CNOT"), "q": [4, 1]}]}},
        # every wrapper, nested in both orders
        {"kind": "circuit", "via": "file", "circ": {"n": None, "ops": [
            {"g": {"t": "exp", "g": {"t": "ctrl", "g": {"t": "dag", "g": {"t": "pow", "g": _b("X"), "e": 0.5}}, "k": 2}}, "q": [0, 1, 2]},
            {"g": {"t": "dag", "g": {"t": "pow", "g": {"t": "exp", "g": {"t": "dag", "g": _b("RX", {"flt": 0.5})}}, "e": 2}}, "q": [1]},
            {"g": {"t": "dag", "g": {"t": "dag", "g": _b("T")}}, "q": [0]}]}},
        # indexed / shadowing symbols in built-in gates
        {"kind": "circuit", "via": "json", "circ": {"n": None, "ops": [
            {"g": _b("RX", {"sym": "v[3]"}), "q": [0]}, {"g": _b("RY", {"sym": "gamma"}), "q": [0]},
            {"g": _b("U3", {"sym": "S"}, {"lin": {"const": None, "terms": [[{"int": 2}, "v[1]"], [{"pi": "1/2"}, "beta"]]}}, {"flt": 0.30000000000000004}), "q": [1]},
            {"g": {"t": "ctrl", "g": {"t": "dag", "g": _b("PHASE", {"sym": "E"})}, "k": 1}, "q": [2, 0]}]}},
        # F14 (fixed): custom gate under wrappers is serialised with its definition
        {"kind": "circuit", "via": "json", "circ": {"n": None, "defs": {"U1": DEFS["U1"]}, "ops": [
            {"g": {"t": "ctrl", "g": {"t": "dag", "g": {"t": "c", "def": "U1", "params": [{"flt": 0.25}]}}, "k": 1}, "q": [1, 0]},
            {"g": {"t": "pow", "g": {"t": "c", "def": "U1", "params": [{"int": 1}]}, "e": 2}, "q": [0]}]}},
        # custom gate with a symbolic argument that is its own first formal / a plain name
        {"kind": "circuit", "via": "json", "circ": {"n": None, "defs": {"U1": DEFS["U1"], "Vix": DEFS["Vix"]}, "ops": [
            {"g": {"t": "c", "def": "U1", "params": [{"sym": "theta"}]}, "q": [0]},
            {"g": {"t": "c", "def": "U1", "params": [{"sym": "phi"}]}, "q": [1]},
            {"g": {"t": "c", "def": "Vix", "params": [{"flt": 0.5}, {"pi": "1/2"}]}, "q": [1]}]}},
        # repaired finding custom-gate-symbolic-argument (8ad8c91): a regression is a violation with that signature
        {"kind": "circuit", "via": "json", "circ": {"n": None, "defs": {"U1": DEFS["U1"]}, "ops": [
            {"g": {"t": "c", "def": "U1", "params": [{"sym": "gamma"}]}, "q": [0]}]}},
        {"kind": "circuit", "via": "json", "circ": {"n": None, "defs": {"U1": DEFS["U1"]}, "ops": [
            {"g": {"t": "c", "def": "U1", "params": [{"sym": "v[3]"}]}, "q": [0]}]}},
        {"kind": "circuit", "via": "json", "circ": {"n": None, "defs": {"Ph2": DEFS["Ph2"]}, "ops": [
            {"g": {"t": "c", "def": "Ph2", "params": [{"sym": "gamma"}, {"sym": "beta"}]}, "q": [0]}]}},
        # FINDING: a symbol whose name the printed expression also uses for something else
        {"kind": "circuit", "via": "json", "oracle_only": True, "circ": {"n": None, "ops": [
            {"g": _b("RX", {"lin": {"const": None, "terms": [[{"pi": "1/2"}, "pi"]]}}), "q": [0]}]}},
        {"kind": "circuit", "via": "json", "oracle_only": True, "circ": {"n": None, "ops": [
            {"g": _b("RX", {"lin": {"const": None, "terms": [[{"int": 2}, "Integer"]]}}), "q": [0]}]}},
        {"kind": "circuitset", "via": "file", "circs": [
            {"n": None, "ops": [{"g": _b("H"), "q": [0]}]}, {"n": 3, "ops": []},
            {"n": None, "defs": {"Const": DEFS["Const"]}, "ops": [{"g": {"t": "c", "def": "Const", "params": []}, "q": [2]}]}]},
        # seeded change C05_m2: two circuits of one list use DIFFERENT definitions under the same gate name
        {"kind": "circuitset", "via": "json", "circs": [
            {"n": None, "defs": {"U1": DEFS["U1"]}, "ops": [{"g": {"t": "c", "def": "U1", "params": [{"flt": 0.5}]}, "q": [0]}]},
            {"n": None, "defs": {"U1b": dict(DEFS["U12"], gate_name="U1")}, "ops": [{"g": {"t": "c", "def": "U1b", "params": [{"flt": 0.5}]}, "q": [1]}]},
            {"n": None, "defs": {"U1": DEFS["U1"]}, "ops": [{"g": {"t": "dag", "g": {"t": "c", "def": "U1", "params": [{"flt": 0.25}]}}, "q": [0]}]}]},
        # two different definitions under one name: to_dict raises ValueError (no round trip to speak of)
        {"kind": "circuit", "via": "json", "conflict": True, "circ": {"n": None,
            "defs": {"U1": DEFS["U1"], "U1b": dict(DEFS["U12"], gate_name="U1")}, "ops": [
            {"g": {"t": "c", "def": "U1", "params": [{"flt": 0.5}]}, "q": [0]},
            {"g": {"t": "dag", "g": {"t": "c", "def": "U1b", "params": [{"flt": 0.5}]}}, "q": [1]}]}},
        # two definitions whose names share a prefix, the same definition used twice
        {"kind": "circuit", "via": "json", "circ": {"n": None, "defs": {"U1": DEFS["U1"], "U12": DEFS["U12"]}, "ops": [
            {"g": {"t": "c", "def": "U12", "params": [{"flt": 0.5}]}, "q": [0]},
            {"g": {"t": "c", "def": "U1", "params": [{"flt": 0.5}]}, "q": [1]},
            {"g": {"t": "ctrl", "g": {"t": "c", "def": "U12", "params": [{"int": 2}]}, "k": 1}, "q": [1, 0]}]}},
        {"kind": "symtab", "names": ["theta", "v[3]", "v[12]", "beta", "w[0]"]},
        {"kind": "symtab", "names": ["q1[10]", "b7[2]", "_p[1]", "v[100]", "_t", "pi"]},
        # ---- falsy but valid: parameter 0 / 0.0 / -0.0 / sympy 0, exponent 0, qubit 0, custom argument 0
        {"kind": "circuit", "via": "json", "circ": {"n": None, "defs": {"U1": DEFS["U1"], "Ph2": DEFS["Ph2"]}, "ops": [
            {"g": _b("RX", {"int": 0}), "q": [0]}, {"g": _b("RZ", {"flt": 0.0}), "q": [0]}, {"g": _b("PHASE", {"flt": -0.0}), "q": [0]},
            {"g": _b("U3", {"int": 0}, {"int": 0}, {"int": 0}), "q": [0]}, {"g": _b("U3", {"int": 0}, {"flt": 0.5}, {"flt": 0.0}), "q": [0]},
            {"g": _b("RY", {"rat": "0"}), "q": [0]}, {"g": _b("RY", {"sflt": 0.0}), "q": [0]},
            {"g": {"t": "pow", "g": _b("X"), "e": 0}, "q": [0]}, {"g": {"t": "pow", "g": _b("T"), "e": 0.0}, "q": [0]},
            {"g": {"t": "c", "def": "U1", "params": [{"int": 0}]}, "q": [0]},
            {"g": {"t": "c", "def": "Ph2", "params": [{"int": 0}, {"flt": 0.0}]}, "q": [0]},
            {"g": {"t": "ctrl", "g": _b("XX", {"int": 0}), "k": 1}, "q": [2, 0, 1]}]}},
        # ---- numbers whose hashes collide, equal repeated parameters
        {"kind": "circuit", "via": "file", "circ": {"n": None, "defs": {"Ph2": DEFS["Ph2"]}, "ops": [
            {"g": _b("RX", {"int": -1}), "q": [0]}, {"g": _b("RX", {"int": -2}), "q": [0]}, {"g": _b("RX", {"int": 0}), "q": [0]},
            {"g": _b("RX", {"int": 2 ** 61 - 1}), "q": [0]}, {"g": _b("RX", {"flt": -1.0}), "q": [0]}, {"g": _b("RX", {"flt": -2.0}), "q": [0]},
            {"g": _b("RX", {"rat": "-1"}), "q": [0]}, {"g": _b("RX", {"rat": "-2"}), "q": [0]},
            {"g": _b("U3", {"int": -1}, {"int": -2}, {"int": -1}), "q": [1]}, {"g": _b("U3", {"int": -2}, {"int": -1}, {"int": -1}), "q": [1]},
            {"g": _b("U3", {"sym": "theta"}, {"sym": "theta"}, {"sym": "phi"}), "q": [1]},
            {"g": _b("U3", {"flt": 0.5}, {"flt": 0.5}, {"flt": 0.5}), "q": [1]},
            {"g": {"t": "c", "def": "Ph2", "params": [{"sym": "theta"}, {"sym": "theta"}]}, "q": [0]},
            {"g": {"t": "c", "def": "Ph2", "params": [{"int": -1}, {"int": -2}]}, "q": [0]},
            {"g": {"t": "c", "def": "Ph2", "params": [{"int": -2}, {"int": -1}]}, "q": [0]}]}},
        # ---- magnitudes: below every absolute tolerance, denormal, huge next to tiny, complex with a small imaginary part
        {"kind": "circuit", "via": "json", "circ": {"n": None, "defs": {"Tiny": DEFS["Tiny"]}, "ops": [
            {"g": _b("RX", {"flt": 1e-09}), "q": [0]}, {"g": _b("RX", {"flt": -3e-11}), "q": [0]}, {"g": _b("RX", {"flt": 5e-324}), "q": [0]},
            {"g": _b("RX", {"flt": 1e-300}), "q": [0]}, {"g": _b("RX", {"cx": [1.0, 1e-07]}), "q": [0]}, {"g": _b("RX", {"cx": [1000.0, 1e-06]}), "q": [0]},
            {"g": _b("RX", {"cx": [0.0, 1e-09]}), "q": [0]}, {"g": _b("RX", {"cx": [2.0, 3.0]}), "q": [0]}, {"g": _b("RX", {"sflt": 1e-09}), "q": [0]},
            {"g": _b("RZ", {"lin": {"const": {"flt": 3e-12}, "terms": [[{"flt": 1e+10}, "theta"], [{"flt": 1e-09}, "phi"]]}}), "q": [0]},
            {"g": _b("RZ", {"lin": {"const": {"flt": 1e+10}, "terms": [[{"flt": -7e-10}, "theta"]]}}), "q": [0]},
            {"g": {"t": "c", "def": "Tiny", "params": [{"flt": 1e-09}]}, "q": [1]},
            {"g": {"t": "c", "def": "Tiny", "params": [{"sym": "theta"}]}, "q": [1]}]}},
        # ---- exponents / widths beyond 2**53, many controls, multi-digit qubit indices on a wide register
        {"kind": "circuit", "via": "stream", "circ": {"n": 2 ** 53 + 1, "ops": [
            {"g": {"t": "pow", "g": _b("T"), "e": 2 ** 53 + 1}, "q": [0]}, {"g": {"t": "pow", "g": _b("S"), "e": -(2 ** 60 + 1)}, "q": [0]},
            {"g": {"t": "pow", "g": _b("S"), "e": 1e-09}, "q": [0]}, {"g": {"t": "pow", "g": _b("S"), "e": 0.30000000000000004}, "q": [0]},
            {"g": {"t": "ctrl", "g": _b("X"), "k": 4}, "q": [41, 12, 3, 100, 7]},
            {"g": {"t": "ctrl", "g": {"t": "ctrl", "g": _b("SWAP"), "k": 1}, "k": 2}, "q": [10, 11, 12, 2, 1]},
            {"g": _b("CNOT"), "q": [41, 12]}, {"g": _b("CNOT"), "q": [12, 41]}]}},
        {"kind": "circuit", "via": "pathlib", "circ": {"n": 100, "ops": [{"g": _b("CNOT"), "q": [99, 10]}, {"g": _b("H"), "q": [64]}]}},
        {"kind": "circuit", "via": "fileobj", "circ": {"n": 65, "ops": [{"g": _b("RX", {"sym": "q1[10]"}), "q": [64]},
            {"g": _b("RY", {"lin": {"const": None, "terms": [[{"int": 2}, "b7[2]"], [{"int": 3}, "_p[1]"], [{"int": 1}, "v[100]"]]}}), "q": [33]}]}},
        # ---- exotic but legal numbers and bound variables
        {"kind": "circuit", "via": "json", "circ": {"n": None, "ops": [
            {"g": _b("RX", {"sy": "cbrt-1"}), "q": [0]}, {"g": _b("RX", {"sy": "I/2"}), "q": [0]}, {"g": _b("RX", {"sy": "golden"}), "q": [0]},
            {"g": _b("RX", {"sy": "E"}), "q": [0]}, {"g": _b("RX", {"sy": "I"}), "q": [0]}, {"g": _b("RX", {"sy": "pi"}), "q": [0]},
            {"g": _b("RX", {"lin": {"const": None, "terms": [[{"sy": "I/2"}, "theta"]]}}), "q": [0]}]}},
        {"kind": "circuit", "via": "json", "oracle_only": True, "circ": {"n": None, "ops": [
            {"g": _b("RX", {"sum": [{"int": 2}, "theta"]}), "q": [0]}, {"g": _b("RX", {"sum": [{"rat": "1/2"}, "gamma"]}), "q": [0]},
            {"g": _b("U3", {"sum": [{"flt": 0.1}, "v[3]"]}, {"sym": "k"}, {"int": 1}), "q": [0]}]}},
        # ---- a plain symbol in one gate and an indexed symbol with that base in ANOTHER gate (the table is per gate);
        #      the symbol E in one gate and Euler's number in another
        {"kind": "circuit", "via": "json", "circ": {"n": None, "ops": [
            {"g": _b("RX", {"sym": "w"}), "q": [0]}, {"g": _b("RY", {"sym": "w[2]"}), "q": [0]},
            {"g": _b("U3", {"sym": "q1[10]"}, {"lin": {"const": None, "terms": [[{"int": 2}, "q1[10]"], [{"int": 1}, "v[0]"]]}}, {"int": 1}), "q": [1]},
            {"g": {"t": "ctrl", "g": _b("PHASE", {"lin": {"const": {"int": 1}, "terms": [[{"int": 3}, "q1"]]}}), "k": 1}, "q": [0, 1]},
            {"g": _b("RX", {"lin": {"const": None, "terms": [[{"int": 2}, "E"]]}}), "q": [0]}, {"g": _b("RZ", {"sy": "2*E"}), "q": [0]}]}},
        # ---- identifiers that are not ASCII (the model's scanner is ASCII)
        {"kind": "circuit", "via": "file", "oracle_only": True, "circ": {"n": None, "ops": [
            {"g": _b("RX", {"sym": "θ"}), "q": [0]}, {"g": _b("U3", {"lin": {"const": None, "terms": [[{"int": 2}, "θ"], [{"flt": 0.5}, "φ2"]]}}, {"sym": "φ2"}, {"int": 1}), "q": [0]}]}},
        # ---- definitions whose names differ in case only / are close to the markers; equal but distinct definition objects
        {"kind": "circuit", "via": "json", "circ": {"n": None, "defs": {"U1": DEFS["U1"], "U12": dict(DEFS["U12"], gate_name="u1"),
                                                                         "Const": dict(DEFS["Const"], gate_name="control"), "Ki": dict(DEFS["Ki"], gate_name="Daggered")}, "ops": [
            {"g": {"t": "c", "def": "U12", "params": [{"flt": 0.5}]}, "q": [0]}, {"g": {"t": "c", "def": "U1", "params": [{"flt": 0.5}]}, "q": [0]},
            {"g": {"t": "dag", "g": {"t": "c", "def": "Const", "params": []}}, "q": [0]}, {"g": {"t": "ctrl", "g": {"t": "c", "def": "Ki", "params": []}, "k": 1}, "q": [0, 1]},
            {"g": {"t": "c", "def": "U1", "fresh": True, "params": [{"flt": 0.25}]}, "q": [1]}]}},
        # ---- lists: empty, one empty circuit, only gate-less circuits, the same / nearly the same circuit several times
        {"kind": "circuitset", "via": "json", "circs": []},
        {"kind": "circuitset", "via": "file", "circs": [{"n": None, "ops": []}]},
        {"kind": "circuitset", "via": "stream", "circs": [{"n": None, "ops": []}, {"n": 3, "ops": []}, {"n": None, "ops": []}]},
        {"kind": "circuitset", "via": "json", "circs": [{"n": None, "ops": [{"g": _b("RX", {"flt": 0.5}), "q": [0]}]},
            {"n": None, "ops": [{"g": _b("RX", {"flt": 0.5 + 1e-09}), "q": [0]}]}, {"n": None, "ops": [{"g": _b("RX", {"flt": 0.5}), "q": [0]}]},
            {"n": 2, "ops": [{"g": _b("RX", {"flt": 0.5}), "q": [0]}]}, {"n": None, "ops": [{"g": _b("RX", {"int": -1}), "q": [0]}]},
            {"n": None, "ops": [{"g": _b("RX", {"int": -2}), "q": [0]}]}]},
        # the list of seeded change C05_m2 through the file and the stream path as well
        {"kind": "circuitset", "via": "file", "circs": [
            {"n": None, "defs": {"U1": DEFS["U1"]}, "ops": [{"g": {"t": "c", "def": "U1", "params": [{"flt": 0.5}]}, "q": [0]}]},
            {"n": None, "defs": {"U1b": dict(DEFS["U12"], gate_name="U1")}, "ops": [{"g": {"t": "c", "def": "U1b", "params": [{"flt": 0.5}]}, "q": [1]}]}]},
        {"kind": "circuitset", "via": "stream", "circs": [
            {"n": None, "defs": {"U1b": dict(DEFS["U12"], gate_name="U1")}, "ops": [{"g": {"t": "c", "def": "U1b", "params": [{"flt": 0.5}]}, "q": [1]}]},
            {"n": None, "defs": {"U1": DEFS["U1"]}, "ops": [{"g": {"t": "ctrl", "g": {"t": "c", "def": "U1", "params": [{"flt": 0.5}]}, "k": 1}, "q": [0, 1]}]}]},
        # ---- lists of 64 and more circuits
        {"kind": "circuitset", "via": "json", "circs": [{"n": None, "ops": [{"g": _b("RX", {"int": i}), "q": [i % 3]}]} for i in range(64)]},
        {"kind": "circuitset", "via": "file", "circs": [{"n": None, "ops": [{"g": _b("RZ", {"rat": f"{i}/7"}), "q": [0]}] if i % 5 else []} for i in range(97)]},
        # ---- a long circuit
        {"kind": "circuit", "via": "json", "circ": {"n": None, "ops": [{"g": _b("RX", {"int": i}), "q": [i % 4]} if i % 3 else {"g": _b("CNOT"), "q": [i % 4, (i + 1) % 4]} for i in range(130)]}},
        # FINDING: two definitions under one name that differ by less than the equality tolerance (1e-8) are taken
        # for one: the second gate comes back with the first gate's definition
        {"kind": "circuit", "via": "json", "conflict": True, "within_tolerance": True, "oracle_only": True, "circ": {"n": None,
            "defs": {"Const": DEFS["Const"], "other": {"gate_name": "Const", "ordering": [], "matrix": [[{"flt": 0.6}, {"flt": 0.8}], [{"flt": -0.8}, {"flt": 0.600000003}]]}}, "ops": [
            {"g": {"t": "c", "def": "Const", "params": []}, "q": [0]}, {"g": _b("X"), "q": [0]}, {"g": {"t": "c", "def": "other", "params": []}, "q": [1]}]}},
        # the same with a difference above the tolerance, and with a third operation in between: refused
        {"kind": "circuit", "via": "json", "conflict": True, "circ": {"n": None,
            "defs": {"Const": DEFS["Const"], "Ki": DEFS["Ki"], "other": {"gate_name": "Const", "ordering": [], "matrix": [[{"flt": 0.6}, {"flt": 0.8}], [{"flt": -0.8}, {"flt": 0.6000001}]]}}, "ops": [
            {"g": {"t": "c", "def": "Const", "params": []}, "q": [0]}, {"g": {"t": "c", "def": "Ki", "params": []}, "q": [0]}, {"g": {"t": "c", "def": "other", "params": []}, "q": [1]}]}},
        {"kind": "dict", "dict": {"n_qubits": 1, "operations": [{"type": "gate_operation", "gate": {"name": "Nope"}, "qubit_indices": [0]}]}},
        {"kind": "dict", "dict": {"n_qubits": 2, "operations": [{"type": "gate_operation", "qubit_indices": [0, 1], "gate": {
            "name": "Control", "wrapped_gate": {"name": "X"}, "num_control_qubits": 0}}]}},
    ]


def gen_malformed(rng):
    """dictionaries no serialiser produced: the deserialiser's error paths and name cascade"""
    def op(g, q=(0,)):
        return {"type": "gate_operation", "gate": g, "qubit_indices": list(q)}
    udef = {"gate_name": "U", "matrix": [["cos(t)", "-sin(t)"], ["sin(t)", "cos(t)"]], "params_ordering": ["t"]}
    k = rng.randrange(22)
    d = {"n_qubits": rng.choice([1, 2, 3])}
    if k == 0:
        d["operations"] = [op({"name": rng.choice(["Nope", "rx", "Control2", "X_Dagge"])})]
    elif k == 1:
        d["operations"] = [op({"name": "Control", "wrapped_gate": {"name": "X"}, "num_control_qubits": rng.choice([0, -1])}, (0, 1))]
    elif k == 2:
        d["operations"] = [op({"name": "Control", "wrapped_gate": {"name": "X"}}, (0, 1))]              # no num_control_qubits
    elif k == 3:
        d["operations"] = [op({"name": rng.choice(["Control", "X_Dagger", "Exponential", "X^2"])})]     # no wrapped_gate
    elif k == 4:
        d["operations"] = [op({"name": "X^2", "wrapped_gate": {"name": "X"}})]                          # no exponent
    elif k == 5:
        d["operations"] = [op({"name": "RX^2", "wrapped_gate": {"name": "RX", "params": ["x"], "free_symbols": ["x"]}, "exponent": 2})]
    elif k == 6:
        d["operations"] = [op({"name": "Exponential", "wrapped_gate": {"name": "RX", "params": ["2*y"], "free_symbols": ["y"]}})]
    elif k == 7:
        d = {"operations": [op({"name": "X"})]}                                                         # no n_qubits
    elif k == 8:
        d = {"n_qubits": rng.choice([-1, -3]), "operations": [op({"name": "X"})]}
    elif k == 9:
        d = {"n_qubits": 0, "operations": [op({"name": "X"}, (rng.choice([0, 2, 5]),))]}
    elif k == 10:
        d["operations"] = [op({"name": "U", "params": ["0.5"]})]                                        # definition missing
    elif k == 11:
        d["operations"] = [op({"name": "U", "params": ["0.5"]}), op({"name": "U_Dagger", "wrapped_gate": {"name": "U", "params": ["t"]}})]
        d["custom_gate_definitions"] = [udef]
    elif k == 12:
        d["operations"] = [op({"name": "W", "params": []})]
        d["custom_gate_definitions"] = [{"gate_name": "W", "matrix": rng.choice([[["1", "0", "0"], ["0", "1", "0"], ["0", "0", "1"]],
                                                                                 [["1", "0"]], []]), "params_ordering": []}]
    elif k == 13:
        d["operations"] = [op({"name": rng.choice(["Union", "Callable", "GateRef", "_gates"])})]        # module globals that are no gates
    elif k == 14:
        d["operations"] = [op({"name": rng.choice(["RX", "U3", "Delay"])})]                             # factory without parameters
    elif k == 15:
        d["operations"] = [op({"name": rng.choice(["X", "CNOT", "T"]), "params": ["0.5"]}, (0, 1))]      # gate object with parameters
    elif k == 16:
        d["operations"] = [op({"name": "RX", "params": ["v[2]"], "free_symbols": ["v[1]"]})]            # index not in the table
    elif k == 17:
        d["operations"] = [op({"name": "RX", "params": ["q[2]"]})]                                      # indexed name, no table
    elif k == 18:
        d["operations"] = [op({"name": "RX", "params": ["2*x"], "free_symbols": ["x", "x[3]"]})]        # F13 table
    elif k == 19:
        d["operations"] = [op({"name": "MyDagger", "params": ["0.5"]}), op({"name": "a^b"}), op({"name": "Control", "params": ["1"]})]
        d["custom_gate_definitions"] = [
            {"gate_name": "MyDagger", "matrix": [["1", "0"], ["0", "exp(I*t)"]], "params_ordering": ["t"]},
            {"gate_name": "a^b", "matrix": [["0", "1"], ["1", "0"]], "params_ordering": []},
            {"gate_name": "Control", "matrix": [["1", "0"], ["0", "exp(I*t)"]], "params_ordering": ["t"]}]
    elif k == 20:
        d["operations"] = [op({"name": "RX", "params": ["0.5"], "wrapped_gate": {"name": "Nope"}, "num_control_qubits": 1})]
    else:
        d["operations"] = [op({"name": "weird_Dagger", "wrapped_gate": {"name": "H^3.0_Dagger", "wrapped_gate": {
            "name": "H^3.0", "wrapped_gate": {"name": "H"}, "exponent": 3.0}}})]
    return {"kind": "dict", "dict": d}


def generate(rng, tier):
    big = tier == "thorough"
    cases = []
    bt = sorted(builtin_table())
    # every built-in gate once bare and once under a wrapper pair, numeric parameters
    for i, name in enumerate(bt):
        nq, npar = builtin_table()[name]
        leaf = {"t": "b", "name": name, "params": [gen_numeric(rng) for _ in range(npar)]}
        sym = {"t": "b", "name": name, "params": [gen_symbolic(rng, sym_pool(rng)) for _ in range(npar)]}
        if _f13_clash(sym["params"]):
            sym = {"t": "b", "name": name, "params": [{"sym": "theta"} for _ in range(npar)]}
        w = {"t": rng.choice(["dag", "exp"]), "g": {"t": "pow", "g": leaf, "e": rng.choice([2, 0.5])}}
        cases.append({"kind": "circuit", "via": VIAS[i % len(VIAS)], "circ": {"n": nq + 2, "ops": [
            {"g": leaf, "q": list(range(nq))}, {"g": w, "q": list(range(nq))[::-1]},
            {"g": {"t": "ctrl", "g": {"t": "dag", "g": sym}, "k": 1}, "q": [nq] + list(range(nq))}]}})
    for _ in range(700 if big else 100):
        cases.append({"kind": "circuit", "via": rng.choice(VIAS), "circ": gen_circuit(rng, tier, "safe")})
    for _ in range(160 if big else 24):           # custom gates with arbitrary symbolic arguments (repaired finding's class)
        cases.append({"kind": "circuit", "via": "json", "circ": gen_circuit(rng, tier, "any", max_depth=2)})
    for _ in range(20 if big else 3):             # identifiers that are not ASCII: the oracle alone
        cases.append({"kind": "circuit", "via": rng.choice(VIAS), "oracle_only": True,
                      "circ": gen_circuit(rng, tier, "any", max_depth=1, n_ops=3, unicode_ok=True)})
    for _ in range(80 if big else 12):
        cases.append({"kind": "circuitset", "via": rng.choice(VIAS),
                      "circs": [gen_circuit(rng, tier, "safe", max_depth=2) for _ in range(rng.randrange(0, 4))]})
    for _ in range(6 if big else 1):              # long lists (chunked / parallel paths)
        n = rng.choice([64, 65, 96, 128, 70])
        cases.append({"kind": "circuitset", "via": rng.choice(VIAS),
                      "circs": [gen_circuit(rng, tier, "safe", max_depth=1, n_ops=rng.choice([0, 1, 1, 2])) for _ in range(n)]})
    for _ in range(6 if big else 1):              # long circuits
        cases.append({"kind": "circuit", "via": rng.choice(VIAS),
                      "circ": gen_circuit(rng, tier, "safe", max_depth=1, n_ops=rng.choice([64, 70, 129]))})
    for _ in range(160 if big else 26):
        cases.append(gen_family(rng, tier))
    for _ in range(24 if big else 4):
        cases.append(gen_meaning_siblings(rng))
    for _ in range(40 if big else 6):
        cases.append(gen_conflict(rng))
    for _ in range(200 if big else 40):
        names = rng.sample(INDEXED, rng.randrange(0, 5))
        bases = {parse_indexed(n)[0] for n in names}
        names += rng.sample([n for n in PLAIN + SHADOW if n not in bases], rng.randrange(0, 5))
        rng.shuffle(names)
        cases.append({"kind": "symtab", "names": names})
    for _ in range(300 if big else 60):
        cases.append(gen_malformed(rng))
    for c in cases:                               # the known text-ambiguity class: the oracle alone (the model reads
        if c["kind"] in ("circuit", "circuitset", "family") and not c.get("conflict") \
                and any(in_text_collision_class(cs) for cs in _circ_specs(c)):      # symbols by table lookup only)
            c["oracle_only"] = True
    rng.shuffle(cases)                            # histories interleave: every case runs in one process
    return cases


# ---------------------------------------------------------------- predicates on specs
def _walk_gate(gs):
    yield gs
    if "g" in gs:
        yield from _walk_gate(gs["g"])


def _pspec_symbolic(p):
    (k, v), = p.items()
    return k in ("sym", "lin", "prod", "fn", "sum")


def _circ_specs(c):
    if c["kind"] == "circuit":
        return [c["circ"]]
    specs = list(c.get("circs", []))
    return specs + [late_applied(cs) for cs in specs if cs.get("late")]


def nontrivial(c):
    if c["kind"] == "symtab":
        return any(parse_indexed(n) for n in c["names"])
    if c["kind"] == "dict":
        return True
    for cs in _circ_specs(c):
        for o in cs["ops"]:
            for gs in _walk_gate(o["g"]):
                if gs["t"] != "b" or any(_pspec_symbolic(p) for p in gs["params"]):
                    return True
    return False


def _needs_table(gs, defs):
    """custom gate instance with a symbolic argument the deserialiser cannot resolve (the finding's class):
    the first argument is read against the definition's formal names, the others against no table at all, so a
    symbol that is indexed, or that sympy's namespace defines, or that hits an index dictionary, is lost"""
    ns = _sympy_ns()[0] | _sympy_ns()[1]
    for g in _walk_gate(gs):
        if g["t"] != "c":
            continue
        ordering = defs[g["def"]]["ordering"]
        bases = {parse_indexed(n)[0] for n in ordering if parse_indexed(n)}
        for i, p in enumerate(g["params"]):
            if not _pspec_symbolic(p):
                continue
            for s in build_param(p).free_symbols:
                s = str(s)
                if i == 0 and s in ordering:
                    continue
                if parse_indexed(s) or s in ns or (i == 0 and s in bases):
                    return True
    return False


def _text_collision(params):
    """the printed parameters of ONE gate (they are all read against the gate's free symbols) use, besides the
    symbols, an identifier equal to one of the symbol names (the constant pi next to a symbol called pi - in the
    same or in another parameter -, sin(...) next to a symbol called sin, the `j` of a Python complex number next to
    a symbol called I), or number literals next to a symbol called Integer / Float, or a name the parser wraps as
    Symbol('k') next to a symbol called Symbol (the names sympify's own wrapping calls): the text is ambiguous"""
    sympy = _m()[0]
    names, others, digits = set(), set(), False
    for p in params:
        if isinstance(p, complex):
            others.add("I")
            digits = True
            continue
        if not isinstance(p, sympy.Expr):
            digits = digits or _is_number(p)
            continue
        fs = sorted(p.free_symbols, key=str)
        names |= {str(x) for x in fs}
        stripped = str(p.xreplace({x: sympy.Symbol(f"__{i}__") for i, x in enumerate(fs)}))
        stripped = re.sub(r"__\d+__", " ", stripped)
        others |= set(re.findall(r"[A-Za-z_][A-Za-z_0-9]*", stripped))
        digits = digits or bool(re.search(r"\d", stripped))
    if not names:
        return False
    if names & others:
        return True
    if "Symbol" in names and others - (_sympy_ns()[0] | _sympy_ns()[1]):
        return True           # a bound variable is wrapped as Symbol('k') by the parser - through the same table
    return bool(names & {"Integer", "Float"}) and digits


def in_text_collision_class(cs):
    for o in cs["ops"]:
        for gs in _walk_gate(o["g"]):
            if gs["t"] in ("b", "c") and any(_pspec_symbolic(p) for p in gs["params"]) \
                    and _text_collision([build_param(p) for p in gs["params"]]):
                return True
    return False


def in_finding_class(cs):
    return any(_needs_table(o["g"], cs.get("defs") or {}) for o in cs["ops"])


# ---------------------------------------------------------------- implementation side
def _roundtrip(obj, via, is_set):
    """serialise -> real JSON text / file (path string, pathlib path, file object opened by the caller) / stream
    -> deserialise; returns (dict, deserialised object)"""
    _, _, _, _, _, sd = _m()
    d = sd.to_dict(obj)
    save = sd.save_circuitset if is_set else sd.save_circuit
    load = sd.load_circuitset if is_set else sd.load_circuit
    if via == "json":
        d2 = json.loads(json.dumps(d))
        back = sd.circuitset_from_dict(d2) if is_set else sd.circuit_from_dict(d2)
    elif via == "stream":
        buf = io.StringIO()
        save(obj, buf)
        buf.seek(0)
        back = load(buf)
    else:
        fd, path = tempfile.mkstemp(suffix=".json", prefix="c05_")
        os.close(fd)
        try:
            if via == "pathlib":
                import pathlib
                save(obj, pathlib.Path(path))
                back = load(pathlib.Path(path))
            elif via == "fileobj":
                with open(path, "w") as f:
                    save(obj, f)
                with open(path) as f:
                    back = load(f)
            else:
                save(obj, path)
                back = load(path)
        finally:
            os.unlink(path)
    return d, back


_RAISES = (KeyError, ValueError, TypeError, AttributeError, IndexError, NotImplementedError)


def _scribble(d):
    """the caller does what it likes with the dictionary `to_dict` gave it"""
    try:
        d["n_qubits"] = d.get("n_qubits", 0) + 3
        junk = {"type": "gate_operation", "gate": {"name": "H"}, "qubit_indices": [0]}
        ops = d.get("operations")
        if ops:
            g0 = ops[0]["gate"]
            while "wrapped_gate" in g0:
                g0["name"] = "Control"
                g0["num_control_qubits"] = 7
                g0["exponent"] = 9
                g0 = g0["wrapped_gate"]
            g0["name"] = "Z"
            if "params" in g0:
                g0["params"][:] = ["1234"] * len(g0["params"])
            g0.pop("free_symbols", None)
            ops[0]["qubit_indices"][:] = [5]
            ops.reverse()
            ops.append(junk)
        else:
            d["operations"] = [junk]
        for df in d.get("custom_gate_definitions", []):
            df["matrix"][0][0] = "17"
            df["params_ordering"].append("zz")
            df["gate_name"] += "x"
        d.pop("custom_gate_definitions", None)
    except Exception:
        pass


def _run_family(c, out):
    """one interleaved history over circuits that differ in one component and are all alive together:
    A  every circuit serialised (in order), the JSON texts deserialised in reverse order;
    B  the dictionaries handed out are scribbled on, every circuit serialised again -> deserialised;
    C  one parsed dictionary deserialised twice, the first result appended to / reversed in between;
    D  a circuit changed through its live `operations` list after A-C -> serialised / deserialised again;
    F  one file path written and read again for every circuit and for two lists;
    E  all of them as one list through save/load (this is what the model answers too).
    Every (original, deserialised) pair is then put to the property's sentences by the oracle."""
    sympy, np, cq, bg, g, sd = _m()
    specs = c["circs"]
    objs = [build_circuit(cs) for cs in specs]
    # never-serialised twins are the references (also for what a circuit was before its late change)
    ref = [build_circuit({k: v for k, v in cs.items() if k != "late"}) for cs in specs]
    pairs = []
    state = {"phase": "A"}
    try:
        dA = [sd.to_dict(o) for o in objs]
        tA = [json.dumps(d) for d in dA]
        for i in reversed(range(len(objs))):
            pairs.append((f"circuit[{i}] (first serialisation)", ref[i], sd.circuit_from_dict(json.loads(tA[i])), True))
        state["phase"] = "B"
        for d in dA:
            _scribble(d)
        tB = [json.dumps(sd.to_dict(o)) for o in objs]
        for i in range(len(objs)):
            pairs.append((f"circuit[{i}] (serialised again after the caller changed the first dictionary)", ref[i],
                          sd.circuit_from_dict(json.loads(tB[i])), False))
        state["phase"] = "C"
        junk = cq.GateOperation(bg.H, (0,))
        for i in range(len(objs)):
            pd = json.loads(tB[i])
            b1 = sd.circuit_from_dict(pd)
            try:
                b1.operations.append(junk)
                b1.operations.reverse()
            except Exception:
                pass
            pairs.append((f"circuit[{i}] (same dictionary deserialised a second time, the first result appended to in between)",
                          ref[i], sd.circuit_from_dict(pd), False))
        state["phase"] = "D"
        ref = list(ref)
        for i, cs in enumerate(specs):
            if cs.get("late"):
                apply_late(objs[i], cs)
                ref[i] = build_circuit({k: v for k, v in cs.items() if k != "late"})
                apply_late(ref[i], cs)
                d = sd.to_dict(objs[i])
                pairs.append((f"circuit[{i}] (after its operations list was changed: {cs['late']['how']})", ref[i],
                              sd.circuit_from_dict(json.loads(json.dumps(d))), True))
        state["phase"] = "F"
        fd, path = tempfile.mkstemp(suffix=".json", prefix="c05_")
        os.close(fd)
        try:
            for i in range(len(objs)):
                sd.save_circuit(objs[i], path)
                pairs.append((f"circuit[{i}] (saved to and loaded from a path used before)", ref[i], sd.load_circuit(path), False))
            for sub in ([0], list(range(len(objs)))[::-1]):
                sd.save_circuitset([objs[i] for i in sub], path)
                got = sd.load_circuitset(path)
                if len(got) != len(sub):
                    out["len2"] = len(got)
                for i, b in zip(sub, got):
                    pairs.append((f"circuit[{i}] (in a list saved to and loaded from a path used before)", ref[i], b, False))
        finally:
            os.unlink(path)
        state["phase"] = "E"
        out["ast"] = [circuit_ast(o) for o in objs]
        d, backs = _roundtrip(objs, c["via"], True)
        out["dict"] = d
        if len(backs) != len(objs):
            out["len2"] = len(backs)
        for i, b in enumerate(backs[: len(objs)]):
            pairs.append((f"circuit[{i}] (as element of the list)", ref[i], b, False))
        try:
            out["ast2"] = [circuit_ast(b) for b in backs]
        except (Junk, AttributeError, TypeError) as e:
            out["err2"] = "err:junk"
            out["msg"] = str(e)[:120]
    except _RAISES as e:
        out["phase_err"] = state["phase"]
        out["err2"] = _exc_name(e)
        out["msg"] = f"phase {state['phase']}: {type(e).__name__}: {e}"[:200]
        if "ast" not in out:
            out["ast"] = []
        out.setdefault("dict", None)
    return pairs


def _exc_name(e):
    if isinstance(e, KeyError):
        return "err:key"
    if isinstance(e, ValueError):
        return "err:value"
    if isinstance(e, TypeError):
        return "err:type"
    if isinstance(e, NotImplementedError):
        return "err:notimpl"
    return "err:other:" + type(e).__name__


_LIVE = {}


def run_impl(c):
    """JSON-able summary; the live objects are kept aside for the oracle (same process, same case)"""
    sympy, np, cq, bg, g, sd = _m()
    key = common.canon(c)
    _LIVE.clear()
    k = c["kind"]
    if k == "symtab":
        names = c["names"]
        try:
            m = sd._make_symbols_map(names)
        except TypeError:
            return {"map": "err:type"}
        out = {"map": [[kk, ({"sym": str(v)} if not isinstance(v, dict) else {"dict": [[i, str(s)] for i, s in v.items()]})]
                       for kk, v in m.items()], "resolve": []}
        for n in names:
            try:
                r = sd.deserialize_expr(n, names)
                out["resolve"].append(str(r) if isinstance(r, sympy.Symbol) else None)
            except Exception as e:
                out["resolve"].append(_exc_name(e))
        return out
    if k == "dict":
        try:
            back = sd.circuit_from_dict(json.loads(json.dumps(c["dict"])))
        except (KeyError, ValueError, TypeError) as e:
            return {"err2": _exc_name(e), "msg": str(e)[:120]}
        try:
            return {"ast2": [circuit_ast(back)]}
        except Junk as e:
            return {"err2": "err:junk", "msg": str(e)}
    if k == "family":
        out = {}
        pairs = _run_family(c, out)
        _LIVE[key] = ("pairs", pairs)
        return out
    specs = [c["circ"]] if k == "circuit" else c["circs"]
    is_set = k == "circuitset"
    # the reference of every comparison is a twin that is never handed to the library (a serialiser that changes
    # its argument must not take the reference with it)
    refs = [build_circuit(cs) for cs in specs]
    objs = [build_circuit(cs) for cs in specs]
    obj = objs if is_set else objs[0]
    out = {"ast": [circuit_ast(o) for o in objs]}
    try:
        d, back = _roundtrip(obj, c["via"], is_set)
    except (KeyError, ValueError, TypeError, AttributeError) as e:
        sd_d = None
        try:
            sd_d = sd.to_dict(obj)
        except Exception:
            pass
        out["dict"] = sd_d
        out["err2"] = _exc_name(e)
        out["msg"] = f"{type(e).__name__}: {e}"[:160]
        return out
    out["dict"] = d
    backs = back if is_set else [back]
    try:
        out["ast2"] = [circuit_ast(b) for b in backs]
    except (Junk, AttributeError, TypeError) as e:
        out["err2"] = "err:junk"
        out["msg"] = str(e)[:120]
    _LIVE[key] = (refs, backs)
    return out


# ---------------------------------------------------------------- model side
def requests(c, out):
    k = c["kind"]
    if k == "symtab":
        return [("symtab", {"names": c["names"], "queries": c["names"]})]
    if k == "dict":
        return [("from_dict", {"dict": tag_dict(c["dict"]), **sympy_globals(dict_texts(c["dict"]))})]
    if c.get("oracle_only") or out.get("phase_err"):
        return []
    reqs = []
    d = out.get("dict")
    texts = dict_texts(d) if d is not None else []
    gl = sympy_globals(texts)
    if k == "circuit":
        reqs.append(("to_dict", {"circuit": out["ast"][0], **gl}))
        if d is not None:
            reqs.append(("from_dict", {"dict": tag_dict(d), **gl}))
    else:
        reqs.append(("to_dict_set", {"circuits": out["ast"], **gl}))
        if d is not None:
            reqs.append(("from_dict_set", {"dict": tag_dict(d), **gl}))
    return reqs


_NUM = re.compile(r"(?<![A-Za-z_\]\d.])(\d+\.?\d*(?:[eE][+-]?\d+)?|\.\d+(?:[eE][+-]?\d+)?)")


def norm_text(t):
    nums = [Fraction(x) for x in _NUM.findall(t)]
    return _NUM.sub("#", t), nums


def text_close(a, b):
    try:                                   # both are plain numbers ("-0.0" comes back as "0")
        return Fraction(a) == Fraction(b) or abs(Fraction(a) - Fraction(b)) <= Fraction(1, 10 ** 12) * abs(Fraction(a))
    except (ValueError, ZeroDivisionError):
        pass
    sa, na = norm_text(a)
    sb, nb = norm_text(b)
    if sa != sb or len(na) != len(nb):
        return False
    return all(x == y or abs(x - y) <= Fraction(1, 10 ** 12) * max(abs(x), abs(y)) for x, y in zip(na, nb))


def _texts_same_value(a, b, syms):
    """fallback of the glue when sympy printed the terms of the re-parsed expression in another order: both texts,
    with the symbol names replaced by placeholders, are evaluated at two points and compared to 1e-12"""
    sympy = _m()[0]
    loc = {}
    for i, name in enumerate(sorted(syms, key=len, reverse=True)):
        ph = f"zzq{i}zz"
        pat = re.escape(name) if parse_indexed(name) else r"(?<![A-Za-z0-9_])" + re.escape(name) + r"(?![A-Za-z0-9_\[])"
        a, b = re.sub(pat, ph, a), re.sub(pat, ph, b)
        loc[ph] = sympy.Symbol(ph)
    try:
        ea, eb = sympy.sympify(a, locals=dict(loc)), sympy.sympify(b, locals=dict(loc))
        for trial in range(2):
            pt = {v: sympy.Rational(5 + 3 * i + trial, 11 + i) for i, v in enumerate(loc.values())}
            x, y = complex(sympy.N(ea.subs(pt), 30)), complex(sympy.N(eb.subs(pt), 30))
            if abs(x - y) > 1e-12 * max(abs(x), abs(y), 1e-300):
                return False
        return True
    except Exception:
        return False


def _same_global(a, b):
    """two names sympy's namespace binds to one object (`O` is the class `Order`)"""
    if not _FULL_NS:
        exec("from sympy import *", _FULL_NS)
    return a in _FULL_NS and b in _FULL_NS and _FULL_NS[a] is _FULL_NS[b]


def ast_close(a, b, path="$"):
    """model AST vs implementation AST: identical except that number literals inside texts are compared by value"""
    if isinstance(a, dict) and isinstance(b, dict):
        if set(a) != set(b):
            return f"{path}: keys {sorted(a)} vs {sorted(b)}"
        if set(a) == {"text", "syms"}:
            if a["syms"] != b["syms"]:
                return f"{path}: free symbols {a['syms']} vs {b['syms']} (texts {a['text']!r} / {b['text']!r})"
            if _LENIENT[0] or text_close(a["text"], b["text"]) or _same_global(a["text"], b["text"]) \
                    or _texts_same_value(a["text"], b["text"], a["syms"]):
                return None
            return f"{path}: text {a['text']!r} vs {b['text']!r}"
        if set(a) == {"int", "val", "text"}:
            return None if (a["int"], Fraction(a["val"])) == (b["int"], Fraction(b["val"])) else f"{path}: exponent {a} vs {b}"
        for k in a:
            r = ast_close(a[k], b[k], f"{path}.{k}")
            if r:
                return r
        return None
    if isinstance(a, list) and isinstance(b, list):
        if len(a) != len(b):
            return f"{path}: length {len(a)} vs {len(b)}"
        for i, (x, y) in enumerate(zip(a, b)):
            r = ast_close(x, y, f"{path}[{i}]")
            if r:
                return r
        return None
    return None if a == b and type(a) == type(b) else f"{path}: {a!r} vs {b!r}"


def _cmp_back(model, out, multi):
    """model's from_dict answer vs the implementation's deserialised object(s)"""
    if isinstance(model, dict) and "driver_error" in model:
        return "driver error: " + model["driver_error"]
    if isinstance(model, str):                      # modelled exception
        got = out.get("err2")
        if got == model or (model == "err:junk" and got in ("err:type", "err:junk")):
            return None
        return f"deserialiser: model {model}, implementation {got or 'returned a circuit'} ({out.get('msg', '')})"
    if "err2" in out:
        return f"deserialiser: model returned a circuit, implementation {out['err2']} ({out.get('msg', '')})"
    want = model["ok"] if multi else [model["ok"]]
    r = ast_close(want, out["ast2"])
    return ("deserialised circuit differs, model vs implementation: " + r) if r else None


def compare(c, out, resp):
    k = c["kind"]
    if any(isinstance(r, dict) and "driver_error" in r for r in resp):
        return "driver error: " + str([r for r in resp if isinstance(r, dict) and "driver_error" in r][0])
    if k == "symtab":
        r = resp[0]
        if isinstance(r, str) or isinstance(out["map"], str):
            return None if r == out["map"] else f"_make_symbols_map: model {r} implementation {out['map']}"
        if r["map"] != out["map"]:
            return f"_make_symbols_map: model {r['map']} implementation {out['map']}"
        if r["resolve"] != out["resolve"]:
            return f"symbol lookup: model {r['resolve']} implementation {out['resolve']}"
        return None
    _LENIENT[0] = False
    if k == "dict":
        return _cmp_back(resp[0], out, False)
    multi = k in ("circuitset", "family")
    r0 = resp[0]
    d = out.get("dict")
    if isinstance(r0, str):
        if d is not None:
            return f"to_dict: model {r0}, implementation produced a dictionary"
    else:
        if d is None:
            return f"to_dict: implementation raised ({out.get('msg')}), model produced a dictionary"
        if typed(untag_dict(r0["ok"])) != typed(d):
            return f"to_dict differs: model {common.canon(untag_dict(r0['ok']))[:400]} implementation {common.canon(d)[:400]}"
    if len(resp) > 1:
        return _cmp_back(resp[1], out, multi)
    return None


# ---------------------------------------------------------------- oracle (the property's own sentences)
def _is_number(p):
    """a Python (or numpy) number, not a sympy one (sympy registers its numbers with the numbers ABCs)"""
    import numbers
    sympy = _m()[0]
    return isinstance(p, numbers.Number) and not isinstance(p, sympy.Basic)


def _exact_value(q):
    """(re, im) of a sympy number as exact rationals (a Float counts as the binary number it is); None if not one"""
    sympy = _m()[0]
    try:
        re_, im_ = q.as_real_imag()
        out = []
        for x in (re_, im_):
            if not isinstance(x, (sympy.Rational, sympy.Float)):
                return None
            if isinstance(x, sympy.Float):
                sign, man, exp, _bc = x._mpf_
                x = Fraction(int(man)) * (Fraction(2) ** int(exp)) * (-1 if sign else 1)
            else:
                x = Fraction(int(x.p), int(x.q))
            out.append(x)
        return tuple(out)
    except Exception:
        return None


def _rel_close(a, b):
    return abs(a - b) <= 1e-12 * max(abs(a), abs(b))


def _expr_close(p, q):
    """equal as numbers or expressions: exactly, or to 1e-12 relative on floating-point coefficients"""
    sympy = _m()[0]
    if _is_number(p):
        if isinstance(p, int):
            return bool(q == p)                       # Python numbers: exactly
        if not isinstance(q, sympy.Expr) and not _is_number(q):
            return False
        try:
            if bool(q == p):
                return True
        except (TypeError, ValueError):
            return False
        pc = complex(p)
        ev = _exact_value(sympy.sympify(q))
        if ev is None:
            return False
        if ev == (Fraction(pc.real), Fraction(pc.imag)):
            return True                               # the same number, written 2 + 3*I instead of 2.0 + 3.0*I
        # a Python float comes back as sympy.Float(repr(p)); with 16-17 significant digits sympy keeps 56-60 bits
        # of the *decimal* text, which is a different real number than the double (finding SIG_FLOAT, reported
        # softly: the walk goes on, so it never masks another failure).  The class is exactly that: what came back is
        # the decimal repr of the original to better than half an ulp.  Anything else - the neighbouring double, a
        # 15-digit rounding - is a plain violation.
        from decimal import Decimal
        dec = (Fraction(Decimal(repr(pc.real))), Fraction(Decimal(repr(pc.imag))))
        if all(abs(e - d) <= Fraction(3, 4 * 2 ** 53) * abs(d) for e, d in zip(ev, dec)):
            _SOFT.append(f"Python number {p!r} came back as {sympy.srepr(q)[:60]}, which is != {p!r}")
            return True
        return False
    if isinstance(p, sympy.Symbol):
        return isinstance(q, sympy.Symbol) and q == p and q.name == p.name
    if not isinstance(q, sympy.Expr):
        return False
    if q == p:
        return True
    if not p.atoms(sympy.Float):
        return False                                  # no floating-point coefficient: must be exact
    if p.free_symbols != q.free_symbols:
        return False
    syms = sorted(p.free_symbols, key=str)
    # value and every partial derivative (for a linear expression: every coefficient separately, so that a small
    # coefficient cannot hide behind a large one) at three points
    try:
        fa = [p] + [sympy.diff(p, x) for x in syms]
        fb = [q] + [sympy.diff(q, x) for x in syms]
        for trial in range(3):
            pt = {x: sympy.Rational(3 + 2 * i + trial, 7 + i) for i, x in enumerate(syms)}
            for ea, eb in zip(fa, fb):
                a, b = complex(sympy.N(ea.subs(pt), 30)), complex(sympy.N(eb.subs(pt), 30))
                if not _rel_close(a, b):
                    return False
        if syms:                                      # the constant term on its own
            z = {x: 0 for x in syms}
            a, b = complex(sympy.N(p.subs(z), 30)), complex(sympy.N(q.subs(z), 30))
            if not _rel_close(a, b):
                return False
    except (TypeError, ValueError):
        return False
    return True


def _exact(p):
    """parameter survives printing exactly (then `==` must hold)"""
    sympy = _m()[0]
    if _is_number(p) or not isinstance(p, sympy.Expr):
        return True
    return all(sympy.sympify(str(f)) == f for f in p.atoms(sympy.Float))


def _show(p, q):
    sympy = _m()[0]
    if str(p) == str(q):
        try:
            return f"{sympy.srepr(p)} became {sympy.srepr(q)}"[:300]
        except Exception:
            pass
    return f"{p!r} became {q!r}"[:300]


def _gate_walk(a, b, path):
    """same kind and nesting, same definitions, same parameters; returns message or None"""
    _, _, _, bg, g, _ = _m()
    if type(a) is not type(b):
        return f"{path}: gate kind {type(a).__name__} became {type(b).__name__}"
    if isinstance(a, g.MatrixFactoryGate):
        if (a.name, a.num_qubits, a.is_hermitian) != (b.name, b.num_qubits, b.is_hermitian):
            return f"{path}: gate {a.name}/{a.num_qubits}q/herm={a.is_hermitian} became {b.name}/{b.num_qubits}q/herm={b.is_hermitian}"
        ca, cb = isinstance(a.matrix_factory, g.CustomGateMatrixFactory), isinstance(b.matrix_factory, g.CustomGateMatrixFactory)
        if ca != cb:
            return f"{path}: custom/built-in nature of {a.name} changed"
        if ca:
            da, db = a.matrix_factory.gate_definition, b.matrix_factory.gate_definition
            if da.gate_name != db.gate_name or tuple(da.params_ordering) != tuple(db.params_ordering):
                return f"{path}: definition header {da.gate_name}{da.params_ordering} became {db.gate_name}{db.params_ordering}"
            if da.matrix.shape != db.matrix.shape:
                return f"{path}: definition matrix shape changed"
            for x, y in zip(da.matrix, db.matrix):
                if not _expr_close(x, y):
                    return f"{path}: definition matrix entry {_show(x, y)}"
        elif a.matrix_factory is not b.matrix_factory:
            return f"{path}: built-in {a.name} lost its matrix factory"
        if len(a.params) != len(b.params):
            return f"{path}: {len(a.params)} parameters became {len(b.params)}"
        for i, (p, q) in enumerate(zip(a.params, b.params)):
            if not _expr_close(p, q):
                return f"{path}: parameter {i} of {a.name}: {_show(p, q)}"
        return None
    if isinstance(a, g.ControlledGate) and a.num_control_qubits != b.num_control_qubits:
        return f"{path}: {a.num_control_qubits} controls became {b.num_control_qubits}"
    if isinstance(a, g.Power) and not (a.exponent == b.exponent):
        return f"{path}: exponent {a.exponent!r} became {b.exponent!r}"
    return _gate_walk(a.wrapped_gate, b.wrapped_gate, path + "." + type(a).__name__)


def _cost(gt):
    """sympy's Matrix.exp() and Matrix ** non-integer can take minutes or exhaust memory on float matrices
    (exp(exp(RX(0.3))) does); the matrix clause is therefore evaluated only through wrappers sympy computes
    cheaply: controlled, dagger and small integer powers"""
    g = _m()[4]
    heavy = 0
    while hasattr(gt, "wrapped_gate"):
        if isinstance(gt, g.Exponential):
            heavy += 1
        if isinstance(gt, g.Power) and not (isinstance(gt.exponent, int) and -3 <= gt.exponent <= 3):
            heavy += 1
        gt = gt.wrapped_gate
    return heavy


def _moderate(params, point):
    """angles of modest size only: a relative error of 1e-16 in an angle of 1e16 moves the matrix by O(1)"""
    sympy = _m()[0]
    for p in params:
        v = complex(sympy.N(sympy.sympify(p).subs(point), 20)) if not _is_number(p) else complex(p)
        if abs(v) > 1e4:
            return False
    return True


def _matrix_at(gt, point):
    sympy, np = _m()[0], _m()[1]
    if gt.free_symbols:
        gt = gt.bind(point)
    return np.array(sympy.matrix2numpy(sympy.Matrix(gt.matrix).evalf(30), dtype=complex))


def oracle(c, out):
    sympy, np, cq, bg, g, sd = _m()
    k = c["kind"]
    if k == "dict":
        return None                                   # no serialiser produced it: outside the property
    if k == "symtab":
        names = c["names"]
        plain = {n for n in names if not parse_indexed(n)}
        if any(parse_indexed(n)[0] in plain for n in names if parse_indexed(n)):
            return None                               # F13, outside the domain
        if any(keyword.iskeyword(n) for n in plain):
            return None
        if out.get("map") == "err:type":
            return ("symbol-table-raises", f"_make_symbols_map({names}) raised TypeError")
        bad = [n for n, r in zip(names, out["resolve"]) if r != n]
        if bad:
            return ("symbol-table-lookup", f"names {bad} of {names} do not deserialise to their own symbol: {out['resolve']}")
        return None
    specs = _circ_specs(c)
    if c.get("conflict") and out.get("dict") is None and out.get("err2") == "err:value":
        return None                                   # two different definitions under one name: refused, no round trip
    sig = (SIG_MERGED if c.get("within_tolerance")
           else SIG_CUSTOM_SYM if any(in_finding_class(cs) for cs in specs)
           else SIG_NAME_TEXT if any(in_text_collision_class(cs) for cs in specs) else None)
    live = _LIVE.get(common.canon(c))
    if k == "family":
        if live is None or live[0] != "pairs":
            return ("oracle-no-objects", f"live objects missing ({out.get('exc')}: {out.get('msg')})")
        del _SOFT[:]
        for label, a, b, with_matrix in live[1]:
            r = _check_pair(a, b, label, sig, with_matrix)
            if r:
                return r
        if out.get("phase_err"):
            return (sig or "history-raises", f"a step of the history raised: {out.get('msg')}")
        if "len2" in out:
            return ("circuitset-length", f"{len(c['circs'])} circuits became {out['len2']}")
        if "err2" in out:
            return (sig or "deserialise-raises", f"the round trip returned a non-gate: {out.get('msg')} [{out['err2']}]")
        return (SIG_FLOAT, _SOFT[0]) if _SOFT else None
    if "dict" in out and out["dict"] is None:
        return (sig or "serialise-raises", f"to_dict raised: {out.get('msg')}")
    if "err2" in out:
        return (sig or "deserialise-raises", f"the round trip raised / returned a non-gate: {out.get('msg')} [{out['err2']}]")
    if live is None:
        return ("oracle-no-objects", f"live objects missing ({out.get('exc')}: {out.get('msg')})")
    objs, backs = live
    del _SOFT[:]
    if len(objs) != len(backs):
        return ("circuitset-length", f"{len(objs)} circuits became {len(backs)}")
    for ci, (a, b) in enumerate(zip(objs, backs)):
        r = _check_pair(a, b, f"circuit[{ci}]", sig, ci < 8)
        if r:
            return r
    if _SOFT:
        return (SIG_FLOAT, _SOFT[0])
    return None


def _check_pair(a, b, here, sig, with_matrix=True):
    """the property's sentences for one original circuit `a` and what came back for it, `b`"""
    sympy, np, cq, bg, g, sd = _m()
    if not isinstance(b, cq.Circuit):
        return ("not-a-circuit", f"{here}: deserialised to {type(b).__name__}")
    if a.n_qubits != b.n_qubits:
        return ("register-width", f"{here}: n_qubits {a.n_qubits} became {b.n_qubits}")
    if len(a.operations) != len(b.operations):
        return ("operation-count", f"{here}: {len(a.operations)} operations became {len(b.operations)}")
    exact = True
    for oi, (x, y) in enumerate(zip(a.operations, b.operations)):
        if tuple(x.qubit_indices) != tuple(y.qubit_indices):
            return ("qubit-indices", f"{here}.op[{oi}]: qubits {x.qubit_indices} became {y.qubit_indices}")
        msg = _gate_walk(x.gate, y.gate, f"{here}.op[{oi}]")
        if msg:
            return (sig or "structure-or-parameter", msg)
        exact = exact and all(_exact(p) for p in x.gate.params)
        inner = x.gate
        while hasattr(inner, "wrapped_gate"):
            inner = inner.wrapped_gate
        if isinstance(inner.matrix_factory, g.CustomGateMatrixFactory):
            exact = exact and all(_exact(e) for e in inner.matrix_factory.gate_definition.matrix)
    if exact and not (a == b):
        return (sig or "not-equal", f"{here}: parameters are exactly representable but the deserialised circuit != original")
    if [str(s) for s in a.free_symbols] != [str(s) for s in b.free_symbols] or list(a.free_symbols) != list(b.free_symbols):
        return (sig or "free-symbols", f"{here}: free symbols {a.free_symbols} became {b.free_symbols}")
    if not with_matrix:
        return None
    # same matrix at an assignment of the symbols (per gate; bounded cost)
    syms = list(a.free_symbols)
    point = {s: sympy.Float(0.37 + 0.211 * i) for i, s in enumerate(syms)}
    done = 0
    for oi, (x, y) in enumerate(zip(a.operations, b.operations)):
        if done >= 3 or x.gate.num_qubits > 3 or _cost(x.gate) > 0 or not _moderate(x.gate.params, point):
            continue
        if any(isinstance(p_, np.generic) for p_ in x.gate.params):
            continue          # sympy 1.9 cannot take numpy-2 scalars into a matrix (environment, not the property)
        done += 1
        try:
            ma = _matrix_at(x.gate, point)
        except Exception:
            continue          # the original itself has no matrix here (a singular matrix to a negative power, ...)
        try:
            mb = _matrix_at(y.gate, point)
        except Exception as e:
            return (sig or "matrix", f"{here}.op[{oi}]: the original has a matrix at {point}, the deserialised gate raises {type(e).__name__}: {e}"[:300])
        if not np.isfinite(ma).all():
            continue          # overflow in the original's own matrix: nothing to compare
        scale = max(1.0, float(abs(ma).max())) if ma.size else 1.0
        if ma.shape != mb.shape or not np.allclose(ma, mb, atol=1e-9 * scale, rtol=0):
            return (sig or "matrix", f"{here}.op[{oi}]: matrix changed at {point}: max diff {abs(ma - mb).max() if ma.shape == mb.shape else 'shape'}")
    return None


def distribution(cases, outs):
    gates, wraps, vias, pk, depth = {}, {}, {}, {}, {}
    for c in cases:
        vias[c.get("via", c["kind"])] = vias.get(c.get("via", c["kind"]), 0) + 1
        for cs in _circ_specs(c):
            for o in cs["ops"]:
                dd = 0
                for gs in _walk_gate(o["g"]):
                    if gs["t"] in ("b", "c"):
                        nm = gs.get("name") or ("custom:" + gs["def"])
                        gates[nm] = gates.get(nm, 0) + 1
                        for p in gs["params"]:
                            kk = next(iter(p))
                            pk[kk] = pk.get(kk, 0) + 1
                    else:
                        wraps[gs["t"]] = wraps.get(gs["t"], 0) + 1
                        dd += 1
                depth[dd] = depth.get(dd, 0) + 1
    errs = {}
    for o in outs:
        if isinstance(o, dict) and o.get("err2"):
            errs[o["err2"]] = errs.get(o["err2"], 0) + 1
    return {"gate_kinds": gates, "wrappers": wraps, "wrapper_depth": {str(k): v for k, v in sorted(depth.items())},
            "via": vias, "param_kinds": pk, "deserialiser_errors": errs,
            "builtin_gates_covered": sum(1 for k in gates if not k.startswith("custom:")),
            "finding_class_cases": sum(1 for c in cases for cs in _circ_specs(c) if in_finding_class(cs))}
